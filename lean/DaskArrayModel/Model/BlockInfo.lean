/-
L1 model of the `block_info` / `block_id` payloads built by `map_blocks`
(dask_array/_map_blocks.py), of the output layout of the `Blockwise` it creates
(`Blockwise.chunks` with `align_arrays=False`, dask_array/_blockwise.py) and of the lowering of
`ChunksFreeze` (dask_array/_expr.py).  Mirrors the Python control flow.  Core Lean only.
Tied to the code by harness/props/C20.py.
-/
import DaskArrayModel.Py.Basic
namespace Dask.BlockInfo

inductive Err | valueError | indexError | runtimeError
deriving DecidableEq, Repr

/-- decidable equality of results (used by `decide` in examples only) -/
instance instDecEqExcept {ε α} [DecidableEq ε] [DecidableEq α] : DecidableEq (Except ε α)
  | .ok a, .ok b => if h : a = b then isTrue (h ▸ rfl) else isFalse (fun e => by cases e; exact h rfl)
  | .error a, .error b => if h : a = b then isTrue (h ▸ rfl) else isFalse (fun e => by cases e; exact h rfl)
  | .ok _, .error _ => isFalse (fun e => by cases e)
  | .error _, .ok _ => isFalse (fun e => by cases e)

/-- chunks of an array: one tuple of block lengths per axis -/
abbrev Layout := List (List Nat)

def nsum : List Nat → Nat
  | [] => 0
  | x :: xs => x + nsum xs

/-- `cached_cumsum(c, initial_zero=True)` : `[0, c0, c0+c1, …]` -/
def starts : List Nat → List Nat
  | [] => [0]
  | x :: xs => 0 :: (starts xs).map (x + ·)

/-- `(starts[j], starts[j+1])` -/
def extent (c : List Nat) (j : Nat) : Nat × Nat := ((starts c).getD j 0, (starts c).getD (j + 1) 0)

def shape (L : Layout) : List Nat := L.map nsum
def numChunks (L : Layout) : List Nat := L.map List.length

/-- `[(starts[ij][j], starts[ij][j+1]) for ij, j in enumerate(bid)]` -/
def arrayLocation : Layout → List Nat → List (Nat × Nat)
  | c :: cs, j :: js => extent c j :: arrayLocation cs js
  | _, _ => []

/-- `tuple(chunks[ij][j] for ij, j in enumerate(bid))` -/
def chunkShape : Layout → List Nat → List Nat
  | c :: cs, j :: js => c.getD j 0 :: chunkShape cs js
  | _, _ => []

/-- a block id of the grid of `L` -/
def validBid : Layout → List Nat → Bool
  | [], [] => true
  | c :: cs, j :: js => decide (j < c.length) && validBid cs js
  | _, _ => false

/-- `product(*(range(len(c)) for c in chunks))` -/
def grid : List Nat → List (List Nat)
  | [] => [[]]
  | n :: ns => (List.range n).flatMap (fun i => (grid ns).map (fun rest => i :: rest))

/-- one entry of `block_info` -/
structure Info where
  shape : List Nat
  numChunks : List Nat
  arrayLocation : List (Nat × Nat)
  chunkLocation : List Nat
deriving DecidableEq, Repr

/-- `block_info[None]` without the dtype -/
structure OutInfo extends Info where
  chunkShape : List Nat
deriving DecidableEq, Repr

/-! ### index labels (`get_argpair`, `out_ind`) -/

/-- `tuple(range(n))[::-1]` -/
def revRange (n : Nat) : List Nat := (List.range n).reverse

def maxNdim (args : List Layout) : Nat := args.foldl (fun m a => max m a.length) 0

/-- drop the positions listed in `drop_axis` -/
def dropPositions (l : List Nat) (drop : List Nat) : List Nat :=
  (l.zipIdx.filter (fun p => !(drop.contains p.2))).map (·.1)

/-- Python `list.insert(i, v)` for `i ≥ 0` -/
def insertAt (l : List Nat) (i v : Nat) : List Nat := l.take i ++ v :: l.drop i

/-- an entry of the `chunks=` argument: an integer or a tuple -/
inductive ChunkSpec
  | int (n : Nat)
  | tup (t : List Nat)
deriving DecidableEq, Repr

def ChunkSpec.asTuple : ChunkSpec → List Nat
  | .int n => [n]
  | .tup t => t

/-- insertion sort (`sorted(new_axis)`) -/
def insertSorted (a : Nat) : List Nat → List Nat
  | [] => [a]
  | b :: bs => if a ≤ b then a :: b :: bs else b :: insertSorted a bs
def sortNat (l : List Nat) : List Nat := l.foldr insertSorted []

/-- the `for ax in sorted(new_axis)` loop: returns `(out_ind, new_axes)`;
`new_axes[n] = chunks[ax]` when `chunks` is given, else `1` -/
def newAxisLoop (ndrop : Nat) (chunks : Option (List ChunkSpec)) :
    List Nat → List Nat → List (Nat × ChunkSpec) → List Nat × List (Nat × ChunkSpec)
  | [], outInd, newAxes => (outInd, newAxes)
  | ax :: rest, outInd, newAxes =>
    let n := outInd.length + ndrop
    let v : ChunkSpec := match chunks with
      | some cs => cs.getD ax (.int 1)
      | none => .int 1
    newAxisLoop ndrop chunks rest (insertAt outInd ax n) (newAxes ++ [(n, v)])

def listMax : List Nat → Nat
  | [] => 0
  | x :: xs => max x (listMax xs)

/-- the part of `map_blocks` that computes `out_ind` and `new_axes` -/
def outLabels (args : List Layout) (drop : List Nat) (newAxis : Option (List Nat))
    (chunks : Option (List ChunkSpec)) : Except Err (List Nat × List (Nat × ChunkSpec)) :=
  let outInd0 := if args.isEmpty then [] else revRange (maxNdim args)
  let outInd := dropPositions outInd0 drop
  let newAxis : Option (List Nat) :=
    match newAxis, chunks with
    | none, some cs => if outInd.length < cs.length then some (List.range (cs.length - outInd.length)) else none
    | na, _ => na
  match newAxis with
  | none => .ok (outInd, [])
  | some [] => .ok (outInd, [])
  | some na =>
    let r := newAxisLoop drop.length chunks (sortNat na) outInd []
    if listMax na > listMax r.1 then .error .valueError else .ok r

/-- for each label the argument chunking with the most blocks (first such), then the new axes -/
def labelChunks (args : List Layout) (newAxes : List (Nat × ChunkSpec)) (label : Nat) : Option (List Nat) :=
  match newAxes.lookup label with
  | some v => some v.asTuple
  | none =>
    args.foldl (fun best a =>
      match (a.zip (revRange a.length)).find? (fun p => p.2 == label) with
      | some (c, _) =>
        (match best with
         | none => some c
         | some b => if c.length > b.length then some c else some b)
      | none => best) none

/-- `Blockwise.chunks` of the node built by `map_blocks` (`align_arrays=False`, `adjust_chunks`
from `chunks=`): an explicit tuple must have as many blocks as the inputs give that axis. -/
def outChunksLoop (args : List Layout) (newAxes : List (Nat × ChunkSpec)) :
    List Nat → List (Option ChunkSpec) → Except Err Layout
  | [], _ => .ok []
  | ind :: inds, specs =>
    match labelChunks args newAxes ind with
    | none => .error .indexError
    | some base =>
      let adj : Except Err (List Nat) :=
        match specs.head? with
        | some (some (.int n)) => .ok (base.map (fun _ => n))
        | some (some (.tup t)) => if t.length ≠ base.length then .error .valueError else .ok t
        | _ => .ok base
      match adj, outChunksLoop args newAxes inds specs.tail with
      | .ok a, .ok r => .ok (a :: r)
      | .error e, _ => .error e
      | _, .error e => .error e

structure MB where
  outInd : List Nat
  outChunks : Layout
deriving DecidableEq, Repr

/-- `map_blocks(f, *args, drop_axis=…, new_axis=…, chunks=…)`: output labels and chunks -/
def mapBlocks (args : List Layout) (drop : List Nat) (newAxis : Option (List Nat))
    (chunks : Option (List ChunkSpec)) : Except Err MB :=
  match outLabels args drop newAxis chunks with
  | .error e => .error e
  | .ok (outInd, newAxes) =>
    match chunks with
    | some cs =>
      if cs.length ≠ outInd.length then .error .valueError else
      (match outChunksLoop args newAxes outInd (cs.map some) with
       | .ok oc => .ok ⟨outInd, oc⟩
       | .error e => .error e)
    | none =>
      (match outChunksLoop args newAxes outInd [] with
       | .ok oc => .ok ⟨outInd, oc⟩
       | .error e => .error e)

/-! ### per-input payload -/

/-- `starts[i]` / `num_chunks[i]` of one input: with `drop_axis` a dropped axis is treated as a
single chunk `[0, shape[j]]` (its blocks are concatenated before the call) -/
def effectiveLayout (a : Layout) (outInd : List Nat) (hasDrop : Bool) : Layout :=
  if hasDrop then
    (a.zip (revRange a.length)).map (fun p => if outInd.contains p.2 then p.1 else [nsum p.1])
  else a

/-- `arr_k = tuple(location.get(ind, 0) if num_chunks[i][j] > 1 else 0 for j, ind in enumerate(in_ind))` -/
def inputBlockId (eff : Layout) (outInd bid : List Nat) : List Nat :=
  (eff.zip (revRange eff.length)).map (fun p =>
    if p.1.length > 1 then ((outInd.zip bid).lookup p.2).getD 0 else 0)

def inputInfo (a : Layout) (outInd bid : List Nat) (hasDrop : Bool) : Info :=
  let eff := effectiveLayout a outInd hasDrop
  let k := inputBlockId eff outInd bid
  { shape := shape a, numChunks := numChunks eff, arrayLocation := arrayLocation eff k, chunkLocation := k }

def outputInfo (out : Layout) (bid : List Nat) : OutInfo :=
  { shape := shape out, numChunks := numChunks out, arrayLocation := arrayLocation out bid,
    chunkLocation := bid, chunkShape := chunkShape out bid }

/-- the shape of the block handed to the function for one input (dropped axes arrive concatenated) -/
def deliveredShape (a : Layout) (outInd bid : List Nat) (hasDrop : Bool) : List Nat :=
  let eff := effectiveLayout a outInd hasDrop
  chunkShape eff (inputBlockId eff outInd bid)

/-! ### `ChunksFreeze.lower_once` in a small lowering model

`settled` is the layout of the child after simplify + lowering (whatever optimization made of
it); `frozen` the layout advertised when `map_blocks` was called. -/

inductive Lowered
  | child (settled : Layout)                 -- the freeze node vanished
  | rechunk (settled target : Layout)        -- `new_collection(array).rechunk(self._chunks)`
deriving DecidableEq, Repr

/-- chunks of a lowered node; a rechunk has exactly its target chunks (C14) -/
def Lowered.chunks : Lowered → Layout
  | .child s => s
  | .rechunk _ t => t

/-- `rechunk` refuses a target of a different shape -/
def lowerFreeze (settled frozen : Layout) : Except Err Lowered :=
  if settled = frozen then .ok (.child settled)
  else if shape settled ≠ shape frozen then .error .valueError
  else .ok (.rechunk settled frozen)

/-- what the broken variant "return the child unchanged" would deliver (used by examples only) -/
def lowerFreezeNoop (settled _frozen : Layout) : Except Err Lowered := .ok (.child settled)

end Dask.BlockInfo
