/-
L1 model of the code paths that handle UNKNOWN (`nan`) chunk sizes:
  * `slice_slices_and_integers` guard + `SliceSlicesIntegers.chunks`   (slicing/_basic.py)
  * `take` guard                                                          (slicing/_basic.py)
  * `_validate_rechunk`                                                   (_rechunk.py)
  * `coarse_blockdim` / `common_blockdim` with unknown dims            (_expr.py, _core_utils.py)
  * `ChunksOverride` (chunks metadata replaced, 1:1 alias layer)        (_expr.py)
  * `Array.compute_chunk_sizes` on a boolean-mask selection              (_collection.py, slicing/_bool_index.py)
A size is an `Option Nat` (`none` = `nan`).  Every guard is a function into `Except Err …`
mirroring the Python control flow.  Core Lean only.  Tied to the code by harness/props/C28.py.
-/
import DaskArrayModel.Py.Basic
import DaskArrayModel.Model.Slicing
import DaskArrayModel.Model.Unify
namespace Dask.Unknown
open Dask.Py

inductive Err | valueError | assertionError | indexError | stopIteration | fuel
deriving DecidableEq, Repr

/-- decidable equality of results (used by `decide` in examples only) -/
instance instDecEqExcept {ε α} [DecidableEq ε] [DecidableEq α] : DecidableEq (Except ε α)
  | .ok a, .ok b => if h : a = b then isTrue (h ▸ rfl) else isFalse (fun e => by cases e; exact h rfl)
  | .error a, .error b => if h : a = b then isTrue (h ▸ rfl) else isFalse (fun e => by cases e; exact h rfl)
  | .ok _, .error _ => isFalse (fun e => by cases e)
  | .error _, .ok _ => isFalse (fun e => by cases e)

/-- one axis' chunk tuple with possibly unknown entries -/
abbrev Dim? := List (Option Nat)
/-- chunks of an array: one `Dim?` per axis -/
abbrev Layout? := List Dim?

/-! ### vocabulary -/

/-- `np.isnan(sum(d))` : some entry is `nan`. -/
def hasNone (d : Dim?) : Bool := d.any Option.isNone

/-- every entry is a number -/
def isKnown (d : Dim?) : Bool := d.all Option.isSome

/-- `sum(d)` with `nan` propagation (`cached_cumsum(d, initial_zero=True)[-1]`). -/
def osum : Dim? → Option Nat
  | [] => some 0
  | none :: _ => none
  | some x :: xs => (osum xs).map (x + ·)

/-- `x.shape` -/
def shape? (L : Layout?) : List (Option Nat) := L.map osum

def nsum : List Nat → Nat
  | [] => 0
  | x :: xs => x + nsum xs

/-- a fully known layout seen as a `Layout?` -/
def ofKnownDim (d : List Nat) : Dim? := d.map some
def ofKnown (K : List (List Nat)) : Layout? := K.map ofKnownDim

/-- known sizes as the `Int` lists of Model/Slicing.lean and Model/Unify.lean (only called on known dims) -/
def toInts (d : Dim?) : List Int := d.map (fun o => ((o.getD 0 : Nat) : Int))
def ofInts (l : List Int) : Dim? := l.map (fun v => some v.toNat)

/-- `agreesDim k d`: `k` has the same block count as `d` and carries the same number wherever
`d` is known (`k` is a *completion* of `d` when it is also fully known).  `agrees K L`: the same
for whole layouts. -/
def agreesDim : Dim? → Dim? → Bool
  | [], [] => true
  | k :: ks, o :: os => (match o with | none => true | some v => decide (k = some v)) && agreesDim ks os
  | _, _ => false

def agrees : Layout? → Layout? → Bool
  | [], [] => true
  | k :: ks, d :: ds => agreesDim k d && agrees ks ds
  | _, _ => false

def isKnownL (L : Layout?) : Bool := L.all isKnown

/-! ### `slice_slices_and_integers` -/

/-- an entry of a normalized basic index: a slice or an integer -/
inductive Idx
  | slice (s : PySlice)
  | int (i : Int)
deriving DecidableEq, Repr

def Idx.isColon : Idx → Bool
  | .slice s => decide (s = Dask.Slicing.colon)
  | .int _ => false

/-- the guard loop
```
for dim, ind in zip(shape, index):
    if np.isnan(dim) and ind != slice(None, None, None): raise ValueError
```
On an axis of unknown length ONLY the full slice is accepted (an integer is `!= slice(None)` too). -/
def sliceGuard : List (Option Nat) → List Idx → Except Err Unit
  | dim :: dims, ind :: inds =>
    if dim.isNone && !ind.isColon then .error .valueError else sliceGuard dims inds
  | _, _ => .ok ()

/-- `new_blockdim(d, db, i)` as called by `SliceSlicesIntegers.chunks`: the full slice returns
`lengths` untouched (this is the only call made on an unknown axis once the guard passed);
otherwise the known-size model of Model/Slicing.lean. -/
def newBlockdim? (db : Dim?) (s : PySlice) : Dim? :=
  if s = Dask.Slicing.colon then db
  else ofInts (Dask.Slicing.newBlockdim (((osum db).getD 0 : Nat) : Int) (toInts db) s)

/-- `SliceSlicesIntegers.chunks`: integer axes are dropped, the others go through `new_blockdim`. -/
def slicedChunks : Layout? → List Idx → Layout?
  | db :: dbs, ind :: inds =>
    match ind with
    | .int _ => slicedChunks dbs inds
    | .slice s => newBlockdim? db s :: slicedChunks dbs inds
  | _, _ => []

/-- `slice_slices_and_integers(x, index).chunks` -/
def sliceChunks? (L : Layout?) (index : List Idx) : Except Err Layout? :=
  match sliceGuard (shape? L) index with
  | .error e => .error e
  | .ok () => .ok (slicedChunks L index)

/-! ### `take(x, index, axis)` -/

inductive TakeKind | shuffle | oneChunk
deriving DecidableEq, Repr

/-- which branch `take` enters for the axis' chunks: known → shuffle; unknown with a single chunk →
`TakeUnknownOneChunk`; otherwise `ValueError`. -/
def takeGuard (d : Dim?) : Except Err TakeKind :=
  if !hasNone d then .ok .shuffle
  else if d.length = 1 then .ok .oneChunk
  else .error .valueError

/-! ### `_validate_rechunk(old_chunks, new_chunks)` -/

/-- one iteration of the loop:
```
if old_shape != new_shape:
    if not (isnan(old_shape) and isnan(new_shape)) or not np.array_equal(old_dim, new_dim, equal_nan=True):
        raise ValueError
```
(`nan != nan` is true, so an unknown axis always enters the `if`; `array_equal(…, equal_nan=True)`
on two tuples is list equality with `none = none`). -/
def validateAxis (oldDim newDim : Dim?) : Except Err Unit :=
  let oldShape := osum oldDim
  let newShape := osum newDim
  let ne : Bool := match oldShape, newShape with
    | some a, some b => decide (a ≠ b)
    | _, _ => true
  if ne then
    if !(oldShape.isNone && newShape.isNone) || !(decide (oldDim = newDim)) then .error .valueError
    else .ok ()
  else .ok ()

def validateLoop : Layout? → Layout? → Except Err Unit
  | o :: os, n :: ns =>
    match validateAxis o n with
    | .error e => .error e
    | .ok () => validateLoop os ns
  | _, _ => .ok ()

def validateRechunk (old new : Layout?) : Except Err Unit :=
  if old.length ≠ new.length then .error .assertionError else validateLoop old new

/-! ### `coarse_blockdim` / `common_blockdim` with unknown dims -/

def dedupe : List Dim? → List Dim?
  | [] => []
  | x :: xs => if x ∈ xs then dedupe xs else x :: dedupe xs

def anyTruthy (bd : List Dim?) : Bool := bd.any (fun d => !d.isEmpty)

def liftErr : Dask.Unify.Err → Err
  | .valueError => .valueError
  | .stopIteration => .stopIteration
  | .indexError => .indexError
  | .fuel => .fuel

def liftRes : Except Dask.Unify.Err (List Int) → Except Err Dim?
  | .ok r => .ok (ofInts r)
  | .error e => .error (liftErr e)

/-- `coarse_blockdim(blockdims)`.  The unknown branch
```
unknown_dims = [d for d in blockdims if np.isnan(sum(d))]
if unknown_dims:
    if len({len(d) for d in blockdims}) > 1: raise ValueError
    return first(unknown_dims)
```
only compares block COUNTS.  ORDER: `first(unknown_dims)` follows set iteration order; all
unknown dims have the same length there, the model returns the first in list order and the
harness only feeds sets whose unknown members are equal or compares up to that choice. -/
def coarseBlockdim? (bd : List Dim?) : Except Err Dim? :=
  if !anyTruthy bd then .ok [] else
  let unknownDims := bd.filter hasNone
  match unknownDims with
  | u :: _ =>
    if !(bd.all (fun d => decide (d.length = u.length))) then .error .valueError else .ok u
  | [] => liftRes (Dask.Unify.coarseBlockdim (bd.map toInts))

/-- `common_blockdim(blockdims)`:
```
non_trivial_dims = {d for d in blockdims if len(d) > 1}
if len(non_trivial_dims) == 1: return first(non_trivial_dims)
if len(non_trivial_dims) == 0: return max(blockdims, key=first)
if np.isnan(sum(map(sum, blockdims))): raise ValueError
```
The `max(…, key=first)` over single-block dims with a `nan` key depends on set order and is left
to the known-size model (the harness does not feed unknown single-block dims there). -/
def commonBlockdim? (bd : List Dim?) : Except Err Dim? :=
  if !anyTruthy bd then .ok [] else
  let nt := dedupe (bd.filter (fun d => decide (d.length > 1)))
  match nt with
  | [d] => .ok d
  | [] =>
    -- `max(blockdims, key=first)`: a one-element set returns its element (also when it is `(nan,)`)
    (match dedupe bd with
     | [d] => .ok d
     | _ => liftRes (Dask.Unify.commonBlockdim (bd.map toInts)))
  | _ =>
    if bd.any hasNone then .error .valueError
    else liftRes (Dask.Unify.commonBlockdim (bd.map toInts))

/-! ### `ChunksOverride` in a small array model

An array is its advertised chunks plus a function from block ids to blocks (the task graph's
values).  `ChunksOverride._layer` builds, for every id of the grid of the NEW chunks, an alias
`(name, *idx) → (array.name, *idx)`. -/

structure Arr (β : Type) where
  chunks : Layout?
  block : List Nat → Option β

/-- `product(*[range(len(c)) for c in chunks])` -/
def grid : List Nat → List (List Nat)
  | [] => [[]]
  | n :: ns => (List.range n).flatMap (fun i => (grid ns).map (fun rest => i :: rest))

def numblocks (L : Layout?) : List Nat := L.map List.length

/-- the alias layer: list of `(out id, in id)` -/
def overrideLayer (c : Layout?) : List (List Nat × List Nat) := (grid (numblocks c)).map (fun i => (i, i))

/-- `ChunksOverride(e, c)`: advertises `c`; block `idx` of the grid of `c` is block `idx` of `e`. -/
def override {β} (e : Arr β) (c : Layout?) : Arr β :=
  { chunks := c,
    block := fun idx => match (overrideLayer c).lookup idx with
      | some src => e.block src
      | none => none }

/-! ### `compute_chunk_sizes` on a boolean-mask selection (one axis) -/

/-- blocks of an axis: split a list by the chunk sizes -/
def splitBy {α} : List Nat → List α → List (List α)
  | [], _ => []
  | c :: cs, l => l.take c :: splitBy cs (l.drop c)

/-- one block of `x[mask]` (`getitem(x_block, mask_block)`): keep the entries whose mask bit is set -/
def maskBlock {α} (xb : List α) (mb : List Bool) : List α :=
  ((xb.zip mb).filter (·.2)).map (·.1)

/-- the blocks of `x[mask]` for 1-d `x` and `mask` chunked alike -/
def maskSelect {α} (cs : List Nat) (x : List α) (m : List Bool) : List (List α) :=
  List.zipWith maskBlock (splitBy cs x) (splitBy cs m)

/-- `_get_chunk_shape` of every block, gathered: the true block lengths -/
def trueSizes {α} (blocks : List (List α)) : List Nat := blocks.map List.length

/-- `compute_chunk_sizes`: `ChunksOverride(self._expr, true sizes)` (1-d) -/
def computeChunkSizes1 {α} (blocks : List (List α)) : Dim? := ofKnownDim (trueSizes blocks)

/-- positions (global, along the axis) selected by a mask: `np.nonzero(mask)[0]` -/
def nonzeroFrom : Nat → List Bool → List Nat
  | _, [] => []
  | i, b :: bs => if b then i :: nonzeroFrom (i + 1) bs else nonzeroFrom (i + 1) bs

def nonzero (m : List Bool) : List Nat := nonzeroFrom 0 m

/-- per-block selected positions of a 1-d mask applied to an axis chunked `cs` (what
`x[:, mask]` reads from each block column), shifted to global coordinates -/
def maskPositionsFrom : Nat → List Nat → List Bool → List (List Nat)
  | _, [], _ => []
  | off, c :: cs, m => nonzeroFrom off (m.take c) :: maskPositionsFrom (off + c) cs (m.drop c)

def maskPositions (cs : List Nat) (m : List Bool) : List (List Nat) := maskPositionsFrom 0 cs m

end Dask.Unknown
