/-
Model of the tree reduction in dask_array/reductions/_reduction.py (core Lean only).

Python                                             Lean
-------------------------------------------------  ------------------------------------------
`partition_all(k, blocks)`                         `Dask.Py.partitionAll k blocks`
one `PartialReduce` layer on one reduced axis      `partialReduce k f blocks`
`_build_tree_reduce_expr` (depth-1 combine layers  `treeReduce k depth combine aggregate blocks`
   then one aggregate layer)                          (returns the LIST of output blocks)
`math.ceil(math.log(n, k))` maxed with 1           `depthOf n k` (exact integer version; the float
                                                      value is an ORACLE: theorems only need
                                                      `n ≤ k ^ depth`)
`_normalize_split_every` (dict / int)              `normalizeSplitEveryDict` / `normalizeSplitEveryInt`
   `int(split_every ** (1/len(axis)))`                (the float root is an oracle parameter `root`)
`PartialReduce.chunks`                             `partialReduceChunks`
`PartialReduce._layer` key wiring                  `partialReduceKeys`
`_accept_slice_impl` index bookkeeping             `acceptSlice`

Per-axis `split_every` is a `List Nat` indexed by axis; `0` = "axis not in the dict"
(not reduced) — the same convention as `PartialReduce._frisky_layer`.
-/
import DaskArrayModel.Py.Basic
namespace Dask.Reduce
open Dask.Py

/-! ### fold vocabulary (spec side) -/

/-- fold of a non-empty list with a binary `op` (`d` is returned for the empty list only). -/
def fold1 {β} (op : β → β → β) (d : β) : List β → β
  | [] => d
  | [x] => x
  | x :: y :: r => op x (fold1 op d (y :: r))

/-- argmin on `(index, value)` pairs: keep the left operand on ties (first index wins). -/
def argminOp (a b : Nat × Int) : Nat × Int := if b.2 < a.2 then b else a

/-- argmax on `(index, value)` pairs: keep the left operand on ties. -/
def argmaxOp (a b : Nat × Int) : Nat × Int := if a.2 < b.2 then b else a

/-- mean partials `(n, total)`: componentwise addition. -/
def meanOp (a b : Nat × Int) : Nat × Int := (a.1 + b.1, a.2 + b.2)

/-- `mean_chunk`: `(numel, sum)`. -/
def meanChunk (xs : List Int) : Nat × Int := (xs.length, xs.foldl (· + ·) 0)

/-- `mean_agg`'s final division, exact. -/
def meanFin (p : Nat × Int) : Rat := (p.2 : Rat) / (p.1 : Rat)

/-! ### per-axis model -/

/-- One `PartialReduce` layer along one reduced axis: group the blocks with
`partition_all(k, ·)` and apply `f` to every group. -/
def partialReduce {α β} (k : Nat) (f : List α → β) (blocks : List α) : List β :=
  (partitionAll k blocks).map f

/-- `rounds` intermediate layers (`for _ in range(depth - 1)`), all with `combine`. -/
def combineRounds {β} (k : Nat) (combine : List β → β) : Nat → List β → List β
  | 0, bs => bs
  | r + 1, bs => combineRounds k combine r (partialReduce k combine bs)

/-- `_build_tree_reduce_expr` on one axis: `depth - 1` layers with `combine`, then one layer
with `aggregate`.  The result is the list of output blocks (one block iff the depth suffices). -/
def treeReduce {β γ} (k depth : Nat) (combine : List β → β) (aggregate : List β → γ)
    (blocks : List β) : List γ :=
  partialReduce k aggregate (combineRounds k combine (depth - 1) blocks)

/-- number of blocks along a reduced axis after one layer: `len(partition_all(k, range(n)))`. -/
def numBlocksAfter (k n : Nat) : Nat := (partitionAll k (List.range n)).length

/-- search loop for `depthOf`: first `d' ≥ d` with `n ≤ k ^ d'` (fuel bounded). -/
def depthGo (n k : Nat) : Nat → Nat → Nat
  | 0, d => d
  | fuel + 1, d => if n ≤ k ^ d then d else depthGo n k fuel (d + 1)

/-- least `d ≥ 1` with `n ≤ k ^ d`: the exact value of `max(1, ceil(log(n, k)))` for `k ≥ 2`. -/
def depthOf (n k : Nat) : Nat := depthGo n k n 1

/-- the `depth` loop of `_build_tree_reduce_expr`:
`for i, n in enumerate(numblocks): if i in split_every and split_every[i] != 1: depth = max(depth, …)`. -/
def treeDepth : List Nat → List Nat → Nat
  | n :: ns, s :: ss =>
    let rest := treeDepth ns ss
    if s = 0 ∨ s = 1 then rest else max (depthOf n s) rest
  | _, _ => 1

/-- dict case of `_normalize_split_every`: `{k: max(split_every.get(k, 2), 2) for k in axis}`
(the floor at 2 was added by /repo commit 5a7f27d; a fan-in of 1 never reduces, see
`C18_fanin_one_never_reduces`). -/
def normalizeSplitEveryDict (given : List (Nat × Nat)) (axis : List Nat) : List (Nat × Nat) :=
  axis.map (fun a => (a, max (((given.find? (fun p => p.1 == a)).map (·.2)).getD 2) 2))

/-- int case: `n = max(int(split_every ** (1/len(axis))), 2)`; `root` is the oracle value of the
float expression. -/
def normalizeSplitEveryInt (root : Nat) (axis : List Nat) : List (Nat × Nat) :=
  axis.map (fun a => (a, max root 2))

/-- exact integer `m`-th root (floor) by linear search from below; reference for the oracle
relation checked by the harness (`|root - iroot| ≤ 1`). -/
def irootGo (s m : Nat) : Nat → Nat → Nat
  | 0, r => r
  | fuel + 1, r => if (r + 1) ^ m ≤ s then irootGo s m fuel (r + 1) else r

def iroot (s m : Nat) : Nat := if m = 0 then s else irootGo s m s 0

/-- `PartialReduce.chunks`: reduced axes become all-ones (one per group), other axes unchanged;
without `keepdims` the reduced axes are dropped. -/
def partialReduceChunks (chunks : List (List Nat)) (split : List Nat) (keepdims : Bool) :
    List (List Nat) :=
  let full := List.zipWith (fun c s => if s = 0 then c else (partitionAll s c).map (fun _ => 1)) chunks split
  if keepdims then full
  else ((full.zip split).filter (fun p => p.2 == 0)).map (·.1)

/-! ### n-D key wiring (`PartialReduce._layer`) -/

/-- `itertools.product(*ls)` (C order). -/
def cart {α} : List (List α) → List (List α)
  | [] => [[]]
  | xs :: rest => xs.flatMap (fun x => (cart rest).map (x :: ·))

/-- `parts = [list(partition_all(split_every.get(i, 1), range(n))) for i, n in enumerate(numblocks)]`. -/
def layerParts (numblocks split : List Nat) : List (List (List Nat)) :=
  List.zipWith (fun n s => partitionAll (if s = 0 then 1 else s) (List.range n)) numblocks split

/-- drop the positions of reduced axes (`get(out_axis, k)`). -/
def dropReduced {α} (split : List Nat) (k : List α) : List α :=
  ((k.zip split).filter (fun p => p.2 == 0)).map (·.1)

/-- For every output key (in emission order) the flattened `lol_tuples` nesting: the input block
indices in nesting order, together with the nesting dimensions (sizes of the dummy axes). -/
def partialReduceKeys (numblocks split : List Nat) (keepdims : Bool) :
    List (List Nat × List Nat × List (List Nat)) :=
  let parts := layerParts numblocks split
  let outFull := cart (parts.map (fun p => List.range p.length))
  let outKeys := if keepdims then outFull else outFull.map (dropReduced split)
  let groups := cart parts
  outKeys.zip (groups.map (fun g => (dropReduced (split.map (fun s => if s = 0 then 1 else 0)) (g.map List.length), cart g)))

/-- numblocks after one layer with `keepdims=True`. -/
def numBlocksAfterND (numblocks split : List Nat) : List Nat :=
  (layerParts numblocks split).map List.length

/-- Python dict semantics for a list of `(key, value)` insertions: the last one wins. -/
def dictOfList {α} (kvs : List (List Nat × α)) : List (List Nat × α) :=
  kvs.foldl (fun acc kv => (acc.filter (fun p => p.1 != kv.1)) ++ [kv]) []

/-- a block grid: association list from block index to block value. -/
abbrev Grid (α : Type) := List (List Nat × α)

/-- one n-D `PartialReduce` layer evaluated on a grid. -/
def gridPartialReduce {α β} (f : List α → β) (numblocks split : List Nat) (keepdims : Bool)
    (g : Grid α) : Grid β :=
  dictOfList ((partialReduceKeys numblocks split keepdims).map (fun e =>
    (e.1, f (e.2.2.filterMap (fun k => (g.find? (fun p => p.1 == k)).map (·.2))))))

/-- `depth - 1` `keepdims=True` layers with `combine`, then the final layer. Returns the final
numblocks (before dropping axes) and grid. -/
def gridTreeReduce {α β} (combine : List α → α) (aggregate : List α → β) (split : List Nat)
    (keepdims : Bool) : Nat → List Nat → Grid α → List Nat × Grid β
  | 0, nb, g => (numBlocksAfterND nb split, gridPartialReduce aggregate nb split keepdims g)
  | r + 1, nb, g =>
    gridTreeReduce combine aggregate split keepdims r (numBlocksAfterND nb split)
      (gridPartialReduce combine nb split true g)

/-! ### `_accept_slice_impl` index bookkeeping -/

/-- an element of a (normalised, `None`-free) basic index. -/
inductive Idx where
  | int (i : Int)
  | slice (s : PySlice)
deriving DecidableEq, Repr, Inhabited

def fullSlice : Idx := .slice ⟨none, none, none⟩

/-- `slice(idx, idx + 1) if isinstance(idx, Integral) else idx`. -/
def toSliceIdx : Idx → Idx
  | .int i => .slice ⟨some i, some (i + 1), none⟩
  | s => s

/-- `0 if isinstance(idx, Integral) else slice(None)`. -/
def extractIdx : Idx → Idx
  | .int _ => .int 0
  | _ => fullSlice

/-- the `else` loop building `input_index` without keepdims: walk the input axes, reduced axes get
`slice(None)`, the others consume `slice_index[out_pos]`. -/
def inputIndexLoop (reduced : List Nat) : List Nat → List Idx → List Idx
  | [], _ => []
  | ax :: axes, sl =>
    if reduced.contains ax then fullSlice :: inputIndexLoop reduced axes sl
    else match sl with
      | [] => []          -- IndexError in Python; unreachable (full_index is padded)
      | i :: rest => i :: inputIndexLoop reduced axes rest

structure AcceptPlan where
  fullIndex : List Idx
  inputIndex : List Idx
  finalIndex : List Idx
deriving DecidableEq, Repr

/-- index bookkeeping of `_accept_slice_impl` (the `None` check is done by the caller of the
model: the code declines such indices). -/
def acceptSlice (index : List Idx) (inputNdim : Nat) (reduced : List Nat) (keepdims : Bool) :
    AcceptPlan :=
  let axes := List.range inputNdim
  let outNdim := if keepdims then inputNdim else (axes.filter (fun a => !reduced.contains a)).length
  let fullIndex := index ++ List.replicate (outNdim - index.length) fullSlice
  let sliceIndex := fullIndex.map toSliceIdx
  let inputIndex :=
    if keepdims then
      List.zipWith (fun ax idx => if reduced.contains ax then fullSlice else idx) (List.range sliceIndex.length) sliceIndex
    else inputIndexLoop reduced axes sliceIndex
  let finalIndex :=
    if keepdims then
      List.zipWith (fun ax idx => if reduced.contains ax then idx else extractIdx idx) (List.range fullIndex.length) fullIndex
    else fullIndex.map extractIdx
  ⟨fullIndex, inputIndex, finalIndex⟩

/-- `all(idx == slice(None) for idx in input_index)` → the code returns `None` (declines). -/
def acceptDeclines (p : AcceptPlan) : Bool := p.inputIndex.all (· == fullSlice)

end Dask.Reduce
