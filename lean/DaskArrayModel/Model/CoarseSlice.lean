/-
Coarse slice pushdown through a `Blockwise` with `adjust_chunks`
(dask_array/_blockwise.py: `Blockwise._accept_slice_coarse`, its local `find_block_range`, and the part of
`Blockwise.chunks` it relies on).  Core Lean only.

Python                                                        Lean
------------------------------------------------------------  ---------------------------------------------
one entry of `full_index` (slice / integer)                    `Idx`  (`slice(None)` is `.slc colon`)
`np.array(list(cached_cumsum(chunks, initial_zero=True)))`     `cum0`
`find_block_range(cumsum, start, stop)`                        `findBlockRange`  (`np.searchsorted(a, v, side="right")`
                                                                 on a sorted array is `bisect_right`; `(None, None)` = `none`;
                                                                 `last` may be `first - 1` — the *empty* answer)
the body of `for axis, idx in enumerate(full_index)`           `acceptAxis`   (`none` = `return None`)
`block_ranges[axis]`, `output_adjustments[axis]`               `AxisPlan.br`, `AxisPlan.adj`
one `(arg, ind)` pair of `self.args`                           `Opd` (`ind = none`: literal; `isArr = hasattr(arg,"_meta")`)
`label_chunks` and its `setdefault(...) != ...` gate           `LabelChunks`, `opAxisSliceS` / `opAxesSlicesS` / `opSliceS` /
                                                                 `opsSlicesS` (the operand loop with the running dict)
the `for dim_idx, in_ind in enumerate(arg_ind)` body           `opAxisSlice`  (`none` = decline: broadcast axis or a zero-width
                                                                 operand chunk; `some none` = `slice(None)`)
`new_adjust_chunks[ind] = val[first : last + 1]`               `sliceAdjust`
`Blockwise(...)` + `SliceSlicesIntegers(result, adj_index)`    `Result` (`plans`, `opSlices`, `adjust`), `rewritten`
`new_collection(arg)[tuple(arg_slices)].chunks`                `opChunksAfter` (`normalize_slice` + `new_blockdim`,
                                                                 Model/Slicing.lean)
`Blockwise.chunks` (`align_arrays=False` loop "most blocks     `nodeChunks`  (`none` = the ValueError
   wins", `new_axes`, `adjust_chunks` callable/int/tuple)         "adjust_chunks specified with N blocks")

SEMANTICS.  dask never looks inside `func`.  All the coarse rule may assume is that the node is *block-to-block*:
the task of output block `bid` applies `F` to the blocks `bid` of the operands (all blocks along contracted labels)
and produces the block of the advertised extent.  `bwDen` is that meaning written position-wise: the element at
global position `p` is element `p - start(k)` of `F(blocks k)` where `k` is the block of the advertised chunks
containing `p` (`Slicing.slice1dInt`, the model of `_slice_1d` for an integer).  An operand is an arbitrary function
of global positions together with its chunks; slicing it shifts positions and changes the chunks as
`new_blockdim` says.  An integer-indexed axis keeps its (ignored) coordinate, so that every n-d object is a
`zipWith` over axes — NumPy drops the axis, which is a reshape of the same data.
-/
import DaskArrayModel.Model.SliceSpec
namespace Dask.Coarse
open Dask.Py Dask.Py.PySlice Dask.Slicing

/-! ### the index and the per-axis rule -/

/-- one entry of `full_index` -/
inductive Idx
  | int (i : Int)
  | slc (s : PySlice)
deriving DecidableEq, Repr, Inhabited

/-- one entry of `output_adjustments` -/
inductive Adj
  | colon
  | int (k : Int)
  | rng (a b : Int)
deriving DecidableEq, Repr, Inhabited

/-- `cached_cumsum(chunks, initial_zero=True)` -/
def cum0 (chunks : List Int) : List Int := 0 :: cumsum chunks

/-- `find_block_range(cumsum, start, stop)`; `none` = `(None, None)`. -/
def findBlockRange (cum : List Int) (start stop : Int) : Option (Nat × Int) :=
  let first := bisectRight cum.tail start
  let last : Int := if stop > start then (bisectRight cum.tail (stop - 1) : Int) else (first : Int) - 1
  if first ≥ cum.length - 1 then none else some (first, last)

structure AxisPlan where
  /-- `block_ranges[axis]`: `none` = all blocks -/
  br : Option (Nat × Nat)
  /-- `output_adjustments[axis]` -/
  adj : Adj
deriving DecidableEq, Repr, Inhabited

/-- the body of the loop over `full_index` for one axis with output chunks `chunks`; `none` = `return None`.
(`step = 0` makes `slice.indices` raise in Python; normalised indices never carry it, the model declines.) -/
def acceptAxis (chunks : List Int) (idx : Idx) : Option AxisPlan :=
  let dim := isum chunks
  let cum := cum0 chunks
  match idx with
  | .int i =>
    let pos := if i ≥ 0 then i else i + dim
    match findBlockRange cum pos (pos + 1) with
    | none => none
    | some (first, last) => some ⟨some (first, last.toNat), .int (pos - cum.getD first 0)⟩
  | .slc s =>
    if s = colon then some ⟨none, .colon⟩
    else
      let start := s.istart dim
      let stop := s.istop dim
      if s.stp ≠ 1 then none
      else
        match findBlockRange cum start stop with
        | none => none
        | some (first, last) =>
          if last < first then none
          else
            let coarseStart := cum.getD first 0
            let coarseEnd := cum.getD (last.toNat + 1) 0
            let a := start - coarseStart
            let b := stop - coarseStart
            some ⟨some (first, last.toNat),
                  if a = 0 ∧ b = coarseEnd - coarseStart then .colon else .rng a b⟩

/-- the loop over `full_index` (declines at the first declining axis) -/
def axisPlans : List (List Int) → List Idx → Option (List AxisPlan)
  | c :: cs, i :: is =>
    match acceptAxis c i with
    | none => none
    | some p => (axisPlans cs is).map (p :: ·)
  | _, _ => some []

/-- `[f(x) for x in xs]` where `f` may bail out (`none`) -/
def mapOpt {α β : Type} (f : α → Option β) : List α → Option (List β)
  | [] => some []
  | x :: xs =>
    match f x with
    | none => none
    | some y => (mapOpt f xs).map (y :: ·)

/-! ### the node -/

/-- a value of `adjust_chunks` -/
inductive AdjKind
  | const (c : Int)
  | tuple (t : List Int)
  | fn (g : Int → Int)

structure Opd where
  /-- `hasattr(arg, "_meta")` -/
  isArr : Bool := true
  /-- index labels (`none`: literal argument) -/
  ind : Option (List Nat)
  /-- `arg.chunks` -/
  chunks : List (List Int)

structure Node where
  outInd : List Nat
  ops : List Opd
  adjust : List (Nat × AdjKind) := []
  newAxes : List (Nat × List Int) := []

/-- `(label, chunks)` of every operand axis in the order the `chunkss` loop visits them -/
def chunkPairs (ops : List Opd) : List (Nat × List Int) :=
  ops.flatMap (fun o => match o.ind with | none => [] | some ind => ind.zip o.chunks)

/-- `if i not in chunkss or len(c) > len(chunkss[i]): chunkss[i] = c` -/
def mostBlocks (best : Option (List Int)) (c : List Int) : Option (List Int) :=
  match best with
  | none => some c
  | some b => if c.length > b.length then some c else some b

/-- `chunkss[l]` of the `align_arrays=False` loop, then `new_axes` -/
def chunkss (n : Node) (l : Nat) : Option (List Int) :=
  match n.newAxes.lookup l with
  | some v => some v
  | none => ((chunkPairs n.ops).filter (fun q => q.1 == l)).foldl (fun best q => mostBlocks best q.2) none

/-- one step of the `adjust_chunks` loop of `Blockwise.chunks`; `none` = ValueError -/
def applyAdjust (a : Option AdjKind) (base : List Int) : Option (List Int) :=
  match a with
  | none => some base
  | some (.fn g) => some (base.map g)
  | some (.const c) => some (base.map (fun _ => c))
  | some (.tuple t) => if t.length ≠ base.length then none else some t

/-- `Blockwise.chunks` (`none`: KeyError / ValueError) -/
def nodeChunks (n : Node) : Option (List (List Int)) :=
  mapOpt (fun l => (chunkss n l).bind (applyAdjust (n.adjust.lookup l))) n.outInd

/-! ### `_accept_slice_coarse` -/

/-- `index + (slice(None),) * (len(out_ind) - len(index))` -/
def fullIndex (idx : List Idx) (n : Nat) : List Idx := idx ++ List.replicate (n - idx.length) (.slc colon)

/-- one operand axis carrying label `lab` with chunks `ic`: `none` = decline (broadcast axis: other block count than the
output; or `0 in arg.chunks[dim_idx]`: slicing to whole blocks would not keep exactly those blocks),
`some none` = `slice(None)`, `some (some (a, b))` = `slice(a, b)` -/
def opAxisSlice (outInd : List Nat) (plans : List AxisPlan) (numblocks : List Nat) (lab : Nat) (ic : List Int) :
    Option (Option (Int × Int)) :=
  if outInd.contains lab then
    let pos := outInd.idxOf lab
    match (plans.getD pos ⟨none, .colon⟩).br with
    | none => some none
    | some (first, last) =>
      if ic.length ≠ numblocks.getD pos 0 then none
      else if ic.contains 0 then none
      else some (some ((cum0 ic).getD first 0, (cum0 ic).getD (last + 1) 0))
  else some none

/-- the loop over `arg_ind` (declines when any axis declines) -/
def opAxesSlices (outInd : List Nat) (plans : List AxisPlan) (numblocks : List Nat) :
    List Nat → List (List Int) → Option (List (Option (Int × Int)))
  | l :: ls, ic :: ics =>
    match opAxisSlice outInd plans numblocks l ic with
    | none => none
    | some s => (opAxesSlices outInd plans numblocks ls ics).map (s :: ·)
  | _, _ => some []

/-- one `(arg, arg_ind)` pair: `none` = decline, `some none` = the literal kept as it is -/
def opSlice (outInd : List Nat) (plans : List AxisPlan) (numblocks : List Nat) (o : Opd) :
    Option (Option (List (Option (Int × Int)))) :=
  match o.ind with
  | none => some none
  | some ind => if !o.isArr then none else (opAxesSlices outInd plans numblocks ind o.chunks).map some

/-- `val[first : last + 1]` for tuple / list values, anything else unchanged -/
def sliceAdjKind (first last : Nat) : AdjKind → AdjKind
  | .tuple t => .tuple ((t.drop first).take (last + 1 - first))
  | k => k

/-- the loop `for axis, br in enumerate(block_ranges)` over `new_adjust_chunks` -/
def sliceAdjust : List Nat → List AxisPlan → List (Nat × AdjKind) → List (Nat × AdjKind)
  | l :: ls, p :: ps, adj =>
    match p.br with
    | none => sliceAdjust ls ps adj
    | some (first, last) =>
      sliceAdjust ls ps (adj.map (fun e => if e.1 == l then (e.1, sliceAdjKind first last e.2) else e))
  | _, _, adj => adj

structure Result where
  /-- per output axis: kept block range and the adjustment left on top -/
  plans : List AxisPlan
  /-- per `(arg, ind)` pair: `none` = literal, else per operand axis `none` = `slice(None)` / `some (a, b)` -/
  opSlices : List (Option (List (Option (Int × Int))))
  /-- `new_adjust_chunks` -/
  adjust : List (Nat × AdjKind)

/-- the operand loop WITHOUT the cross-operand gate (the rule as it was before commit c36af38): every `(arg, ind)` pair
on its own.  Kept because the rule fires only where this one does, with the same result (`acceptCoarse_le`), and for the
witness of what the gate excludes. -/
def acceptCoarse0 (n : Node) (oc : List (List Int)) (idx : List Idx) : Option Result :=
  match axisPlans oc (fullIndex idx n.outInd.length) with
  | none => none
  | some plans =>
    match mapOpt (opSlice n.outInd plans (oc.map List.length)) n.ops with
    | none => none
    | some sl => some ⟨plans, sl, sliceAdjust n.outInd plans n.adjust⟩

/-- `label_chunks`: index label ↦ chunks of the first sliced operand axis seen for it (most recent entry first) -/
abbrev LabelChunks := List (Nat × List Int)

/-- the body of `for dim_idx, in_ind in enumerate(arg_ind)` with the running `label_chunks`: the gates of `opAxisSlice`
(`br is None` → `slice(None)`; block count; `0 in arg.chunks[dim_idx]`), THEN
`label_chunks.setdefault(in_ind, arg.chunks[dim_idx]) != arg.chunks[dim_idx]` → `return None`.  An axis whose label has
no block range (or is contracted) does not register. -/
def opAxisSliceS (outInd : List Nat) (plans : List AxisPlan) (numblocks : List Nat) (lc : LabelChunks) (lab : Nat)
    (ic : List Int) : Option (Option (Int × Int) × LabelChunks) :=
  match opAxisSlice outInd plans numblocks lab ic with
  | none => none
  | some none => some (none, lc)
  | some (some ab) =>
    match lc.lookup lab with
    | some ref => if ref ≠ ic then none else some (some ab, lc)
    | none => some (some ab, (lab, ic) :: lc)

/-- the loop over `arg_ind`, threading `label_chunks` -/
def opAxesSlicesS (outInd : List Nat) (plans : List AxisPlan) (numblocks : List Nat) :
    LabelChunks → List Nat → List (List Int) → Option (List (Option (Int × Int)) × LabelChunks)
  | lc, l :: ls, ic :: ics =>
    match opAxisSliceS outInd plans numblocks lc l ic with
    | none => none
    | some (s, lc1) =>
      match opAxesSlicesS outInd plans numblocks lc1 ls ics with
      | none => none
      | some (ss, lc2) => some (s :: ss, lc2)
  | lc, _, _ => some ([], lc)

/-- one `(arg, arg_ind)` pair, threading `label_chunks` -/
def opSliceS (outInd : List Nat) (plans : List AxisPlan) (numblocks : List Nat) (lc : LabelChunks) (o : Opd) :
    Option (Option (List (Option (Int × Int))) × LabelChunks) :=
  match o.ind with
  | none => some (none, lc)
  | some ind =>
    if !o.isArr then none
    else
      match opAxesSlicesS outInd plans numblocks lc ind o.chunks with
      | none => none
      | some (sl, lc1) => some (some sl, lc1)

/-- `for i in range(0, len(args), 2)` with `label_chunks = {}` before it -/
def opsSlicesS (outInd : List Nat) (plans : List AxisPlan) (numblocks : List Nat) :
    LabelChunks → List Opd → Option (List (Option (List (Option (Int × Int)))) × LabelChunks)
  | lc, [] => some ([], lc)
  | lc, o :: os =>
    match opSliceS outInd plans numblocks lc o with
    | none => none
    | some (s, lc1) =>
      match opsSlicesS outInd plans numblocks lc1 os with
      | none => none
      | some (ss, lc2) => some (s :: ss, lc2)

/-- `Blockwise._accept_slice_coarse(slice_expr, full_index, adjust_chunks)` on a node whose `.chunks` are `oc`;
`none` = `return None`. -/
def acceptCoarse (n : Node) (oc : List (List Int)) (idx : List Idx) : Option Result :=
  match axisPlans oc (fullIndex idx n.outInd.length) with
  | none => none
  | some plans =>
    match opsSlicesS n.outInd plans (oc.map List.length) [] n.ops with
    | none => none
    | some (sl, _) => some ⟨plans, sl, sliceAdjust n.outInd plans n.adjust⟩

/-- `needs_output_slice` -/
def needsOutputSlice (r : Result) : Bool := r.plans.any (fun p => p.adj != .colon)

/-! ### the rewritten node -/

/-- `new_collection(arg)[..., slice(a, b), ...].chunks[axis]`: `normalize_index` then `new_blockdim` -/
def opChunksAfter (ic : List Int) (sl : Option (Int × Int)) : List Int :=
  match sl with
  | none => ic
  | some (a, b) => newBlockdim (isum ic) ic (normalizeSlice ⟨some a, some b, none⟩ (isum ic))

def sliceOpd (o : Opd) (sl : Option (List (Option (Int × Int)))) : Opd :=
  match sl with
  | none => o
  | some s => { o with chunks := List.zipWith opChunksAfter o.chunks s }

/-- the new `Blockwise` (below the top adjustment) -/
def rewritten (n : Node) (r : Result) : Node :=
  { n with ops := List.zipWith sliceOpd n.ops r.opSlices, adjust := r.adjust }

/-- the blocks `first..last` of a chunk tuple -/
def keptChunks (cs : List Int) (first last : Nat) : List Int := (cs.drop first).take (last + 1 - first)

/-- the chunks the kept output blocks have -/
def keptOut (oc : List (List Int)) (plans : List AxisPlan) : List (List Int) :=
  List.zipWith (fun c (p : AxisPlan) => match p.br with | none => c | some (f, l) => keptChunks c f l) oc plans

/-- the adjustment as the index of the `SliceSlicesIntegers` put on top -/
def Adj.toIdx : Adj → Idx
  | .colon => .slc Slicing.colon
  | .int k => .int k
  | .rng a b => .slc ⟨some a, some b, none⟩

/-- chunks of `SliceSlicesIntegers(x, index)` along one axis of `x` with chunks `cs` (`none`: the axis is dropped) -/
def indexedChunks1 (cs : List Int) : Idx → Option (List Int)
  | .int _ => none
  | .slc s => some (newBlockdim (isum cs) cs (normalizeSlice s (isum cs)))

def indexedChunks (cs : List (List Int)) (idx : List Idx) : List (List Int) :=
  (List.zipWith indexedChunks1 cs idx).filterMap id

/-! ### meaning -/

/-- a block as a task sees it: its shape and its elements by local index -/
structure Blk (α : Type) where
  shape : List Int
  data : List Int → α

/-- an operand: its elements by global position, its chunks, its labels -/
structure Operand (α : Type) where
  x : List Int → α
  chunks : List (List Int)
  ind : Option (List Nat)

/-- the block of `o` at block coordinates `coords` -/
def blockAt {α} (o : Operand α) (coords : List Nat) : Blk α :=
  ⟨List.zipWith (fun cs k => cs.getD k 0) o.chunks coords,
   fun loc => o.x (List.zipWith (· + ·) (List.zipWith blockStart o.chunks coords) loc)⟩

/-- `_idx_to_block`: block coordinates of an operand for the task of output block `bid`; along a label that
is not in `out_ind` the task sees every block (`cc` ranges over them) -/
def opCoords (outInd : List Nat) (bid : List Nat) : List Nat → List Nat → List Nat
  | [], _ => []
  | l :: ls, cc =>
    (if outInd.contains l then bid.getD (outInd.idxOf l) 0 else cc.headD 0) :: opCoords outInd bid ls cc.tail

/-- what the task of output block `bid` receives for operand `o` -/
def opView {α} (outInd : List Nat) (o : Operand α) (bid : List Nat) : List Nat → Blk α :=
  match o.ind with
  | none => fun _ => ⟨[], fun _ => o.x []⟩
  | some ind => fun cc => blockAt o (opCoords outInd bid ind cc)

/-- block number and offset inside the block, per axis (`_slice_1d` for an integer) -/
def locate (oc : List (List Int)) (p : List Int) : List (Nat × Int) := List.zipWith slice1dInt oc p

/-- the array a block-to-block node denotes, position-wise -/
def bwDen {α β} (F : List (List Nat → Blk α) → List Int → β) (outInd : List Nat) (ops : List (Operand α))
    (oc : List (List Int)) (p : List Int) : β :=
  F (ops.map (fun o => opView outInd o ((locate oc p).map (·.1)))) ((locate oc p).map (·.2))

/-- NumPy: source position of result coordinate `q` along one axis of length `dim` -/
def srcPos1 (dim : Int) : Idx → Nat → Int
  | .int i, _ => if i ≥ 0 then i else i + dim
  | .slc s, q => (sel s dim).getD q 0

def srcPos (dims : List Int) (idx : List Idx) (q : List Nat) : List Int :=
  List.zipWith (fun (di : Int × Idx) q => srcPos1 di.1 di.2 q) (dims.zip idx) q

/-- `x[index]` position-wise -/
def indexDen {β} (d : List Int → β) (dims : List Int) (idx : List Idx) (q : List Nat) : β := d (srcPos dims idx q)

/-- `arg[..., a:b, ...]` position-wise (whole-block slices: unit step, `0 ≤ a`) -/
def sliceOperand {α} (o : Operand α) (sl : Option (List (Option (Int × Int)))) : Operand α :=
  match sl with
  | none => o
  | some s =>
    { x := fun p => o.x (List.zipWith (fun (t : Option (Int × Int)) v => v + (t.map (·.1)).getD 0) s p)
      chunks := List.zipWith opChunksAfter o.chunks s
      ind := o.ind }

/-- the meaning of the rewritten expression: the new `Blockwise` over the sliced operands, advertising the chunks
`oc'`, under the top adjustment -/
def rewrittenDen {α β} (F : List (List Nat → Blk α) → List Int → β) (outInd : List Nat) (ops : List (Operand α))
    (oc' : List (List Int)) (r : Result) (q : List Nat) : β :=
  indexDen (bwDen F outInd (List.zipWith sliceOperand ops r.opSlices) oc') (oc'.map isum) (r.plans.map (·.adj.toIdx)) q

/-! ### well-formedness vocabulary (decidable) -/

/-- index entry acceptable to NumPy on an axis of length `dim` -/
def idxOK (dim : Int) : Idx → Bool
  | .int i => decide (-dim ≤ i ∧ i < dim)
  | .slc s => decide (s.stp ≠ 0)

/-- result coordinate inside the selection -/
def inSel (dim : Int) : Idx → Nat → Bool
  | .int _, _ => true
  | .slc s, q => decide (q < (sel s dim).length)

/-- slicing this operand axis to the whole blocks `first..last` keeps exactly those blocks -/
def sliceKeeps (ic : List Int) (first last : Nat) : Bool :=
  decide (opChunksAfter ic (some ((cum0 ic).getD first 0, (cum0 ic).getD (last + 1) 0)) = keptChunks ic first last)

/-- every entry of the index is acceptable on its axis -/
def idxsOK (oc : List (List Int)) (idx : List Idx) : Bool := (oc.zip idx).all (fun p => idxOK (isum p.1) p.2)

/-- the result coordinates lie inside the selection -/
def inSels (oc : List (List Int)) (idx : List Idx) (q : List Nat) : Bool :=
  ((oc.zip idx).zip q).all (fun p => inSel (isum p.1.1) p.1.2 p.2)

/-- `sliceKeeps` for one operand axis carrying label `lab` -/
def keepsAxis (outInd : List Nat) (plans : List AxisPlan) (lab : Nat) (ic : List Int) : Bool :=
  if outInd.contains lab then
    match (plans.getD (outInd.idxOf lab) ⟨none, .colon⟩).br with
    | none => true
    | some (f, l) => sliceKeeps ic f l
  else true

/-- … for every sliced axis of every operand -/
def keepsAll (outInd : List Nat) (plans : List AxisPlan) (ops : List Opd) : Bool :=
  ops.all (fun o => match o.ind with
    | none => true
    | some ind => (ind.zip o.chunks).all (fun p => keepsAxis outInd plans p.1 p.2))

/-- the decision-level description of an operand -/
def Operand.toOpd {α} (o : Operand α) : Opd := { isArr := true, ind := o.ind, chunks := o.chunks }

end Dask.Coarse
