/-
L1 model of dask_array/slicing/_utils.py and the chunk helpers of slicing/_basic.py.
Each def mirrors the Python control flow line by line (same branches, same running
variables).  Core Lean only.  Tied to the implementation by harness/props/C13.py.
-/
import DaskArrayModel.Py.Basic
namespace Dask.Slicing
open Dask.Py Dask.Py.PySlice

inductive Err | notImplemented | indexError | valueError | typeError
deriving DecidableEq, Repr

def colon : PySlice := ⟨none, none, none⟩

/-- `normalize_slice(idx, dim)` for a slice `idx` and a known `dim` (`slicing/_utils.py`).
`step = 0` makes `slice.indices` raise in Python; the model returns the input there
and every theorem assumes `s.stp ≠ 0`. -/
def normalizeSlice (s : PySlice) (dim : Int) : PySlice :=
  let start := s.istart dim
  let stop := s.istop dim
  let step := s.stp
  if step > 0 then
    let start' : Option Int := if start = 0 then none else some start
    let stop' : Option Int := if stop ≥ dim then none else some stop
    let step' : Option Int := if step = 1 then none else some step
    let stop'' : Option Int :=
      match stop', start' with
      | some b, some a => if b < a then some a else some b
      | _, _ => stop'
    ⟨start', stop'', step'⟩
  else if step < 0 then
    if start ≥ dim - 1 then
      ⟨none, if stop < 0 then none else some stop, some step⟩
    else if start < 0 then
      ⟨some 0, some 0, some step⟩
    else
      ⟨some start, if stop < 0 then none else some stop, some step⟩
  else s

/-- `posify_index(shape, ind)` for an integer index with known `shape`. -/
def posifyInt (shape ind : Int) : Int := if ind < 0 then ind + shape else ind

/-- `check_index(axis, ind, dimension)` for an integer: `true` iff it does not raise. -/
def checkIndexInt (ind dim : Int) : Bool := !(ind ≥ dim || ind < -dim)

/-- `_normalize_slice_for_fusion`. -/
def normalizeForFusion (s : PySlice) : Except Err PySlice :=
  let start := s.start.getD 0
  let step := s.step.getD 1
  if start < 0 ∨ step < 0 ∨ s.stop.getD 0 < 0 then
    .error .notImplemented
  else .ok ⟨some start, s.stop, some step⟩

/-- `fuse_slice(a, b)` for two slices. -/
def fuseSliceSlice (a b : PySlice) : Except Err PySlice := do
  let a ← normalizeForFusion a
  let b ← normalizeForFusion b
  let astart := a.start.getD 0
  let astep := a.step.getD 1
  let bstart := b.start.getD 0
  let bstep := b.step.getD 1
  let start := astart + astep * bstart
  let stop : Option Int := b.stop.map (fun bs => astart + astep * bs)
  let stop : Option Int :=
    match a.stop with
    | some as_ => (match stop with | some st => some (min as_ st) | none => some as_)
    | none => stop
  let step := astep * bstep
  pure ⟨some start, stop, if step = 1 then none else some step⟩

/-- `fuse_slice(a, b)` for slice `a` and integer `b`. -/
def fuseSliceInt (a : PySlice) (b : Int) : Except Err Int := do
  let a ← normalizeForFusion a
  if b < 0 then .error .notImplemented else pure (a.start.getD 0 + b * a.step.getD 1)

/-- `_compose_slices(outer, inner, dim_size)` (`slicing/_basic.py`). -/
def composeSlices (outer inner : PySlice) (dim : Int) : PySlice :=
  let ostart := outer.istart dim
  let ostop := outer.istop dim
  let ostep := outer.stp
  let olen : Int := rangeLen ostart ostop ostep
  let istart := inner.istart olen
  let istop := inner.istop olen
  let istep := inner.stp
  if ostep ≠ 1 ∨ istep ≠ 1 then
    let nstep := ostep * istep
    ⟨some (ostart + istart * ostep), some (ostart + istop * ostep), if nstep ≠ 1 then some nstep else none⟩
  else
    ⟨some (ostart + istart), some (ostart + istop), none⟩

/-! ### `_slice_1d` -/

/-- integer index: `{block: offset}`. -/
def slice1dInt (lengths : List Int) (index : Int) : Nat × Int :=
  let b := cumsum lengths
  let i := bisectRight b index
  (i, if i > 0 then index - b.getD (i - 1) 0 else index)

/-- The `for i in range(istart, istop)` loop of the `step > 0` branch, over the block
lengths still to visit; `i` is the current block number, `start`/`stop` the running
variables (relative to the current block). -/
def loopPos (step : Int) : List Int → Nat → Int → Int → List (Nat × PySlice)
  | [], _, _, _ => []
  | len :: rest, i, start, stop =>
    if start < len ∧ stop > 0 then
      (i, ⟨some start, some (min stop len), some step⟩) ::
        loopPos step rest (i + 1) (pyMod (start - len) step) (stop - len)
    else
      loopPos step rest (i + 1) (start - len) (stop - len)

/-- `(i, chunk_start, chunk_stop)` for every block. -/
def blockTriplesFrom (i : Nat) (acc : Int) : List Int → List (Nat × Int × Int)
  | [] => []
  | len :: rest => (i, acc, acc + len) :: blockTriplesFrom (i + 1) (acc + len) rest

def blockTriples (lengths : List Int) : List (Nat × Int × Int) := blockTriplesFrom 0 0 lengths

/-- The `for i in range(istart, istop, -1)` loop of the `step < 0` branch over the visited
blocks (already in descending order); `rstart` is the running start. -/
def loopNeg (step stop : Int) : List (Nat × Int × Int) → Int → List (Nat × PySlice)
  | [], _ => []
  | (i, cstart, cstop) :: rest, rstart =>
    if (cstart ≤ rstart ∧ rstart < cstop) ∧ rstart > stop then
      (i, ⟨some (rstart - cstop), some (max (cstart - cstop - 1) (stop - cstop)), some step⟩) ::
        loopNeg step stop rest (cstart + pyMod (rstart - (cstart - 1)) step - 1)
    else
      loopNeg step stop rest rstart

/-- post-processing: `slice(0, lengths[k], 1) → slice(None)`, and the `x[:0]` special case. -/
def finish (lengths : List Int) (d : List (Nat × PySlice)) : List (Nat × PySlice) :=
  let d' := d.map (fun (k, v) =>
    if v = ⟨some 0, some (lengths.getD k 0), some 1⟩ then (k, colon) else (k, v))
  if d'.isEmpty then [(0, ⟨some 0, some 0, some 1⟩)] else d'

/-- `_slice_1d(dim_shape, lengths, index)` for a slice index; result in insertion order. -/
def slice1d (dim : Int) (lengths : List Int) (index : PySlice) : List (Nat × PySlice) :=
  if index = colon then
    (List.range lengths.length).map (fun i => (i, colon))
  else
    let step := match index.step with | none => 1 | some 0 => 1 | some c => c
    let bounds := cumsum lengths
    if step > 0 then
      let start := match index.start with | none => 0 | some a => a
      let stop := match index.stop with | none => dim | some b => b
      let start := if start < 0 then start + dim else start
      let stop := if stop < 0 then stop + dim else stop
      let istart := bisectRight bounds start
      let istop := min (bisectLeft bounds stop + 1) lengths.length
      let off := if istart > 0 then bounds.getD (istart - 1) 0 else 0
      finish lengths
        (loopPos step ((lengths.drop istart).take (istop - istart)) istart (start - off) (stop - off))
    else
      let start := match index.start with | none => dim - 1 | some a => a
      let start := if start ≥ dim then dim - 1 else start
      let stop := match index.stop with | none => -(dim + 1) | some b => b
      let start := if start < 0 then start + dim else start
      let stop := if stop < 0 then stop + dim else stop
      let istart := bisectRight bounds start
      let istop := bisectRight bounds stop
      let istart : Int := min ((istart : Int) + 1) ((bounds.length : Int) - 1)
      let istop : Int := max ((istop : Int) - 1) (-1)
      let visited := ((blockTriples lengths).filter
        (fun t => decide (istop < (t.1 : Int)) && decide ((t.1 : Int) ≤ istart))).reverse
      finish lengths (loopNeg step stop visited start)

/-- insertion sort by block number (keys are distinct). -/
def insertByKey (p : Nat × PySlice) : List (Nat × PySlice) → List (Nat × PySlice)
  | [] => [p]
  | q :: qs => if p.1 ≤ q.1 then p :: q :: qs else q :: insertByKey p qs

def sortByKey (l : List (Nat × PySlice)) : List (Nat × PySlice) := l.foldr insertByKey []

/-- `new_blockdim(dim_shape, lengths, index)` for a slice index. -/
def newBlockdim (dim : Int) (lengths : List Int) (index : PySlice) : List Int :=
  if index = colon then lengths else
    let pairs := sortByKey (slice1d dim lengths index)
    let slices := pairs.map (fun (i, slc) =>
      if slc = colon then (⟨some 0, some (lengths.getD i 0), some 1⟩ : PySlice) else slc)
    let slices := match index.step with
      | some c => if c ≠ 0 ∧ c < 0 then slices.reverse else slices
      | none => slices
    slices.map (fun slc => ceilDiv (slc.stop.getD 0 - slc.start.getD 0) (slc.step.getD 1))

/-- `_compute_sliced_chunks(chunks, slc, dim_size)` (`slicing/_basic.py`). -/
def overlapLoop (start stop : Int) : List Int → Int → List Int
  | [], _ => []
  | c :: rest, pos =>
    let cs := pos
    let ce := pos + c
    if ce ≤ start then overlapLoop start stop rest ce
    else if cs ≥ stop then []
    else (min ce stop - max cs start) :: overlapLoop start stop rest ce

def computeSlicedChunks (chunks : List Int) (slc : PySlice) (dim : Int) : List Int :=
  if slc = colon then chunks else
    let start := slc.istart dim
    let stop := slc.istop dim
    let step := slc.stp
    if step = -1 then
      if start = dim - 1 ∧ stop = -1 then chunks.reverse
      else [(rangeLen start stop step : Int)]
    else if step ≠ 1 then [(rangeLen start stop step : Int)]
    else if start ≥ stop then [0]
    else
      let r := overlapLoop start stop chunks 0
      if r.isEmpty then [0] else r

/-- `SliceSlicesIntegers._slice_chunks(chunks, start, length)`. -/
def sliceChunksLoop (start stop : Int) : List Int → Int → List Int
  | [], _ => []
  | c :: rest, pos =>
    let cs := pos
    let ce := pos + c
    if ce ≤ start then sliceChunksLoop start stop rest ce
    else if cs ≥ stop then []
    else
      let sz := min stop ce - max start cs
      if sz > 0 then sz :: sliceChunksLoop start stop rest ce else sliceChunksLoop start stop rest ce

def sliceChunks (chunks : List Int) (start length : Int) : List Int :=
  let r := sliceChunksLoop start (start + length) chunks 0
  if r.isEmpty then [0] else r

end Dask.Slicing
