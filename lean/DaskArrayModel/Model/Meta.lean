/-
C29 model: a small expression language over SOURCES that live in an abstract data environment `Env`.
THIN BY DESIGN (the recording monitor in harness/props/C29.py carries the weight): the point of this file is only to
state precisely what "building and inspecting never touches data" means —
  * the metadata function `metaLog` is GIVEN the environment (as the real code is given the source object) and may
    use the source interface, whose only data-touching operation is `read region`;
  * what it actually does mirrors the code: `meta_from_array(x)` reads `x[(slice(0,0),)*ndim]` (an EMPTY region for
    ndim ≥ 1), `compute_meta` calls the user function on metas, `apply_infer_dtype` (no dtype/meta given) calls it
    on a synthetic block of shape (1,…,1) of zeros — never on values obtained from `read`.
No Mathlib.
-/
namespace Dask.Meta

/-- per-axis half-open interval `[start, stop)` -/
abbrev Region := List (Nat × Nat)

def regionSize (r : Region) : Nat := (r.map (fun p => p.2 - p.1)).foldl (· * ·) 1

abbrev Values := List Int

/-- the data environment: the ONLY data-touching operation of a source is `read src region` -/
structure Env where
  read : Nat → Region → Values

/-- a well-behaved source returns nothing for an empty selection -/
def Env.WF (env : Env) : Prop := ∀ s r, regionSize r = 0 → env.read s r = []

/-- interpretation of the operators (abstract: C29 is not about values) -/
structure Sem where
  elem : Values → Values → Values
  slice : Region → Values → Values
  block : Nat → Values → Values
  reduce : Values → Values

inductive Expr
  | src (id : Nat) (shape chunks : List Nat) (dtype : Nat)
  | elem (a b : Expr)
  | slice (a : Expr) (r : Region)
  | mapBlocks (f : Nat) (a : Expr) (dtype : Option Nat)
  | reduce (a : Expr)

/-- what can be observed from outside -/
inductive Event
  | read (src : Nat) (r : Region)                      -- source.__getitem__
  | call (f : Nat) (blockShape : List Nat) (fromData : Bool)  -- user block function called
  deriving DecidableEq

/-- an event that touches no data: an EMPTY read, or a call on a block that was not obtained from a read
and is empty or the all-ones-shaped synthetic probe -/
def Event.harmless : Event → Bool
  | .read _ r => regionSize r == 0
  | .call _ shp fromData => !fromData && shp.all (· ≤ 1)

/-- strictly empty: empty read / call on a block with a zero-length axis -/
def Event.emptyOnly : Event → Bool
  | .read _ r => regionSize r == 0
  | .call _ shp fromData => !fromData && shp.any (· == 0)

structure Meta where
  shape : List Nat
  chunks : List Nat
  dtype : Nat
  name : Nat
  metaArr : Values       -- the `_meta` array's contents (what `x[:0, :0]` returned)
  deriving DecidableEq

def fullRegion (shape : List Nat) : Region := shape.map (fun n => (0, n))
def emptyRegion (shape : List Nat) : Region := shape.map (fun _ => (0, 0))

/-- instrumented metadata: has the environment in its hands, like the real code has the source object -/
def metaLog (env : Env) : Expr → Meta × List Event
  | .src id shape chunks dtype =>
    -- meta_from_array: x[tuple(slice(0, 0) for _ in range(x.ndim))]
    let r0 := emptyRegion shape
    ({ shape, chunks, dtype, name := id, metaArr := env.read id r0 }, [.read id r0])
  | .elem a b =>
    let (ma, la) := metaLog env a
    let (mb, lb) := metaLog env b
    ({ ma with name := ma.name * 31 + mb.name + 1, metaArr := [] }, la ++ lb)
  | .slice a r =>
    let (ma, la) := metaLog env a
    ({ ma with shape := r.map (fun p => p.2 - p.1), name := ma.name * 31 + regionSize r + 2, metaArr := [] }, la)
  | .mapBlocks f a dtype =>
    let (ma, la) := metaLog env a
    let z := ma.shape.map (fun _ => 0)
    match dtype with
    | some dt => ({ ma with dtype := dt, name := ma.name * 31 + f + 3, metaArr := [] }, la)
    | none =>    -- compute_meta: f(meta) ; apply_infer_dtype: f(zeros((1,)*ndim))
      ({ ma with name := ma.name * 31 + f + 3, metaArr := [] },
        la ++ [.call f z false, .call f (ma.shape.map (fun _ => 1)) false])
  | .reduce a =>
    let (ma, la) := metaLog env a
    ({ ma with shape := [], chunks := [], name := ma.name * 31 + 4, metaArr := [] }, la)

/-- every `mapBlocks` is given its dtype -/
def Expr.dtypesGiven : Expr → Bool
  | .src .. => true
  | .elem a b => a.dtypesGiven && b.dtypesGiven
  | .slice a _ => a.dtypesGiven
  | .mapBlocks _ a dt => dt.isSome && a.dtypesGiven
  | .reduce a => a.dtypesGiven

/-- every source has at least one axis (a 0-d array cannot be selected emptily: `x[()]` is its element) -/
def Expr.srcNonScalar : Expr → Bool
  | .src _ shape _ _ => shape != []
  | .elem a b => a.srcNonScalar && b.srcNonScalar
  | .slice a _ => a.srcNonScalar
  | .mapBlocks _ a _ => a.srcNonScalar
  | .reduce a => a.srcNonScalar

/-- plain evaluation -/
def eval (sem : Sem) (env : Env) : Expr → Values
  | .src id shape _ _ => env.read id (fullRegion shape)
  | .elem a b => sem.elem (eval sem env a) (eval sem env b)
  | .slice a r => sem.slice r (eval sem env a)
  | .mapBlocks f a _ => sem.block f (eval sem env a)
  | .reduce a => sem.reduce (eval sem env a)

/-- instrumented evaluation: graph execution is where reads happen -/
def evalLog (sem : Sem) (env : Env) : Expr → Values × List Event
  | .src id shape _ _ => (env.read id (fullRegion shape), [.read id (fullRegion shape)])
  | .elem a b =>
    let (va, la) := evalLog sem env a
    let (vb, lb) := evalLog sem env b
    (sem.elem va vb, la ++ lb)
  | .slice a r => let (va, la) := evalLog sem env a; (sem.slice r va, la)
  | .mapBlocks f a _ => let (va, la) := evalLog sem env a; (sem.block f va, la ++ [.call f [va.length] true])
  | .reduce a => let (va, la) := evalLog sem env a; (sem.reduce va, la)

/-- the user-visible session: build + inspect (metadata), THEN compute -/
def inspectThenEval (sem : Sem) (env : Env) (e : Expr) : Values × List Event :=
  let (_, lm) := metaLog env e
  let (v, le) := evalLog sem env e
  (v, lm ++ le)

end Dask.Meta
