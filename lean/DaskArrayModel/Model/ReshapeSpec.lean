/-
Spec vocabulary for the reshape theorems (Props/C01Reshape.lean, Props/C03Reshape.lean).

An `Axis` is one axis of a chunked array: its length and its chunk tuple.  The planner of
`dask_array/manipulation/_reshape.py` (`Model/Reshape.lean`) pairs the input axes and the output axes from
the right in GROUPS; `Grouped A B` is that structure (what the algorithm actually produces):

  `eq`     one input axis = one output axis (same length, same chunks)
  `in1`    an input axis of length 1 with chunks `(1,)` and no output axis
  `out1`   an output axis of length 1 with chunks `(1,)` and no input axis
  `merge`  input axes `G` merged into ONE output axis whose chunks are the block sizes of `G` in row-major order
  `split`  ONE input axis split into the output axes `G`, the input chunks being the block sizes of `G`

where `G` is in *pivot form*: some axes chunked into single elements, then one arbitrarily chunked axis, then
axes that are one whole chunk.  This is exactly the condition under which the row-major enumeration of the
blocks of `G`, each block row-major inside, is the row-major enumeration of the merged axis.

`BlockEquiv A B` is the meaning: both layouts have the same number of elements, the same list of block sizes,
and the same map  flat C-order position ↦ (block number, size of that block, flat position inside the block).
-/
import DaskArrayModel.Model.Reshape
namespace Dask.Reshape
open Dask.ND

/-- one axis: `(length, chunks)` -/
abbrev Axis := Nat × Chunks

def shapeA (A : List Axis) : List Nat := A.map (fun a => a.1)
def chunksA (A : List Axis) : List Chunks := A.map (fun a => a.2)

/-- number of elements -/
def sizeA (A : List Axis) : Nat := prodL (shapeA A)

/-- number of blocks -/
def nbA (A : List Axis) : Nat := prodL ((chunksA A).map List.length)

/-- the chunks add up to the axis length -/
def ValidAx (a : Axis) : Prop := a.2.sum = a.1

/-- block number (row-major over the block grid) of the element with flat C-order position `g` -/
def KA : List Axis → Nat → Nat
  | [], _ => 0
  | a :: A, g => (findBlock a.2 (g / sizeA A)).1 * nbA A + KA A (g % sizeA A)

/-- number of elements of the block holding the element with flat position `g` -/
def SA : List Axis → Nat → Nat
  | [], _ => 1
  | a :: A, g => a.2.getD (findBlock a.2 (g / sizeA A)).1 0 * SA A (g % sizeA A)

/-- flat C-order position, inside its block, of the element with flat position `g` -/
def FA : List Axis → Nat → Nat
  | [], _ => 0
  | a :: A, g => (findBlock a.2 (g / sizeA A)).2 * SA A (g % sizeA A) + FA A (g % sizeA A)

/-- two chunked layouts that are block-for-block, element-for-element the same flat data -/
structure BlockEquiv (A B : List Axis) : Prop where
  size : sizeA A = sizeA B
  sizes : blockSizes (chunksA A) = blockSizes (chunksA B)
  phi : ∀ g, g < sizeA A → KA A g = KA B g ∧ SA A g = SA B g ∧ FA A g = FA B g

/-- pivot form: `pre` axes cut into single elements, one free axis, `post` axes in one chunk -/
def PivotForm (G : List Axis) : Prop :=
  ∃ pre piv post, G = pre ++ piv :: post ∧
    (∀ a ∈ pre, a.2 = List.replicate a.1 1) ∧ (∀ f ∈ post, f.2 = [f.1])

/-- the single axis a group is merged into / split from -/
def mergedAx (G : List Axis) : Axis := (sizeA G, blockSizes (chunksA G))

/-- the structure of a successful plan: input axes `A` and output axes `B`, grouped from the right -/
inductive Grouped : List Axis → List Axis → Prop
  | nil : Grouped [] []
  | eq {A B : List Axis} (a : Axis) : ValidAx a → Grouped A B → Grouped (a :: A) (a :: B)
  | in1 {A B : List Axis} : Grouped A B → Grouped ((1, [1]) :: A) B
  | out1 {A B : List Axis} : Grouped A B → Grouped A ((1, [1]) :: B)
  | merge {A B : List Axis} (G : List Axis) : PivotForm G → (∀ a ∈ G, ValidAx a) → Grouped A B →
      Grouped (G ++ A) (mergedAx G :: B)
  | split {A B : List Axis} (G : List Axis) : PivotForm G → (∀ a ∈ G, ValidAx a) → Grouped A B →
      Grouped (mergedAx G :: A) (G ++ B)

/-- the element map of the blockwise plan for output multi-index `i`: locate the output block and the
position inside it; take the input block with the same row-major number; un-flatten the flat position in
that block's shape; add the block's origin -/
def planIndex (ic oc : List Chunks) (i : List Nat) : List Nat :=
  let b := bidOf oc i
  let b' := unflat (numblocks ic) (flatIndex (numblocks oc) b)
  vadd (origin ic b') (unflat (blockShape ic b') (flatIndex (blockShape oc b) (localOf oc i)))

end Dask.Reshape
