/-
Model of `diff` (dask_array/routines/_diff.py) along ONE axis, as the code does it:

    if n == 0: return a                     # before prepend / append are looked at
    if n < 0: raise ValueError
    combined = [prepend?] + [a] + [append?]  # a 0-d prepend / append is broadcast to length 1 along the axis
    a = concatenate(combined, axis)          # only when there is more than one piece
    sl_1[axis] = slice(1, None); sl_2[axis] = slice(None, -1)
    r = a
    for _ in range(n): r = r[sl_1] - r[sl_2]

`getSl` is NumPy's `x[s]` on one axis (Model/OverlapSlice.lean), so `slice(None, -1)` really goes through the negative
bound.  The spec side is `firstDiff` (`out[i] = x[i+1] - x[i]`, length `len - 1`).  Core Lean only.
-/
import DaskArrayModel.Model.OverlapSlice
namespace Dask.Diff
open Dask.Py Dask.OverlapSlice

variable {α : Type}

/-- `r[sl_1] - r[sl_2]` -/
def diffStep [Sub α] (r : List α) : List α :=
  List.zipWith (· - ·) (getSl ⟨some 1, none, none⟩ r) (getSl ⟨none, some (-1), none⟩ r)

/-- `for _ in range(n): r = r[sl_1] - r[sl_2]` -/
def diffLoop [Sub α] : Nat → List α → List α
  | 0, r => r
  | n + 1, r => diffLoop n (diffStep r)

/-- `combined`, concatenated (`none` = the argument is `None`; a scalar is the one-element list) -/
def combine (a : List α) (prepend append : Option (List α)) : List α :=
  (prepend.getD []) ++ a ++ (append.getD [])

/-- `diff(a, n, axis, prepend, append)` on the axis; `none` = `ValueError("order must be non-negative …")` -/
def diff [Sub α] (n : Int) (a : List α) (prepend append : Option (List α)) : Option (List α) :=
  if n = 0 then some a
  else if n < 0 then none
  else some (diffLoop n.toNat (combine a prepend append))

/-! ### spec -/

/-- `np.diff(x)`: `out[i] = x[i+1] - x[i]` -/
def firstDiff [Sub α] : List α → List α
  | [] => []
  | [_] => []
  | a :: b :: r => (b - a) :: firstDiff (b :: r)

/-- the n-fold first difference -/
def nthDiff [Sub α] : Nat → List α → List α
  | 0, x => x
  | n + 1, x => nthDiff n (firstDiff x)

end Dask.Diff
