/-
Specification vocabulary for the old→new crosswalk (`old_to_new` / `_intersect_1d`).
-/
import DaskArrayModel.Model.Rechunk
namespace Dask.Rechunk
open Dask.Py

/-- global position of the first element of old block `i` -/
def oldStart (old : List Int) (i : Nat) : Int := isum (old.take i)

/-- global positions covered by a list of pieces, in order -/
def piecesPositions (old : List Int) (ps : List Piece) : List Int :=
  ps.flatMap (fun p => rangeList (oldStart old p.idx.toNat + p.s) (oldStart old p.idx.toNat + p.e) 1)

/-- a piece names an existing old block and lies inside it -/
def PieceOK (old : List Int) (p : Piece) : Prop :=
  0 ≤ p.idx ∧ p.idx < (old.length : Int) ∧ 0 ≤ p.s ∧ p.s ≤ p.e ∧ p.e ≤ old.getD p.idx.toNat 0

instance (old : List Int) (p : Piece) : Decidable (PieceOK old p) := by unfold PieceOK; infer_instance

/-- positions `[newStart j, newEnd j)` of new block `j` -/
def newBlockPositions (new : List Int) (j : Nat) : List Int :=
  rangeList (isum (new.take j)) (isum (new.take (j + 1))) 1

end Dask.Rechunk
