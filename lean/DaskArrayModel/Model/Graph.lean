/-
L4 — task graphs, layers and the records translation (core Lean only).

* `Task` / `Graph` / `closed` / `TopoFrom` / `IsTopo` / `acyclic` / `evalOrder` : a graph is a list
  of `(key, task)`; a task is a dependency list plus a PURE function of the dependency values.
* `ENode` / `LayerContract` / `OwnedLayer` / `unionLayers` : the per-expression layers that
  `Expr.__dask_graph__` merges with `toolz.merge` (later layer wins), the local contract monitored
  on every real layer by `harness/props/C04.py`, and the `RootAlias` pin of `_materialize`.
* `Node` / `Args` : the `dask._task_spec` mini-AST (`TaskRef | Alias | DataNode | List | Tuple |
  Task | literal`, plus plain Python lists/tuples inside arguments), `evalNode`, and `resolve` /
  `records` : the model of `_Flattener.resolve` / `_records` in
  `dask_array/_frisky/graph_records.py` (nested tasks hoisted into `<parent>-subN` records,
  counter incremented BEFORE the children are resolved, record appended AFTER them).
* `walk` : the stack walk of `_walk_records` with a shared `seen` set.
-/
namespace Dask.Graph

/-! ## Tasks and graphs -/

structure Task (κ ν : Type) where
  deps : List κ
  fn : List ν → ν

abbrev Graph (κ ν : Type) := List (κ × Task κ ν)

section basic
variable {κ ν : Type}

def keys (g : Graph κ ν) : List κ := g.map Prod.fst

/-- distinct keys (a Python dict) -/
def WF (g : Graph κ ν) : Prop := (keys g).Nodup

/-- every dependency of every task is a key of the graph -/
def closed (g : Graph κ ν) : Prop := ∀ p ∈ g, ∀ d ∈ p.2.deps, d ∈ keys g

/-- `order` lists tasks of `g`, none of them in `done` or repeated, each after all of its
dependencies (which are in `done` or earlier in `order`). -/
def TopoFrom (g : Graph κ ν) : List κ → List κ → Prop
  | _, [] => True
  | done, k :: rest =>
    k ∉ done ∧ (∃ t, (k, t) ∈ g ∧ ∀ d ∈ t.deps, d ∈ done) ∧ TopoFrom g (k :: done) rest

/-- a topological order of the whole graph -/
def IsTopo (g : Graph κ ν) (order : List κ) : Prop :=
  TopoFrom g [] order ∧ ∀ k ∈ keys g, k ∈ order

def acyclic (g : Graph κ ν) : Prop := ∃ order, IsTopo g order

abbrev Env (κ ν : Type) := κ → Option ν

def Env.empty : Env κ ν := fun _ => none

variable [DecidableEq κ]

def Env.set (e : Env κ ν) (k : κ) (v : ν) : Env κ ν := fun k' => if k' = k then some v else e k'

def getTask (g : Graph κ ν) (k : κ) : Option (Task κ ν) :=
  match g with
  | [] => none
  | (k', t) :: rest => if k' = k then some t else getTask rest k

/-- the values of a dependency list; `none` as soon as one is undefined -/
def lookupAll (e : Env κ ν) : List κ → Option (List ν)
  | [] => some []
  | d :: ds =>
    match e d, lookupAll e ds with
    | some v, some vs => some (v :: vs)
    | _, _ => none

def evalTask (e : Env κ ν) (t : Task κ ν) : Option ν := (lookupAll e t.deps).map t.fn

/-- run the tasks in the given order; `none` if a key is not a task or a dependency value is
missing when its consumer runs -/
def evalOrder (g : Graph κ ν) : List κ → Env κ ν → Option (Env κ ν)
  | [], e => some e
  | k :: rest, e =>
    match getTask g k with
    | none => none
    | some t =>
      match evalTask e t with
      | none => none
      | some v => evalOrder g rest (e.set k v)

/-- executable check of `TopoFrom` on the dependency skeleton `(key, deps)` of a graph -/
def topoFromB (sk : List (κ × List κ)) : List κ → List κ → Bool
  | _, [] => true
  | done, k :: rest =>
    (!done.contains k) &&
    (match sk.lookup k with
     | some ds => ds.all (fun d => done.contains d)
     | none => false) &&
    topoFromB sk (k :: done) rest

/-- executable check of `IsTopo` -/
def isTopoB (sk : List (κ × List κ)) (order : List κ) : Bool :=
  topoFromB sk [] order && sk.all (fun p => order.contains p.1)

def skeleton (g : Graph κ ν) : List (κ × List κ) := g.map (fun p => (p.1, p.2.deps))

/-- `toolz.merge([g, h])`: the later dict wins -/
def merge (g h : Graph κ ν) : Graph κ ν := g.filter (fun p => decide (p.1 ∉ keys h)) ++ h

end basic

/-! ## Layers of an expression DAG -/

/-- a dask key `(name, *idx)`; `tag ≠ ""` marks a private key derived from the owner's name
(`rechunk-split-<token>`, `<name>-chunk`, `(<name>, 'extra', …)`, …) -/
structure Key where
  owner : String
  tag : String
  idx : List Nat
deriving DecidableEq, Repr

def blockKey (name : String) (i : List Nat) : Key := ⟨name, "", i⟩

/-- `itertools.product(*(range(nb) for nb in numblocks))` in C order -/
def grid : List Nat → List (List Nat)
  | [] => [[]]
  | n :: ns => (List.range n).flatMap (fun i => (grid ns).map (fun r => i :: r))

/-- one (lowered) expression node: its name, advertised block structure, declared dependencies
(name and numblocks of each) and the graph its `_layer()` returns -/
structure ENode (ν : Type) where
  name : String
  numblocks : List Nat
  deps : List (String × List Nat)
  layer : Graph Key ν

section layers
variable {ν : Type}

/-- the block keys of the declared dependencies -/
def depGrid (n : ENode ν) : List Key :=
  n.deps.flatMap (fun d => (grid d.2).map (blockKey d.1))

/-- THE LAYER CONTRACT (closure part): the layer defines its whole block grid and references only
its own keys or block keys of declared dependencies -/
structure LayerContract (n : ENode ν) : Prop where
  grid_defined : ∀ i ∈ grid n.numblocks, blockKey n.name i ∈ keys n.layer
  refs : ∀ p ∈ n.layer, ∀ d ∈ p.2.deps, d ∈ keys n.layer ∨ d ∈ depGrid n

/-- THE LAYER CONTRACT (ownership part): distinct keys, all derived from the node's own name, and
the public ones are exactly the grid -/
structure OwnedLayer (n : ENode ν) : Prop where
  nodup : (keys n.layer).Nodup
  owned : ∀ k ∈ keys n.layer, k.owner = n.name
  grid_exact : ∀ k ∈ keys n.layer, k.tag = "" → k.idx ∈ grid n.numblocks

/-- `toolz.merge(layers)` over the walk (later layers win) -/
def unionLayers : List (ENode ν) → Graph Key ν
  | [] => []
  | n :: rest => merge n.layer (unionLayers rest)

/-- the node set is closed under `dependencies()` (what `walk` guarantees) -/
def WalkClosed (nodes : List (ENode ν)) : Prop :=
  ∀ n ∈ nodes, ∀ d ∈ n.deps, ∃ m ∈ nodes, m.name = d.1 ∧ m.numblocks = d.2

/-- `rest` lists nodes in dependency order after `pre`: each node's declared dependencies are
earlier nodes (with the declared block structure) and names are distinct -/
def DagFrom : List (ENode ν) → List (ENode ν) → Prop
  | _, [] => True
  | pre, n :: rest =>
    (∀ d ∈ n.deps, ∃ m ∈ pre, m.name = d.1 ∧ m.numblocks = d.2) ∧
    n.name ∉ pre.map (·.name) ∧ DagFrom (n :: pre) rest

variable [Inhabited ν]

def aliasTask (src : Key) : Task Key ν := ⟨[src], fun vs => vs.headD default⟩

/-- `RootAlias(expr, raw)._layer()`: `(raw, i…) ↦ Alias → (expr.name, i…)` -/
def rootAlias (raw : String) (opt : ENode ν) : ENode ν :=
  { name := raw, numblocks := opt.numblocks, deps := [(opt.name, opt.numblocks)],
    layer := (grid opt.numblocks).map (fun i => (blockKey raw i, aliasTask (blockKey opt.name i))) }

/-- the tail of `_materialize`: `pre ++ [root]` is the optimized tree in dependency order -/
def materialize (raw : String) (pre : List (ENode ν)) (root : ENode ν) : Except String (List (ENode ν)) :=
  if root.name = raw then .ok (pre ++ [root])
  else if raw ∈ (pre ++ [root]).map (·.name) then .error "RuntimeError"  -- embedded-root guard
  else .ok (pre ++ [root, rootAlias raw root])

end layers

/-! ## The `_task_spec` mini-AST and the `_Flattener` model -/

mutual
/-- `κ` keys, `φ` function symbols, `λ` literals -/
inductive Node (κ φ lit : Type) where
  | taskRef (k : κ)
  | alias (k : κ)
  | data (v : lit)                       -- DataNode(value)
  | lit (v : lit)                        -- anything else: passed through
  | list (xs : Args κ φ lit)             -- _task_spec.List
  | tuple (xs : Args κ φ lit)            -- _task_spec.Tuple
  | plist (xs : Args κ φ lit)            -- a plain Python list inside an argument
  | ptuple (xs : Args κ φ lit)           -- a plain Python tuple inside an argument
  | task (f : φ) (kw : List String) (xs : Args κ φ lit)  -- Task(f, *args, **kwargs): the last
                                         -- `kw.length` entries of `xs` are the keyword values
inductive Args (κ φ lit : Type) where
  | nil
  | cons (x : Node κ φ lit) (xs : Args κ φ lit)
end

/-- what a record argument may contain: references (by key string), literals, plain containers -/
inductive Arg (σ lit : Type) where
  | ref (s : σ)
  | lit (v : lit)
  | list (xs : List (Arg σ lit))
  | tuple (xs : List (Arg σ lit))

inductive Fn (φ : Type) where
  | ident                                 -- toolz.identity
  | fn (f : φ)
deriving DecidableEq

/-- one Frisky record `(key, func, args, kwargs, deps)` -/
structure Rec (σ φ lit : Type) where
  key : σ
  func : Fn φ
  kw : List String
  args : List (Arg σ lit)
  deps : List σ

/-- how values are built: abstract, any functions -/
structure Interp (φ lit ν : Type) where
  ofLit : lit → ν
  mkList : List ν → ν
  mkTuple : List ν → ν
  apply : φ → List String → List ν → ν

section flat
variable {κ φ lit σ ν : Type}

/-- `Option`-sequence of a list -/
def seqOpt : List (Option ν) → Option (List ν)
  | [] => some []
  | o :: os =>
    match o, seqOpt os with
    | some v, some vs => some (v :: vs)
    | _, _ => none

mutual
/-- the value `Task.__call__` computes for a (nested) node, given the dependency values -/
def evalNode (I : Interp φ lit ν) (env : κ → Option ν) : Node κ φ lit → Option ν
  | .taskRef k => env k
  | .alias k => env k
  | .data v => some (I.ofLit v)
  | .lit v => some (I.ofLit v)
  | .list xs => (evalArgs I env xs).map I.mkList
  | .tuple xs => (evalArgs I env xs).map I.mkTuple
  | .plist xs => (evalArgs I env xs).map I.mkList
  | .ptuple xs => (evalArgs I env xs).map I.mkTuple
  | .task f kw xs => (evalArgs I env xs).map (I.apply f kw)
def evalArgs (I : Interp φ lit ν) (env : κ → Option ν) : Args κ φ lit → Option (List ν)
  | .nil => some []
  | .cons x xs =>
    match evalNode I env x, evalArgs I env xs with
    | some v, some vs => some (v :: vs)
    | _, _ => none
end

mutual
def nodeRefs : Node κ φ lit → List κ
  | .taskRef k => [k]
  | .alias k => [k]
  | .data _ => []
  | .lit _ => []
  | .list xs => argsRefs xs
  | .tuple xs => argsRefs xs
  | .plist xs => argsRefs xs
  | .ptuple xs => argsRefs xs
  | .task _ _ xs => argsRefs xs
def argsRefs : Args κ φ lit → List κ
  | .nil => []
  | .cons x xs => nodeRefs x ++ argsRefs xs
end

/-- configuration of the flattener: how a key is rendered to its string, the sub-key
`f"{parent}-sub{n}"` and `sorted(set(·))` on key strings -/
structure FlatCfg (κ σ : Type) where
  render : κ → σ
  subKey : σ → Nat → σ
  sortDedup : List σ → List σ

mutual
/-- `_Flattener.resolve(arg, deps)` for `parent_key = parent` with counter `n`: returns the
resolved argument, the new counter, the records appended to `extra` and the keys added to `deps`
(both accumulators are append-only in the code, so they are returned). -/
def resolve (cfg : FlatCfg κ σ) (parent : σ) : Node κ φ lit → Nat →
    Arg σ lit × Nat × List (Rec σ φ lit) × List σ
  | .taskRef k, n => (.ref (cfg.render k), n, [], [cfg.render k])
  | .alias k, n => (.ref (cfg.render k), n, [], [cfg.render k])
  | .data v, n => (.lit v, n, [], [])
  | .lit v, n => (.lit v, n, [], [])
  | .list xs, n => let r := resolveArgs cfg parent xs n; (.list r.1, r.2.1, r.2.2.1, r.2.2.2)
  | .tuple xs, n => let r := resolveArgs cfg parent xs n; (.tuple r.1, r.2.1, r.2.2.1, r.2.2.2)
  | .plist xs, n => let r := resolveArgs cfg parent xs n; (.list r.1, r.2.1, r.2.2.1, r.2.2.2)
  | .ptuple xs, n => let r := resolveArgs cfg parent xs n; (.tuple r.1, r.2.1, r.2.2.1, r.2.2.2)
  | .task f kw xs, n =>
    let sub := cfg.subKey parent (n + 1)
    let r := resolveArgs cfg parent xs (n + 1)
    (.ref sub, r.2.1, r.2.2.1 ++ [⟨sub, .fn f, kw, r.1, cfg.sortDedup r.2.2.2⟩], [sub])
def resolveArgs (cfg : FlatCfg κ σ) (parent : σ) : Args κ φ lit → Nat →
    List (Arg σ lit) × Nat × List (Rec σ φ lit) × List σ
  | .nil, n => ([], n, [], [])
  | .cons x xs, n =>
    let r1 := resolve cfg parent x n
    let r2 := resolveArgs cfg parent xs r1.2.1
    (r1.1 :: r2.1, r2.2.1, r1.2.2.1 ++ r2.2.2.1, r1.2.2.2 ++ r2.2.2.2)
end

/-- `_records(key, node)` (no `frisky.Future` branches): the node's own record first, then the
lifted sub-records in the order `_Flattener.extra` collected them. `parent = str(_norm_key(key))`. -/
def records [DecidableEq σ] (cfg : FlatCfg κ σ) (parent : σ) : Node κ φ lit → List (Rec σ φ lit)
  | .alias k =>
    if cfg.render k = parent then [] else [⟨parent, .ident, [], [.ref (cfg.render k)], [cfg.render k]⟩]
  | .data v => [⟨parent, .ident, [], [.lit v], []⟩]
  | .lit v => [⟨parent, .ident, [], [.lit v], []⟩]
  | .list xs =>
    let r := resolveArgs cfg parent xs 0
    ⟨parent, .ident, [], [.list r.1], cfg.sortDedup r.2.2.2⟩ :: r.2.2.1
  | .tuple xs =>
    let r := resolveArgs cfg parent xs 0
    ⟨parent, .ident, [], [.tuple r.1], cfg.sortDedup r.2.2.2⟩ :: r.2.2.1
  | .task f kw xs =>
    let r := resolveArgs cfg parent xs 0
    ⟨parent, .fn f, kw, r.1, cfg.sortDedup r.2.2.2⟩ :: r.2.2.1
  | .taskRef k => [⟨parent, .ident, [], [.ref (cfg.render k)], [cfg.render k]⟩]  -- not produced by dask
  | .plist xs =>
    let r := resolveArgs cfg parent xs 0
    ⟨parent, .ident, [], [.list r.1], cfg.sortDedup r.2.2.2⟩ :: r.2.2.1
  | .ptuple xs =>
    let r := resolveArgs cfg parent xs 0
    ⟨parent, .ident, [], [.tuple r.1], cfg.sortDedup r.2.2.2⟩ :: r.2.2.1

/-! ### evaluation of flat records (what the worker does) -/

mutual
def evalArg (I : Interp φ lit ν) (env : σ → Option ν) : Arg σ lit → Option ν
  | .ref s => env s
  | .lit v => some (I.ofLit v)
  | .list xs => (evalArgL I env xs).map I.mkList
  | .tuple xs => (evalArgL I env xs).map I.mkTuple
def evalArgL (I : Interp φ lit ν) (env : σ → Option ν) : List (Arg σ lit) → Option (List ν)
  | [] => some []
  | a :: as =>
    match evalArg I env a, evalArgL I env as with
    | some v, some vs => some (v :: vs)
    | _, _ => none
end

mutual
def argRefs : Arg σ lit → List σ
  | .ref s => [s]
  | .lit _ => []
  | .list xs => argRefsL xs
  | .tuple xs => argRefsL xs
def argRefsL : List (Arg σ lit) → List σ
  | [] => []
  | a :: as => argRefs a ++ argRefsL as
end

variable [DecidableEq σ]

/-- a record only sees the dependencies it declares -/
def restrict (env : σ → Option ν) (deps : List σ) : σ → Option ν :=
  fun s => if s ∈ deps then env s else none

/-- `identity(x)` returns its single argument -/
def evalRec (I : Interp φ lit ν) (env : σ → Option ν) (r : Rec σ φ lit) : Option ν :=
  match evalArgL I (restrict env r.deps) r.args with
  | none => none
  | some vs =>
    match r.func with
    | .fn f => some (I.apply f r.kw vs)
    | .ident => vs.head?

/-- run records one after the other (each result stored under its key string) -/
def runRecs (I : Interp φ lit ν) : List (Rec σ φ lit) → (σ → Option ν) → (σ → Option ν)
  | [], env => env
  | r :: rs, env => runRecs I rs (fun s => if s = r.key then evalRec I env r else env s)

end flat

/-! ### the concrete Python instance: key strings, `f"{parent}-sub{n}"`, `sorted(set(deps))` -/

/-- a component of a tuple key after the name -/
inductive Comp where
  | int (i : Int)
  | str (s : String)
deriving DecidableEq, Repr

/-- a Python dask key: a bare string or a tuple `(name, *comps)` -/
inductive PKey where
  | bare (name : String)
  | tup (name : String) (comps : List Comp)
deriving DecidableEq, Repr

def Comp.pyStr : Comp → String
  | .int i => toString i
  | .str s => "'" ++ s ++ "'"

/-- `str(key)` -/
def PKey.pyStr : PKey → String
  | .bare n => n
  | .tup n [] => "('" ++ n ++ "',)"
  | .tup n cs => "('" ++ n ++ "', " ++ ", ".intercalate (cs.map Comp.pyStr) ++ ")"

section sorting
variable {σ : Type} [DecidableEq σ]

def insertSorted (lt : σ → σ → Bool) (x : σ) : List σ → List σ
  | [] => [x]
  | y :: ys => if lt x y then x :: y :: ys else if x = y then y :: ys else y :: insertSorted lt x ys

/-- `sorted(set(l))` -/
def sortDedupBy (lt : σ → σ → Bool) (l : List σ) : List σ := l.foldr (insertSorted lt) []

end sorting

/-- the configuration `_Flattener` runs with -/
def pyCfg : FlatCfg PKey String :=
  { render := PKey.pyStr
    subKey := fun p n => p ++ "-sub" ++ toString n
    sortDedup := sortDedupBy (fun a b => decide (a < b)) }

/-! ## The shared-`seen` walk of `_walk_records` -/

section walk
variable {α β : Type} [DecidableEq β]

/-- `stack` has its top at the head (`stack.pop()` / `stack.extend(e.dependencies())`); nodes are
deduplicated by NAME (`e._name in seen`) — two different nodes may carry one name (a `RootAlias`
pin and the raw node it is named after).  Returns `(seen, emitted)` once the stack is empty,
`none` when the fuel runs out. -/
def walk (nm : α → β) (deps : α → List α) : Nat → List α → List β → List α → Option (List β × List α)
  | _, [], seen, out => some (seen, out)
  | 0, _ :: _, _, _ => none
  | f + 1, e :: stack, seen, out =>
    if nm e ∈ seen then walk nm deps f stack seen out
    else walk nm deps f ((deps e).reverse ++ stack) (nm e :: seen) (out ++ [e])

/-- several collections walked one after the other with one shared `seen` -/
def walkAll (nm : α → β) (deps : α → List α) (fuel : Nat) :
    List α → List β → List α → Option (List β × List α)
  | [], seen, out => some (seen, out)
  | r :: roots, seen, out =>
    match walk nm deps fuel [r] seen out with
    | none => none
    | some (seen', out') => walkAll nm deps fuel roots seen' out'

/-- every dependency of every emitted node has a seen name -/
def NameClosed (nm : α → β) (deps : α → List α) (out : List α) (seen : List β) : Prop :=
  ∀ e ∈ out, ∀ d ∈ deps e, nm d ∈ seen

end walk

end Dask.Graph
