/-
Specification vocabulary for chunk normalisation (C16): the simplest statements of "a valid layout",
"largest block", and the ORACLE RELATION under which the byte limit is proved.  Core Lean only.
-/
import DaskArrayModel.Model.Chunks
-- decidable equality of results (only used by the non-vacuity `example`s, via `decide`)
deriving instance DecidableEq for Except

namespace Dask.Chunks
open Dask.Py

/-- a valid layout of one axis: non-empty, non-negative sizes, summing to the axis length -/
def AxisOK (l : List Int) (s : Int) : Prop := l ≠ [] ∧ (∀ x ∈ l, 0 ≤ x) ∧ isum l = s

/-- one valid layout per axis (same rank) -/
inductive AllAxesOK : List (List Int) → List Int → Prop
  | nil : AllAxesOK [] []
  | cons {l : List Int} {s : Int} {ls : List (List Int)} {ss : List Int} :
      AxisOK l s → AllAxesOK ls ss → AllAxesOK (l :: ls) (s :: ss)

/-- number of elements of the largest block of a layout: `∏ max(axis chunks)` -/
def blockElems : List (List Int) → Int
  | [] => 1
  | l :: ls => imax l * blockElems ls

/-- ORACLE RELATION along the recursion of `autoNoPrev`: at every level that is reached, the integer part
`isize` of the float root satisfies `isize ^ #autos * largest_block * itemsize ≤ limit`
(true of `floor (x ** (1/k))` in exact arithmetic; checked at run time on the recovered floats). -/
def orcOK (limit itemsize : Int) : List (Nat × Bool) → List Spec → List Int → Bool
  | [], _, _ => true
  | (isize, exact) :: rest, chunks, shape =>
    decide (((isize : Int) ^ (numAutos chunks)) * largestBlock chunks * itemsize ≤ limit) &&
    (!(anySmall isize exact chunks shape) || orcOK limit itemsize rest (fillSmall isize exact chunks shape) shape)

/-- every fixed (non-auto) axis has a non-negative largest block -/
def FixedNonneg (chunks : List Spec) : Prop := ∀ c ∈ chunks, isAuto c = false → 0 ≤ specMax c

end Dask.Chunks
