/-
L1 model of the rechunk *planner* in dask_array/_rechunk.py:
`_largest_block_size`, `_number_of_blocks`, `estimate_graph_size`, `_max_overlap`,
`find_merge_rechunk`, `find_split_rechunk`, `_bound_degree`, the `plan_rechunk` loop,
`intersect_chunks` (n-d product of the per-axis crosswalk), the per-axis resolution of an
explicit rechunk spec (`Rechunk.chunks` for None / -1 / int / tuple), `_get_chunks`,
`_balance_chunksizes`, and the data-level reading of the crosswalk (`rechunkStep`).

What is modelled and how
* Every integer computation mirrors the Python line by line (same running variables).
* Every FLOAT-derived choice is an ORACLE input of the model, never computed:
    - `sorted_candidates` of `find_merge_rechunk` (the float sort key)      → `PassOracle.order`
    - `chunk_limit = int(block_size_limit * largest_width / largest_block_size)` → `PassOracle.chunkLimit[dim]`
    - `max_number = int(len(old[dim]) * graph_size_limit / graph_size)`      → `PassOracle.maxNumber[dim]`
    - `nsteps = ceil(log(degree) / log(degree_limit))`                       → `BDOracle.nsteps`
    - `count = round(no * (nn / no) ** (t / nsteps))` (before the clamp)     → `BDOracle.counts[t-1][axis]`
  The relations the oracle values must satisfy are `PassOracle`-level predicates
  (`orderOK`, `clOK`) evaluated by the driver and reported as `rel=1/0`.
* Comparisons of an integer with the float budget `max(limit / itemsize, lo, ln)` are exact in
  Python (int/float comparison is exact) and `x ≤ r ↔ x ≤ ⌊r⌋` for integer `x`, so the budget is
  the integer `Budget.bint = max (limit // itemsize) lo ln`.
* `graph_size_effect[dim] <= 1.0` is `len(new[dim]) ≤ len(old[dim])` (exact for counts < 2^52).
* `threshold` is an integer here (the configuration value is an int), so
  `graph_size_threshold` and `graph_size * threshold` are exact.
* The `while True` of `plan_rechunk` takes FUEL (one unit per iteration) and one `PassOracle`
  per iteration; running out of either gives `none`.  Termination is NOT proved.
* A Python exception (`ZeroDivisionError` for `chunk_limit`/`max_number` < 1) is `none`.
* The model mirrors the tree AFTER the two fix commits bb7113a (zero-width chunkings are returned
  unplanned) and 28665a6 (`_bound_degree` drops an interpolated step larger than both endpoints).
* `max(())` / `reduce(mul, ())` raise in Python; `imax [] = 0`, `iprod [] = 1` here — callers
  (`plan_rechunk`) never reach them (`not all(new_chunks)` / `len(new_chunks) <= 1` guards).
Core Lean only.
-/
import DaskArrayModel.Model.Rechunk
import DaskArrayModel.Model.RechunkSpec
namespace Dask.RechunkPlan
open Dask.Py Dask.Rechunk

/-- Python `max(c)` of a chunk tuple (entries are ≥ 0; `max(())` raises in Python). -/
def imax : List Int → Int
  | [] => 0
  | x :: xs => max x (imax xs)

def imin : List Int → Int
  | [] => 0
  | [x] => x
  | x :: xs => min x (imin xs)

/-- `_largest_block_size(chunks)` -/
def largestBlock (chunks : List (List Int)) : Int := iprod (chunks.map imax)

/-- `_number_of_blocks(chunks)` -/
def numberOfBlocks (chunks : List (List Int)) : Int := iprod (chunks.map (fun c => (c.length : Int)))

def egsAxis (oc nc : List Int) : Int :=
  if oc ≠ nc then (oc.length : Int) + nc.length - 1 else oc.length

/-- `estimate_graph_size(old_chunks, new_chunks)` -/
def estimateGraphSize (old new : List (List Int)) : Int := iprod (List.zipWith egsAxis old new)

def lmaxNat : List Nat → Nat
  | [] => 0
  | x :: xs => max x (lmaxNat xs)

/-- `max(len(ins) for ins in axis)` for one axis of `old_to_new(from, to)` -/
def maxOverlapAxis (frm to : List Int) : Int := (lmaxNat ((oldToNew1d frm to).map List.length) : Nat)

/-- `_max_overlap(from_chunks, to_chunks)` -/
def maxOverlap (frm to : List (List Int)) : Int := iprod (List.zipWith maxOverlapAxis frm to)

/-! ### the nondeterministic step relation -/

/-- One axis of one plan step, for SOME oracle values: the closure of `{old, new,
divide_to_width(new, w)}` under `merge_to_number(·, k)` (`w, k ≥ 1`).  `find_split_rechunk`
produces `merge_to_number(new, k)`, `find_merge_rechunk` produces `new` or
`divide_to_width(new, w)` or keeps the current axis, `_bound_degree` produces
`merge_to_number(prev or step, count)`. -/
inductive StepAxis (old new : List Int) : List Int → Prop
  | old : StepAxis old new old
  | new : StepAxis old new new
  | divide (w : Int) (hw : 1 ≤ w) : StepAxis old new (divideToWidth new w)
  | merge (c : List Int) (k : Int) (hk : 1 ≤ k) : StepAxis old new c → StepAxis old new (mergeToNumber c k)

/-- every axis of a step is related to the corresponding axes of old/new -/
def StepOK : List (List Int) → List (List Int) → List (List Int) → Prop
  | [], [], [] => True
  | o :: os, n :: ns, c :: cs => StepAxis o n c ∧ StepOK os ns cs
  | _, _, _ => False

/-- a plan: a non-empty list of steps, each `StepOK`, the last one being `new` -/
def PlanOK (old new : List (List Int)) (plan : List (List (List Int))) : Prop :=
  (∀ s ∈ plan, StepOK old new s) ∧ plan.getLast? = some new

/-! #### decidable bounded membership (used by the correspondence check) -/

def dedup (l : List (List Int)) : List (List Int) :=
  l.foldl (fun acc x => if acc.contains x then acc else acc ++ [x]) []

/-- level 0: `old`, `new`, all `divide_to_width(new, w)` for `1 ≤ w ≤ max(new)` -/
def reachBase (old new : List Int) : List (List Int) :=
  dedup (old :: new :: (List.range (imax new).toNat).map (fun (i : Nat) => divideToWidth new ((i : Int) + 1)))

/-- one more `merge_to_number(c, k)`, `1 ≤ k ≤ len(c)` -/
def reachNext (cs : List (List Int)) : List (List Int) :=
  dedup (cs ++ cs.flatMap (fun c => (List.range c.length).map (fun (i : Nat) => mergeToNumber c ((i : Int) + 1))))

def reachSet (old new : List Int) : Nat → List (List Int)
  | 0 => reachBase old new
  | d + 1 => reachNext (reachSet old new d)

/-- smallest depth `≤ maxDepth` at which `c` is found -/
def reachDepth (old new c : List Int) (maxDepth : Nat) : Option Nat :=
  (List.range (maxDepth + 1)).find? (fun d => (reachSet old new d).contains c)

/-! ### `find_merge_rechunk` -/

structure Budget where
  limBytes : Int
  itemsize : Int
  lo : Int   -- largest old block (elements)
  ln : Int   -- largest new block (elements)
deriving Repr

/-- `⌊max(limit / itemsize, lo, ln)⌋` -/
def Budget.bint (b : Budget) : Int := max (max (pyDiv b.limBytes b.itemsize) b.lo) b.ln

structure PassOracle where
  order : List Nat         -- `sorted_candidates`
  chunkLimit : List Int    -- by dim; read only where the else-branch runs
  maxNumber : List Int     -- by dim; read only where `find_split_rechunk` reaches the line
deriving Repr

structure FMState where
  chunks : List (List Int)
  lbs : Int
  hit : Bool
deriving Repr, DecidableEq

/-- the checked float relation for `chunk_limit` (`chunk_limit ≤ B·largest_width / largest_block_size`
exactly, with `B = max(limit/itemsize, lo, ln)`), and `chunk_limit ≥ 1` -/
def clOK (b : Budget) (cl lw lbs : Int) : Bool :=
  decide (1 ≤ cl) && decide (cl * lbs * b.itemsize ≤ max (max b.limBytes (b.lo * b.itemsize)) (b.ln * b.itemsize) * lw)

/-- body of `for dim in sorted_candidates` -/
def findMergeStep (old new : List (List Int)) (b : Budget) (cl : List Int)
    (st : Option (FMState × Bool)) (dim : Nat) : Option (FMState × Bool) :=
  match st with
  | none => none
  | some (st, rel) =>
    let oc := old.getD dim []
    let nc := new.getD dim []
    let olw := imax oc
    let nlw := imax nc
    let newLbs := pyDiv (st.lbs * nlw) (if olw = 0 then 1 else olw)
    if newLbs ≤ b.bint then
      some ({ chunks := st.chunks.set dim nc, lbs := newLbs, hit := st.hit }, rel)
    else
      let w := cl.getD dim 0
      if w < 1 then none else
      let rel := rel && clOK b w olw st.lbs
      let c := divideToWidth nc w
      if c.length ≤ oc.length then
        some ({ chunks := st.chunks.set dim c, lbs := pyDiv (st.lbs * imax c) olw, hit := true }, rel)
      else
        some ({ st with hit := true }, rel)

/-- merge candidates: dims with `len(new[dim]) / len(old[dim]) <= 1.0` -/
def mergeCandidateDims (old new : List (List Int)) : List Nat :=
  (List.range old.length).filter (fun d => (new.getD d []).length ≤ (old.getD d []).length)

/-- `sorted_candidates` is a reordering of the merge candidates (no repetition, same members) -/
def orderOK (old new : List (List Int)) (order : List Nat) : Bool :=
  let cands := mergeCandidateDims old new
  decide order.Nodup && order.all (fun d => cands.contains d) && cands.all (fun d => order.contains d)

/-- `find_merge_rechunk(old_chunks, new_chunks, block_size_limit)`; second component: the oracle
relations held -/
def findMerge (old new : List (List Int)) (b : Budget) (o : PassOracle) : Option (FMState × Bool) :=
  o.order.foldl (findMergeStep old new b o.chunkLimit)
    (some ({ chunks := old, lbs := largestBlock old, hit := false }, orderOK old new o.order))

/-! ### `find_split_rechunk` -/

/-- `for dim in range(ndim)` with `break`; `dims` are the remaining dims -/
def findSplitLoop (old new : List (List Int)) (gsl : Int) (mn : List Int) :
    List Nat → List (List Int) → Option (List (List Int))
  | [], chunks => some chunks
  | dim :: rest, chunks =>
    let gs := estimateGraphSize chunks new
    if gs > gsl then some chunks else
    let oc := old.getD dim []
    let nc := new.getD dim []
    if oc.length > nc.length then findSplitLoop old new gsl mn rest chunks else
    let k := mn.getD dim 0
    if k < 1 then none else
    let c := mergeToNumber nc k
    if oc.length ≤ c.length ∧ imax c ≤ imax oc then findSplitLoop old new gsl mn rest (chunks.set dim c)
    else findSplitLoop old new gsl mn rest chunks

def findSplit (old new : List (List Int)) (gsl : Int) (o : PassOracle) : Option (List (List Int)) :=
  findSplitLoop old new gsl o.maxNumber (List.range old.length) old

/-! ### `_bound_degree` -/

structure BDOracle where
  nsteps : Nat
  counts : List (List Int)   -- `counts[t-1][axis]` = `round(...)` before the clamp
deriving Repr

def bdAxis (oc nc : List Int) (cnt : Int) : List Int :=
  let no : Int := oc.length
  let nn : Int := nc.length
  if no = nn then nc else
    let count := min (max cnt (min no nn)) (max no nn)
    mergeToNumber (if no > nn then oc else nc) count

def zipWith3 {α β γ δ} (f : α → β → γ → δ) : List α → List β → List γ → List δ
  | a :: as, b :: bs, c :: cs => f a b c :: zipWith3 f as bs cs
  | _, _, _ => []

/-- `for t in range(1, nsteps)`: `rows` are the remaining rows of counts; `sb` is `size_budget`.
An interpolated step is kept only if it makes progress AND its largest block is within
`size_budget = max(largest(old), largest(new))` of ITS OWN endpoints (commit 28665a6). -/
def bdLoop (old new : List (List Int)) (sb : Int) : List (List Int) → List (List Int) → List (List (List Int)) → List (List (List Int))
  | [], _, steps => steps
  | row :: rows, prev, steps =>
    let inter := zipWith3 bdAxis old new (row ++ List.replicate (old.length - row.length) 0)
    if inter ≠ prev ∧ largestBlock inter ≤ sb then bdLoop old new sb rows inter (steps ++ [inter])
    else bdLoop old new sb rows prev steps

/-- `_bound_degree(old_chunks, new_chunks, degree_limit)` -/
def boundDegree (old new : List (List Int)) (degreeLimit : Int) (o : BDOracle) : List (List (List Int)) :=
  let dl := max 2 degreeLimit
  let degree := max (maxOverlap old new) (maxOverlap new old)
  if degree ≤ dl then [new] else
    let rows := (o.counts ++ List.replicate (o.nsteps - 1 - o.counts.length) []).take (o.nsteps - 1)
    let sb := max (largestBlock old) (largestBlock new)
    let steps := bdLoop old new sb rows old []
    if steps.getLast? ≠ some new then steps ++ [new] else steps

/-- does this `_bound_degree` call consult its oracle? -/
def bdNeedsOracle (old new : List (List Int)) (degreeLimit : Int) : Bool :=
  decide (max (maxOverlap old new) (maxOverlap new old) > max 2 degreeLimit)

/-! ### `plan_rechunk` -/

/-- the `while True` loop.  State: `current`, `first_pass`, `steps`; returns `(steps, rel)`. -/
def planLoop (new : List (List Int)) (b : Budget) (threshold gst : Int) :
    Nat → List PassOracle → List (List Int) → Bool → List (List (List Int)) → Bool →
    Option (List (List (List Int)) × Bool)
  | 0, _, _, _, _, _ => none
  | fuel + 1, os, current, first, steps, rel =>
    let gs := estimateGraphSize current new
    if gs < gst then some (steps, rel) else
    match os with
    | [] => none
    | o :: os =>
      let chunks0 := if first then some current else findSplit current new (gs * threshold) o
      match chunks0 with
      | none => none
      | some chunks0 =>
        match findMerge chunks0 new b o with
        | none => none
        | some (st, r) =>
          let chunks := st.chunks
          let rel := rel && r
          if (chunks = current ∧ ¬ first) ∨ chunks = new then some (steps, rel) else
          let steps := if chunks ≠ current then steps ++ [chunks] else steps
          if ¬ st.hit then some (steps, rel) else
          planLoop new b threshold gst fuel os chunks false steps rel

/-- the planner steps before the degree pass (`steps + [new_chunks]`) -/
def plannerSteps (old new : List (List Int)) (itemsize threshold limBytes : Int) (fuel : Nat)
    (os : List PassOracle) : Option (List (List (List Int)) × Bool) :=
  if new.any (fun c => c.isEmpty) then some ([new], true)
  else if new.length ≤ 1 then some ([new], true)
  else
    let b : Budget := ⟨limBytes, itemsize, largestBlock old, largestBlock new⟩
    let gst := threshold * (numberOfBlocks old + numberOfBlocks new)
    match planLoop new b threshold gst fuel os old true [] true with
    | none => none
    | some (steps, rel) => some (steps ++ [new], rel)

/-- the final pass: `for step in steps: limited.extend(_bound_degree(prev, step, degree_limit))`.
One `BDOracle` is consumed per call that needs it. -/
def degreePass (degreeLimit : Int) : List BDOracle → List (List Int) → List (List (List Int)) → Option (List (List (List Int)))
  | _, _, [] => some []
  | os, prev, step :: rest =>
    if bdNeedsOracle prev step degreeLimit then
      match os with
      | [] => none
      | o :: os =>
        match degreePass degreeLimit os step rest with
        | none => none
        | some r => some (boundDegree prev step degreeLimit o ++ r)
    else
      match degreePass degreeLimit os step rest with
      | none => none
      | some r => some ([step] ++ r)

/-- `has_zeros`: some old or new chunk is zero-width (commit bb7113a: such chunkings are not planned) -/
def hasZeros (old new : List (List Int)) : Bool :=
  (old ++ new).any (fun dim => dim.any (fun c => c == 0))

/-- `plan_rechunk(old_chunks, new_chunks, itemsize, threshold, block_size_limit)` with
`array.rechunk.degree-limit = degreeLimit` -/
def planRechunk (old new : List (List Int)) (itemsize threshold limBytes degreeLimit : Int) (fuel : Nat)
    (os : List PassOracle) (bos : List BDOracle) : Option (List (List (List Int)) × Bool) :=
  if new.any (fun c => c.isEmpty) || hasZeros old new then some ([new], true) else
  match plannerSteps old new itemsize threshold limBytes fuel os with
  | none => none
  | some (steps, rel) =>
    match degreePass degreeLimit bos old steps with
    | none => none
    | some plan => some (plan, rel)

/-! ### n-d crosswalk (`intersect_chunks`) -/

/-- `itertools.product(*lists)` (last index fastest) -/
def cartesian {α} : List (List α) → List (List α)
  | [] => [[]]
  | l :: ls => l.flatMap (fun a => (cartesian ls).map (fun t => a :: t))

/-- `intersect_chunks(old, new)` (known sizes): for every new block (C order) the list of
contributions (C order), each one `Piece` per axis. -/
def intersectChunks (old new : List (List Int)) : List (List (List Piece)) :=
  (cartesian (List.zipWith oldToNew1d old new)).map cartesian

/-! ### data-level reading of the crosswalk (1-d) -/

section Data
variable {α : Type}

/-- block `i` of `xs` under chunking `c` -/
def blockOf (c : List Int) (xs : List α) (i : Nat) : List α :=
  (xs.drop (oldStart c i).toNat).take (c.getD i 0).toNat

/-- all blocks of `xs` under chunking `c` -/
def blocks (c : List Int) (xs : List α) : List (List α) :=
  (List.range c.length).map (blockOf c xs)

/-- `getitem(old_block, slice(s, e))` -/
def pieceData (bs : List (List α)) (p : Piece) : List α :=
  ((bs.getD p.idx.toNat []).drop p.s.toNat).take (p.e - p.s).toNat

/-- new block `j` = concatenation of its pieces -/
def assembleBlock (old new : List Int) (bs : List (List α)) (j : Nat) : List α :=
  ((oldToNew1d old new).getD j []).flatMap (pieceData bs)

/-- one rechunk stage on blocks (`_compute_rechunk`, one axis) -/
def rechunkStep (old new : List Int) (bs : List (List α)) : List (List α) :=
  (List.range new.length).map (assembleBlock old new bs)

/-- a chain of stages `old → p₁ → p₂ → …` -/
def rechunkChain (old : List Int) : List (List Int) → List (List α) → List (List α)
  | [], bs => bs
  | c :: cs, bs => rechunkChain c cs (rechunkStep old c bs)

end Data

/-! ### explicit rechunk specs (`Rechunk.chunks` for None / -1 / int / tuple entries) -/

inductive AxisSpec
  | keep                       -- `None`, or axis missing from a dict spec
  | full                       -- `-1`
  | size (k : Int)             -- an int
  | explicit (l : List Int)    -- a tuple
deriving Repr

/-- `_get_chunks(n, chunksize)` = `blockdims_from_blockshape` on one axis -/
def getChunks (n chunksize : Int) : List Int :=
  List.replicate (pyDiv n chunksize).toNat chunksize ++ (if pyMod n chunksize ≠ 0 then [pyMod n chunksize] else [])

/-- one axis of `normalize_chunks(resolved_spec, shape, previous_chunks=x.chunks)` for the
non-`auto` kinds.  An int spec on an empty axis gives `(0,)`. -/
def resolveAxis (oldc : List Int) : AxisSpec → List Int
  | .keep => oldc
  | .full => [isum oldc]
  | .size k => if isum oldc = 0 then [0] else getChunks (isum oldc) k
  | .explicit l => l

/-! ### `_balance_chunksizes` -/

def sortInts (l : List Int) : List Int := l.mergeSort (fun a b => decide (a ≤ b))

/-- `np.median(chunks).astype(int)` for positive ints -/
def medianInt (l : List Int) : Int :=
  let s := sortInts l
  let n := s.length
  if n % 2 = 1 then s.getD (n / 2) 0 else pyDiv (s.getD (n / 2 - 1) 0 + s.getD (n / 2) 0) 2

/-- first index of a minimal entry (`np.argmin`) -/
def argminFrom : List Int → Nat → Nat → Int → Nat
  | [], _, best, _ => best
  | x :: xs, i, best, bv => if x < bv then argminFrom xs (i + 1) i x else argminFrom xs (i + 1) best bv

def argmin : List Int → Nat
  | [] => 0
  | x :: xs => argminFrom xs 1 0 x

/-- `_balance_chunksizes(chunks)` -/
def balanceChunksizes (chunks : List Int) : List Int :=
  if imin chunks = 0 then chunks else
  let median := medianInt chunks
  let eps := pyDiv median 2
  let nChunks : Int := if 2 * imin chunks ≤ imax chunks then (chunks.length : Int) - 1 else chunks.length
  let total := isum chunks
  let cands := (rangeList (median - eps) (median + eps + 1) 1).map (fun len => getChunks total len)
  let possible := cands.filter (fun c => (c.length : Int) = nChunks)
  if possible.isEmpty then chunks else
  let diffs := possible.map (fun c => imax c - imin c)
  possible.getD (argmin diffs) chunks

end Dask.RechunkPlan
