/-
L1/L2 model of n-D indexing: `normalize_index` / `replace_ellipsis` / `check_index` /
`posify_index` (slicing/_utils.py), the n-D lifting of the per-axis slice plan
(`SliceSlicesIntegers.chunks` / `._layer`, `slice_with_newaxes`, slicing/_basic.py), `.blocks[...]`
(slicing/_blocks.py) and the integer logic of `take` (`_compute_indexer`, slicing/_vindex.py;
`Shuffle._new_chunks`, `_shuffle` identity test, _shuffle.py).

Each def mirrors the Python control flow (same branches, same running variables; loops are
structural recursions).  Core Lean only.  Tied to the implementation by harness/props/C12.py.

The SPEC (`npExpand`, `npAxes`, `npIndex`) is NumPy's meaning of an index tuple, written without
any of the normalisation machinery.
-/
import DaskArrayModel.Model.SliceSpec
namespace Dask.Indexing
open Dask.Py Dask.Py.PySlice Dask.Slicing

/-- One item of an index tuple.  `int`, `slc`, `none_`, `ellipsis` are NumPy's *basic* items;
`lst` is a 1-d integer list/array on one axis (what `normalize_index` posifies, `take` consumes
and `.blocks` accepts). -/
inductive Ix
  | int (i : Int)
  | slc (s : PySlice)
  | none_
  | ellipsis
  | lst (l : List Int)
deriving DecidableEq, Repr, Inhabited

namespace Ix
def isNone : Ix → Bool | none_ => true | _ => false
def isEllipsis : Ix → Bool | ellipsis => true | _ => false
def isInt : Ix → Bool | int _ => true | _ => false
def isLst : Ix → Bool | lst _ => true | _ => false
/-- items that consume one input axis -/
def consumes : Ix → Bool | int _ => true | slc _ => true | lst _ => true | _ => false
/-- NumPy basic item (no list) -/
def basic : Ix → Bool | lst _ => false | _ => true
end Ix

/-! ### SPEC: NumPy's meaning of an index tuple -/

/-- replace the first `Ellipsis` by `fill` (the list is unchanged when there is none). -/
def replaceFirst (fill : List Ix) : List Ix → List Ix
  | [] => []
  | .ellipsis :: rest => fill ++ rest
  | x :: rest => x :: replaceFirst fill rest

/-- NumPy: at most one `Ellipsis`; the items that consume an axis may not outnumber the axes;
the `Ellipsis` (an implicit trailing one when absent) stands for as many `:` as are needed to
reach `n` axes. -/
def npExpand (n : Nat) (idx : List Ix) : Except Err (List Ix) :=
  if idx.countP Ix.isEllipsis > 1 then .error .indexError
  else if idx.countP Ix.consumes > n then .error .indexError
  else
    let fill := List.replicate (n - idx.countP Ix.consumes) (Ix.slc colon)
    .ok (if idx.any Ix.isEllipsis then replaceFirst fill idx else idx ++ fill)

/-- NumPy on an expanded tuple, item by item against the axes:
 * `None`: a new output axis of length 1 (no input axis is consumed);
 * an integer `i` on an axis of length `d`: `IndexError` unless `-d ≤ i < d`; the axis is fixed at
   `i` (`i + d` when negative) and produces no output axis;
 * a slice: `ValueError` for a zero step; selects `sel s d = range(*s.indices(d))`;
 * a list: `IndexError` unless every entry is in `[-d, d)`; selects the (posified) entries in order.
Result: per input axis the selected positions, and the output shape.  The output array is the
input read at the cartesian product of the per-axis positions (C order) reshaped to the output
shape — this pair determines it.  (For `lst` this is the orthogonal, per-axis meaning; it is
NumPy's meaning when the tuple holds a single list and no integer item separated from it, and
it is what `.blocks` does on every axis.) -/
def npAxes : List Ix → List Int → Except Err (List (List Int) × List Nat)
  | [], _ => .ok ([], [])
  | .none_ :: rest, shape =>
    match npAxes rest shape with
    | .ok r => .ok (r.1, 1 :: r.2)
    | .error e => .error e
  | .ellipsis :: _, _ => .error .indexError
  | _ :: _, [] => .error .indexError
  | .int i :: rest, d :: shape =>
    if -d ≤ i ∧ i < d then
      match npAxes rest shape with
      | .ok r => .ok ([posifyInt d i] :: r.1, r.2)
      | .error e => .error e
    else .error .indexError
  | .slc s :: rest, d :: shape =>
    if s.stp = 0 then .error .valueError
    else
      match npAxes rest shape with
      | .ok r => .ok (sel s d :: r.1, (sel s d).length :: r.2)
      | .error e => .error e
  | .lst l :: rest, d :: shape =>
    if l.all (fun i => decide (-d ≤ i ∧ i < d)) then
      match npAxes rest shape with
      | .ok r => .ok (l.map (posifyInt d) :: r.1, l.length :: r.2)
      | .error e => .error e
    else .error .indexError

/-- NumPy's `x[idx]` for `x.shape = shape`: selected positions per input axis and output shape. -/
def npIndex (idx : List Ix) (shape : List Int) : Except Err (List (List Int) × List Nat) :=
  match npExpand shape.length idx with
  | .ok full => npAxes full shape
  | .error e => .error e

/-! ### `replace_ellipsis`, `normalize_index` -/

/-- `replace_ellipsis(n, index)`: only the FIRST `Ellipsis` is expanded; `extra_dimensions` is
computed from the whole tuple (a second `Ellipsis` counts as an ordinary item) and a negative
count repeats nothing. -/
def replaceEllipsis (n : Nat) (idx : List Ix) : List Ix :=
  if idx.any Ix.isEllipsis then
    let extra : Int := (n : Int) - ((idx.length : Int) - (idx.countP Ix.isNone : Int) - 1)
    replaceFirst (List.replicate extra.toNat (Ix.slc colon)) idx
  else idx

/-- the `none_shape` loop: each item paired with the axis length it indexes (`None` ↦ `None`).
Running out of axes cannot happen after the "Too many indices" test (Python would raise there). -/
def noneShape : List Ix → List Int → List (Ix × Option Int)
  | [], _ => []
  | .none_ :: rest, shape => (.none_, none) :: noneShape rest shape
  | x :: rest, [] => (x, none) :: noneShape rest []
  | x :: rest, d :: shape => (x, some d) :: noneShape rest shape

/-- `check_index(axis, ind, dimension)` for one item (known dimension). -/
def checkItem : Ix × Option Int → Except Err Unit
  | (_, none) => .ok ()
  | (.int i, some d) => if i ≥ d ∨ i < -d then .error .indexError else .ok ()
  | (.lst l, some d) =>
    if l.any (fun i => decide (i ≥ d)) ∨ l.any (fun i => decide (i < -d)) then .error .indexError
    else .ok ()
  | (.slc _, some _) => .ok ()
  | (.none_, some _) => .ok ()
  | (.ellipsis, some _) => .error .typeError   -- `Ellipsis >= dimension`

def checkAll : List (Ix × Option Int) → Except Err Unit
  | [] => .ok ()
  | p :: rest =>
    match checkItem p with
    | .ok _ => checkAll rest
    | .error e => .error e

/-- `normalize_slice(idx, dim)` on one item (raises `ValueError` through `slice.indices` for a
zero step). -/
def normSlice1 : Ix × Option Int → Except Err (Ix × Option Int)
  | (.slc s, some d) =>
    if s.stp = 0 then .error .valueError else .ok (.slc (normalizeSlice s d), some d)
  | p => .ok p

/-- `tuple(map(normalize_slice, idx, none_shape))`: the first zero step from the left raises. -/
def normSlices : List (Ix × Option Int) → Except Err (List (Ix × Option Int))
  | [] => .ok []
  | p :: rest =>
    match normSlice1 p with
    | .error e => .error e
    | .ok q =>
      match normSlices rest with
      | .ok r => .ok (q :: r)
      | .error e => .error e

/-- `posify_index(none_shape, idx)`. -/
def posifyItem : Ix × Option Int → Ix
  | (.int i, some d) => .int (posifyInt d i)
  | (.lst l, some d) => .lst (l.map (posifyInt d))
  | (x, _) => x

/-- `normalize_index(idx, shape)` for integer/slice/None/Ellipsis/integer-list items and a
known shape. -/
def normalizeIndex (idx : List Ix) (shape : List Int) : Except Err (List Ix) :=
  let idx := replaceEllipsis shape.length idx
  let nSliced := idx.countP (fun i => !i.isNone)
  let idx := idx ++ List.replicate (shape.length - nSliced) (Ix.slc colon)
  if (idx.filter (fun i => !i.isNone)).length > shape.length then .error .indexError
  else
    let al := noneShape idx shape
    match checkAll al with
    | .error e => .error e
    | .ok _ =>
      match normSlices al with
      | .error e => .error e
      | .ok al' => .ok (al'.map posifyItem)

/-- SPEC vocabulary: `idx` is in the normal form `normalize_index` promises for `shape`:
item by item against the axes, integers in `[0, d)`, slices in the image of `normalize_slice`
(for the axis length), list entries in `[0, d)`, no `Ellipsis`. -/
def NormalFor : List Ix → List Int → Prop
  | [], _ => True
  | .none_ :: rest, shape => NormalFor rest shape
  | .ellipsis :: _, _ => False
  | _ :: _, [] => False
  | .int i :: rest, d :: shape => (0 ≤ i ∧ i < d) ∧ NormalFor rest shape
  | .slc s :: rest, d :: shape => (∃ s0 : PySlice, s0.stp ≠ 0 ∧ s = normalizeSlice s0 d) ∧ NormalFor rest shape
  | .lst l :: rest, d :: shape => (∀ i ∈ l, 0 ≤ i ∧ i < d) ∧ NormalFor rest shape

/-! ### n-D lifting of the per-axis plan: `SliceSlicesIntegers` -/

/-- `itertools.product(*ls)` (C order: last factor fastest). -/
def cart {α} : List (List α) → List (List α)
  | [] => [[]]
  | l :: ls => l.flatMap (fun a => (cart ls).map (fun t => a :: t))

/-- a per-block local index: a slice, or an offset for an integer axis. -/
inductive Loc
  | slc (s : PySlice)
  | int (i : Int)
deriving DecidableEq, Repr, Inhabited

/-- `sorted(_slice_1d(shape, chunks, index).items())` for one axis. -/
def blockSlices1 (lengths : List Int) : Ix → List (Nat × Loc)
  | .int i => let r := slice1dInt lengths i; [(r.1, .int r.2)]
  | .slc s => (sortByKey (slice1d (isum lengths) lengths s)).map (fun p => (p.1, .slc p.2))
  | _ => []

/-- the per-axis factor of `out_names`: `range(len(d))[::-1] if i.step and i.step < 0 else
range(len(d))`, for the non-integer axes only. -/
def outRange1 (lengths : List Int) : Ix → Option (List Nat)
  | .slc s =>
    let n := (blockSlices1 lengths (.slc s)).length
    match s.step with
    | some c => if c ≠ 0 ∧ c < 0 then some (List.range n).reverse else some (List.range n)
    | none => some (List.range n)
  | _ => none

def zip3 {α β γ} : List α → List β → List γ → List (α × β × γ)
  | a :: as, b :: bs, c :: cs => (a, b, c) :: zip3 as bs cs
  | _, _, _ => []

/-- `SliceSlicesIntegers._layer`: `(out block, in block, per-axis local indices)` triples in
the order of `zip(out_names, in_names, all_slices)`. `index` has one int/slice per axis. -/
def ssiLayer (chunks : List (List Int)) (index : List Ix) : List (List Nat × List Nat × List Loc) :=
  let bs := List.zipWith blockSlices1 chunks index
  let inNames := cart (bs.map (fun s => s.map (·.1)))
  let outNames := cart ((List.zipWith outRange1 chunks index).filterMap id)
  let allSlices := cart (bs.map (fun s => s.map (·.2)))
  zip3 outNames inNames allSlices

/-- SPEC vocabulary: the wiring of one axis — `(output block number if the axis survives,
input block, local index)`, one cell per visited input block. -/
def axisCells (lengths : List Int) (ix : Ix) : List (Option Nat × Nat × Loc) :=
  match outRange1 lengths ix with
  | some o => (o.map some).zip (blockSlices1 lengths ix)
  | none => (blockSlices1 lengths ix).map (fun p => (none, p))

/-- a grid cell (one `axisCells` entry per axis) as `_layer` writes it:
`(out block, in block, local indices)`. -/
def splitCell (t : List (Option Nat × Nat × Loc)) : List Nat × List Nat × List Loc :=
  (t.filterMap (fun c => c.1), t.map (fun c => c.2.1), t.map (fun c => c.2.2))

/-- `SliceSlicesIntegers.chunks`. -/
def ssiChunks : List (List Int) → List Ix → List (List Int)
  | lengths :: cs, .slc s :: is => newBlockdim (isum lengths) lengths s :: ssiChunks cs is
  | _ :: cs, .int _ :: is => ssiChunks cs is
  | _, _ => []

/-- the `where_none` list of `slice_with_newaxes`: position of each `None` minus the number of
integers before it. -/
def whereNoneFrom (pos ints : Nat) : List Ix → List Nat
  | [] => []
  | .none_ :: rest => (pos - ints) :: whereNoneFrom (pos + 1) ints rest
  | .int _ :: rest => whereNoneFrom (pos + 1) (ints + 1) rest
  | _ :: rest => whereNoneFrom (pos + 1) ints rest

def whereNone (index : List Ix) : List Nat := whereNoneFrom 0 0 index

def insertAt {α} (l : List α) (k : Nat) (a : α) : List α := l.take k ++ a :: l.drop k

/-- `ExpandDims.chunks`: `for ax in sorted(axes): chunks.insert(ax, (1,))` (`where_none` is
already ascending). -/
def expandDims (axes : List Nat) (chunks : List (List Int)) : List (List Int) :=
  axes.foldl (fun c ax => insertAt c ax [1]) chunks

/-- `x[idx].chunks` for a basic index on an array with the given chunks
(`Array.__getitem__` → `normalize_index` → `slice_array` → `slice_with_newaxes` →
`SliceSlicesIntegers` → `ExpandDims`). -/
def getitemChunks (chunks : List (List Int)) (idx : List Ix) : Except Err (List (List Int)) :=
  match normalizeIndex idx (chunks.map isum) with
  | .error e => .error e
  | .ok index =>
    let index2 := index.filter (fun i => !i.isNone)
    .ok (expandDims (whereNone index) (ssiChunks chunks index2))

/-- the same chunks written directly: item by item (`None` ↦ `(1,)`, integer ↦ no axis,
slice ↦ `new_blockdim`). -/
def outChunks : List (List Int) → List Ix → List (List Int)
  | cs, .none_ :: is => [1] :: outChunks cs is
  | lengths :: cs, .slc s :: is => newBlockdim (isum lengths) lengths s :: outChunks cs is
  | _ :: cs, .int _ :: is => outChunks cs is
  | _, _ => []

/-! ### what the n-D block plan reads (SPEC vocabulary for `getitem_basic_blocks`) -/

/-- Global positions read on one axis, one list per output block, in output-block order
(`orderedPlan`: ascending input block for a positive step, descending for a negative one — the
numbering of `out_names` in `_layer`); an integer axis is a single block reading one position. -/
def axisPieces (lengths : List Int) : Ix → List (List Int)
  | .slc s =>
    (orderedPlan s.stp (slice1d (isum lengths) lengths s)).map
      (fun p => (sel p.2 (lengths.getD p.1 0)).map (· + blockStart lengths p.1))
  | .int i => let r := slice1dInt lengths i; [[blockStart lengths r.1 + r.2]]
  | _ => []

/-- all input multi-positions read by the grid of output blocks: block by block (C order of
the block grid), inside a block in C order. -/
def gridReads (chunks : List (List Int)) (index : List Ix) : List (List Int) :=
  (cart (List.zipWith axisPieces chunks index)).flatMap cart

/-- the advertised chunks of every sliced axis (`new_blockdim`, i.e. `ssiChunks`) agree with the
pieces the plan reads: they sum to the number of selected positions and, when the selection is
non-empty, they are the piece lengths in output-block order.  (For an empty selection
`new_blockdim` advertises the single chunk `(0,)` while `_slice_1d`'s `x[:0]` special case
reads one empty piece of block 0 — lengths agree there as well, but not via `planLengths` of a
general plan, so the statement keeps the two parts separate.) -/
def ChunksAgree : List (List Int) → List Ix → Prop
  | lengths :: cs, .slc s :: is =>
    (isum (newBlockdim (isum lengths) lengths s) = (((axisPieces lengths (.slc s)).flatten.length : Nat) : Int) ∧
      ((axisPieces lengths (.slc s)).flatten ≠ [] →
        newBlockdim (isum lengths) lengths s = (axisPieces lengths (.slc s)).map (fun q => (q.length : Int)))) ∧
    ChunksAgree cs is
  | _ :: cs, _ :: is => ChunksAgree cs is
  | _, _ => True

/-! ### `.blocks[idx]` -/

/-- NumPy `a[s]` positions for one normalised `.blocks` item on an axis of `n` blocks
(`np.arange(n)[idx]`; integers were replaced by `slice(k, k+1)`). -/
def blockSel (n : Int) : Ix → List Int
  | .slc s => sel s n
  | .lst l => l
  | _ => []

/-- `slice(k, k + 1) if isinstance(k, Number) else k`: integers keep their axis. -/
def keepDim : Ix → Ix
  | .int k => .slc ⟨some k, some (k + 1), none⟩
  | x => x

/-- SPEC vocabulary: the global positions of block `b` of an axis chunked as `lengths`. -/
def blockRange (lengths : List Int) (b : Int) : List Int :=
  rangeList (blockStart lengths b.toNat) (blockStart lengths (b.toNat + 1)) 1

/-- `blocks_getitem` + `Blocks.chunks` + the `index_maps` of `Blocks._layer`:
`(chunks of the result, selected input block per output block and axis)`. -/
def blocksIndex (chunks : List (List Int)) (idx : List Ix) :
    Except Err (List (List Int) × List (List Int)) :=
  if idx.countP Ix.isLst > 1 then .error .valueError
  else if idx.any Ix.isNone then .error .valueError
  else
    match normalizeIndex idx (chunks.map (fun c => (c.length : Int))) with
    | .error e => .error e
    | .ok index =>
      let index := index.map keepDim
      let maps := List.zipWith (fun c i => blockSel (c.length : Int) i) chunks index
      .ok (List.zipWith (fun c m => m.map (fun b => c.getD b.toNat 0)) chunks maps, maps)

/-! ### `take`: `_compute_indexer`, `Shuffle._new_chunks`, `_shuffle` identity test -/

/-- `_compute_indexer(index, chunks_along_axis)`: runs of consecutive indices that fall in the
same input chunk (`np.searchsorted(boundaries[1:], index, side="right")` is `bisect_right` on
the inclusive cumulative sums).  `cur` is the run being built (reversed), `cid` its chunk id. -/
def indexerLoop (bounds : List Int) : List Int → Nat → List Int → List (List Int)
  | [], _, cur => [cur.reverse]
  | i :: rest, cid, cur =>
    let c := bisectRight bounds i
    if c = cid then indexerLoop bounds rest cid (i :: cur)
    else cur.reverse :: indexerLoop bounds rest c [i]

def computeIndexer (index : List Int) (chunksAlongAxis : List Int) : List (List Int) :=
  let bounds := cumsum chunksAlongAxis
  match index with
  | [] => [[]]
  | i :: rest => indexerLoop bounds rest (bisectRight bounds i) [i]

/-- `Shuffle._new_chunks`: regroup the indexer so that no output chunk exceeds `limit`
(= the largest input chunk on the axis); `cur` is `current_chunk`. -/
def newChunksLoop (limit : Nat) : List (List Int) → List Int → List (List Int)
  | [], cur => if cur.length > 0 then [cur] else []
  | idx :: rest, cur =>
    if idx.length > limit then
      (if cur.length > 0 then [cur] else []) ++ partitionAll limit idx ++ newChunksLoop limit rest []
    else if cur.length + idx.length > limit ∧ cur.length > 0 then
      cur :: newChunksLoop limit rest idx
    else
      let cur' := cur ++ idx
      if cur'.length > limit then cur' :: newChunksLoop limit rest []
      else newChunksLoop limit rest cur'

def newChunks (limit : Nat) (indexer : List (List Int)) : List (List Int) :=
  newChunksLoop limit indexer []

/-- the no-op test of `_shuffle`: the indexer is exactly the identity grouping of the axis. -/
def shuffleIsIdentityLoop : List (List Int) → List Int → Int → Bool
  | [], [], _ => true
  | idx :: is, c :: cs, ctr =>
    if (idx.length : Int) ≠ c then false
    else if idx ≠ rangeList ctr (ctr + c) 1 then false
    else shuffleIsIdentityLoop is cs (ctr + c)
  | _, _, _ => false

def shuffleIsIdentity (indexer : List (List Int)) (chunks : List Int) : Bool :=
  indexer.length = chunks.length && shuffleIsIdentityLoop indexer chunks 0

/-- chunks of `take(x, index, axis)` on the take axis: `tuple(map(len, _new_chunks))`, or the
input chunks when `take` / `_shuffle` recognise the identity. -/
def takeChunks (index : List Int) (chunksAlongAxis : List Int) : List Int :=
  -- `take`: `take(x, arange(n))` over the full axis returns `x` unchanged
  if index = rangeList 0 (isum chunksAlongAxis) 1 then chunksAlongAxis else
  let indexer := computeIndexer index chunksAlongAxis
  if shuffleIsIdentity indexer chunksAlongAxis then chunksAlongAxis
  else
    let limit := (chunksAlongAxis.foldl max 0).toNat
    (newChunks limit indexer).map (fun g => (g.length : Int))

end Dask.Indexing
