/-
Generic reachability over a finite edge list (used by table-driven properties: C26 import/call graph).
No Mathlib.  `Reach` is the propositional notion (paths of ANY finite length); `reachable` is a
fuel-bounded executable closure; the Bool checkers are what `decide` evaluates over generated tables.
Soundness lemmas are in Lemmas/Closure.lean.
-/
namespace Dask.Closure

abbrev Edges := List (Nat × Nat)

/-- `Reach edges a b`: there is a path `a → … → b` (reflexive, transitive, unbounded length). -/
inductive Reach (edges : Edges) : Nat → Nat → Prop
  | refl (a : Nat) : Reach edges a a
  | step {a b c : Nat} : Reach edges a b → (b, c) ∈ edges → Reach edges a c

/-- one round: every edge whose source is already in the set adds its target -/
def expand (edges : Edges) (S : List Nat) : List Nat :=
  edges.foldl (fun acc e => if acc.contains e.1 && !acc.contains e.2 then e.2 :: acc else acc) S

/-- fuel-bounded closure: iterate `expand` until nothing is added (or fuel runs out) -/
def closure (edges : Edges) : Nat → List Nat → List Nat
  | 0, S => S
  | fuel + 1, S =>
    let S' := expand edges S
    if S'.length == S.length then S else closure edges fuel S'

/-- nodes reachable from `roots`; fuel `|edges|+1` rounds always suffices (each productive round
adds ≥ 1 edge target) but that is NOT relied on: users check `closedUnder` on the result. -/
def reachable (edges : Edges) (roots : List Nat) : List Nat :=
  closure edges (edges.length + 1) roots

/-- `S` is closed under the edges (forward) -/
def closedUnder (edges : Edges) (S : List Nat) : Bool :=
  edges.all (fun e => !S.contains e.1 || S.contains e.2)

/-- `S` is closed under the REVERSED edges (backward: if the target is in, the source is in) -/
def closedUnderRev (edges : Edges) (S : List Nat) : Bool :=
  edges.all (fun e => !S.contains e.2 || S.contains e.1)

/-- all edge endpoints below `n` (the set `{0..n-1}` is closed) -/
def edgesBelow (edges : Edges) (n : Nat) : Bool :=
  edges.all (fun e => decide (e.1 < n) && decide (e.2 < n))

/-- decision procedure for "importing any of the `n` modules never runs a flagged module":
every edge stays inside `{0..n-1}` and no flagged index lies in `{0..n-1}`. -/
def importSafe (n : Nat) (edges : Edges) (flagged : List Nat) : Bool :=
  edgesBelow edges n && flagged.all (fun f => decide (n ≤ f))

/-- node sets of generated tables are BITMASKS (`i ∈ S` iff bit `i` of the literal is set): the kernel
evaluates `Nat.testBit` on literals with GMP, so a closedness check costs O(|edges|) whatever the size
of the set (a `List.contains` version costs O(|edges|·|S|) kernel steps, minutes and GBs when a broken
table makes `S` large — a broken table must fail FAST). -/
def inMask (mask i : Nat) : Bool := mask.testBit i

/-- the set `mask` is closed under the REVERSED edges -/
def closedUnderRevMask (edges : Edges) (mask : Nat) : Bool :=
  edges.all (fun e => !inMask mask e.2 || inMask mask e.1)

/-- decision procedure for "no node `< n` can reach a seed": the set `mask` contains no node `< n`,
contains the seeds, and is closed backwards under all edges. -/
def noRootReachesSeed (n : Nat) (edges : Edges) (seeds : List Nat) (mask : Nat) : Bool :=
  (List.range n).all (fun m => !inMask mask m) && seeds.all (fun s => inMask mask s) &&
    closedUnderRevMask edges mask

/-- bitmask of a list of nodes (for small hand-made examples) -/
def maskOf (l : List Nat) : Nat := l.foldl (fun m i => m ||| (1 <<< i)) 0

end Dask.Closure
