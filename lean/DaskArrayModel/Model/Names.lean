/-
Model of expression NAMES (C06, C07).   No Mathlib.

Python side (dask/_expr.py, dask_array/_expr.py):
  * an expression node is `type(self)` + `self.operands` (literals and child expressions);
  * `_name = f"{funcname}-{deterministic_token}"`, `deterministic_token = __dask_tokenize__()`
    = `tokenize(type(self), *<the operands the tokenizer chooses>)`; a child operand is tokenized
    through its own `_name`;
  * `SingletonExpr.__new__`, `_LOWER_CACHE`, graph merging: de-duplicate by `_name`.

Model:
  * `Node` = class id + operand list (`Node.mk cls operands`, `Operand := lit v | child n`).
    It is represented as ONE inductive type (the operand list is consed onto the class id) so that
    structural recursion / `induction` work without nested-inductive machinery; `Node.mk`,
    `Node.cls`, `Node.operands` give the `mk cls operands` view (`operands_mk`, `cls_mk`).
  * `Token` is a FREE term algebra: `tokenize` is collision-free (TRUSTED ASSUMPTION: no hash
    collisions) exactly means that a name can be read back as the tree of what was tokenized.
  * `name T n` encodes the class and the operands at positions `T cls` (the "tokenized" positions),
    children through their names.
  * `den S sem n` is an arbitrary function `sem` of the class and of the operands at positions `S cls`
    (the "semantic" positions): literals as they are, children through their `den`.
-/
namespace Dask.Names

/-- free token terms (injective constructors = "tokenize never collides") -/
inductive Token where
  | lit (v : Nat)
  | node (cls : Nat) (args : List (Option Token))

/-- expression node: class id with its operands consed in front -/
inductive Node where
  | nil (cls : Nat)
  | lit (v : Nat) (rest : Node)
  | child (c : Node) (rest : Node)

inductive Operand where
  | lit (v : Nat)
  | child (n : Node)

namespace Node

def cls : Node → Nat
  | .nil c => c
  | .lit _ r => r.cls
  | .child _ r => r.cls

def operands : Node → List Operand
  | .nil _ => []
  | .lit v r => Operand.lit v :: r.operands
  | .child c r => Operand.child c :: r.operands

/-- the `Node := mk (cls) (operands)` view -/
def mk (c : Nat) : List Operand → Node
  | [] => .nil c
  | Operand.lit v :: r => .lit v (mk c r)
  | Operand.child n :: r => .child n (mk c r)

theorem cls_mk (c : Nat) (l : List Operand) : (mk c l).cls = c := by
  induction l with
  | nil => rfl
  | cons o r ih => cases o <;> simpa [mk, cls] using ih

theorem operands_mk (c : Nat) (l : List Operand) : (mk c l).operands = l := by
  induction l with
  | nil => rfl
  | cons o r ih => cases o <;> simp [mk, operands, ih]

theorem mk_cls_operands (n : Node) : mk n.cls n.operands = n := by
  induction n with
  | nil c => rfl
  | lit v r ih => simp [cls, operands, mk, ih]
  | child c r _ ih => simp [cls, operands, mk, ih]

end Node

/-- operands at the listed positions (position-aligned: a missing position stays visible as `none`) -/
def sel {α : Type} (pos : List Nat) (l : List α) : List (Option α) := pos.map (fun i => l[i]?)

/-- tokens of all operands, in order: a literal is itself, a child is its NAME -/
def encAll (T : Nat → List Nat) : Node → List Token
  | .nil _ => []
  | .lit v r => Token.lit v :: encAll T r
  | .child c r => Token.node c.cls (sel (T c.cls) (encAll T c)) :: encAll T r

/-- `_name`: class + the tokenized operands -/
def name (T : Nat → List Nat) (n : Node) : Token := Token.node n.cls (sel (T n.cls) (encAll T n))

/-- what a semantic member sees of an operand: a literal, or the child's denotation -/
inductive Val (σ : Type) where
  | lit (v : Nat)
  | sub (s : σ)

def denAll {σ : Type} (S : Nat → List Nat) (sem : Nat → List (Option (Val σ)) → σ) : Node → List (Val σ)
  | .nil _ => []
  | .lit v r => Val.lit v :: denAll S sem r
  | .child c r => Val.sub (sem c.cls (sel (S c.cls) (denAll S sem c))) :: denAll S sem r

/-- denotation (shape, chunks, dtype, block values …): reads only the semantic positions -/
def den {σ : Type} (S : Nat → List Nat) (sem : Nat → List (Option (Val σ)) → σ) (n : Node) : σ :=
  sem n.cls (sel (S n.cls) (denAll S sem n))

/-- chunks (or any other advertised attribute) are a projection of the denotation -/
def chunks {σ κ : Type} (proj : σ → κ) (S : Nat → List Nat) (sem : Nat → List (Option (Val σ)) → σ) (n : Node) : κ :=
  proj (den S sem n)

theorem encAll_child (T : Nat → List Nat) (c r : Node) :
    encAll T (.child c r) = name T c :: encAll T r := rfl

theorem denAll_child {σ : Type} (S : Nat → List Nat) (sem : Nat → List (Option (Val σ)) → σ) (c r : Node) :
    denAll S sem (.child c r) = Val.sub (den S sem c) :: denAll S sem r := rfl

/-! ### name-keyed cache (generic: `SingletonExpr._instances`, `_LOWER_CACHE`, merged graphs) -/

/-- insert-if-absent lookup (`lowered.setdefault(name, out)` / `cache[name]`) -/
def cacheLookup {κ ν : Type} [DecidableEq κ] (cache : List (κ × ν)) (k : κ) : Option ν :=
  match cache with
  | [] => none
  | (k', v) :: rest => if k' = k then some v else cacheLookup rest k

/-- one request: answer from the cache when the name is present, else compute (`lower`) and insert -/
def cacheStep {κ ν : Type} [DecidableEq κ] (nm : ν → κ) (lower : ν → ν) (cache : List (κ × ν)) (n : ν) :
    List (κ × ν) × ν :=
  match cacheLookup cache (nm n) with
  | some v => (cache, v)
  | none => ((nm n, lower n) :: cache, lower n)

/-- a history of requests; returns the final cache and the answers (most recent first) -/
def cacheRun {κ ν : Type} [DecidableEq κ] (nm : ν → κ) (lower : ν → ν) :
    List (κ × ν) → List ν → List (κ × ν) × List (ν × ν)
  | cache, [] => (cache, [])
  | cache, n :: rest =>
    let (cache', v) := cacheStep nm lower cache n
    let (cache'', answers) := cacheRun nm lower cache' rest
    (cache'', (n, v) :: answers)

/-! ### C07: names across processes and pickling

`PNode`: class + operands (literal operands flagged stable/unstable, child nodes) + an optional CARRIED token
(`_determ_token`, passed to `__new__` by `Expr._reconstruct`).  An unstable literal is one whose
token depends on the process (`id(obj)`, a fresh `uuid`): `PTok.env e v`. -/

inductive PTok where
  | lit (v : Nat)
  | env (e : Nat) (v : Nat)
  | node (cls : Nat) (args : List PTok)

inductive PNode where
  | nil (cls : Nat) (carried : Option PTok)
  | lit (stable : Bool) (v : Nat) (rest : PNode)
  | child (c : PNode) (rest : PNode)

namespace PNode

def cls : PNode → Nat
  | .nil c _ => c
  | .lit _ _ r => r.cls
  | .child _ r => r.cls

def carried : PNode → Option PTok
  | .nil _ t => t
  | .lit _ _ r => r.carried
  | .child _ r => r.carried

/-- number of operands -/
def arity : PNode → Nat
  | .nil _ _ => 0
  | .lit _ _ r => r.arity + 1
  | .child _ r => r.arity + 1

end PNode

/-- tokens of the operands in process `e`; a child contributes its name (`funcname-token`) -/
def ptokAll (e : Nat) : PNode → List PTok
  | .nil _ _ => []
  | .lit true v r => PTok.lit v :: ptokAll e r
  | .lit false v r => PTok.env e v :: ptokAll e r
  | .child c r =>
    PTok.node c.cls [c.carried.getD (PTok.node c.cls (ptokAll e c))] :: ptokAll e r

/-- `deterministic_token`: the carried token when there is one, else tokenize the operands now -/
def detToken (e : Nat) (n : PNode) : PTok := n.carried.getD (PTok.node n.cls (ptokAll e n))

/-- `_name = f"{funcname}-{deterministic_token}"` in process `e` -/
def nameEnv (e : Nat) (n : PNode) : PTok := PTok.node n.cls [detToken e n]

theorem ptokAll_child (e : Nat) (c r : PNode) : ptokAll e (.child c r) = nameEnv e c :: ptokAll e r := rfl

/-- all operands stable, recursively, or shielded by a carried token -/
def stable : PNode → Bool
  | .nil _ _ => true
  | .lit s _ r => s && stable r
  | .child c r => (c.carried.isSome || stable c) && stable r

/-- pickle round trip in process `e₁`: `__reduce__` ships (type, *operands, deterministic_token, cache) and
    `_reconstruct` calls `typ(*operands, _determ_token=token)`; child operands are pickled by their
    own `__reduce__`.  `withTok` rebuilds the node with the given carried token. -/
def roundtripWith (e₁ : Nat) (tok : Option PTok) : PNode → PNode
  | .nil c _ => .nil c tok
  | .lit s v r => .lit s v (roundtripWith e₁ tok r)
  | .child c r => .child (roundtripWith e₁ (some (detToken e₁ c)) c) (roundtripWith e₁ tok r)

/-- `reconstruct (reduce e₁ n)` -/
def roundtrip (e₁ : Nat) (n : PNode) : PNode := roundtripWith e₁ (some (detToken e₁ n)) n

/-- the same round trip if `__reduce__` DROPPED the token of the root (children still carry theirs) -/
def roundtripDropToken (e₁ : Nat) (n : PNode) : PNode := roundtripWith e₁ none n

/-- names of all nodes of the tree (pre-order): the graph keys derive from these -/
def allNames (e : Nat) : PNode → List PTok
  | .nil _ _ => []
  | .lit _ _ r => allNames e r
  | .child c r => (nameEnv e c :: allNames e c) ++ allNames e r

def treeNames (e : Nat) (n : PNode) : List PTok := nameEnv e n :: allNames e n

/-! collection state (`Array.__dict__`): the expression plus derived caches -/

structure CollState (ε γ κ : Type) where
  expr : ε
  lowered : Option γ          -- `_lowered_expr`
  keys : Option κ             -- `_cached_dask_keys`
  optimizeFlag : Option Bool  -- `_lowered_expr_optimize_graph` (kept: it is configuration captured, not derived)

/-- `Array.__getstate__`: copy of `__dict__` without `_lowered_expr`, `_cached_dask_keys` -/
def getstate {ε γ κ : Type} (s : CollState ε γ κ) : CollState ε γ κ :=
  { s with lowered := none, keys := none }

/-- `Array.__setstate__`: `self.__dict__.update(state)` on a fresh object -/
def setstate {ε γ κ : Type} (s : CollState ε γ κ) : CollState ε γ κ := s

/-- cache invariant: a populated cache holds exactly what recomputation gives -/
def CacheInv {ε γ κ : Type} (materialize : ε → Bool → γ) (keysOf : ε → κ) (dflt : Bool) (s : CollState ε γ κ) : Prop :=
  (∀ g, s.lowered = some g → g = materialize s.expr (s.optimizeFlag.getD dflt)) ∧
  (∀ k, s.keys = some k → k = keysOf s.expr)

/-- what a user can observe: expression, graph source, keys (cached_property semantics: use the cache, else compute) -/
def observe {ε γ κ : Type} (materialize : ε → Bool → γ) (keysOf : ε → κ) (dflt : Bool) (s : CollState ε γ κ) : ε × γ × κ :=
  (s.expr, s.lowered.getD (materialize s.expr (s.optimizeFlag.getD dflt)), s.keys.getD (keysOf s.expr))

end Dask.Names
