/-
Package "slices and takes folded into creation arrays" (tag `crt`, extends C02).

Mirrors, branch by branch,
  dask_array/creation/_arange.py     `Arange.num_rows`, `Arange._accept_slice`, `Arange._layer`
  dask_array/_chunk.py               `arange` (the block function: `np.arange` then truncation to the block length)
  dask_array/creation/_linspace.py   `Linspace._accept_slice` (the affine part: start, step, count, last value)
  dask_array/creation/_ones_zeros.py `BroadcastTrick._accept_slice`, `_accept_shuffle`
over exact integers.  An arange whose `start/stop/step` are dyadic floats `S/2^k, T/2^k, P/2^k` is the integer
arange `(S, T, P)` scaled by `2^-k` (every operation below is homogeneous), which is how the correspondence
(`harness/props_ext/c02_creation.py`) feeds float aranges to this model.

What is NOT modelled: IEEE rounding.  On the float branch `_accept_slice` stores `new_stop = new_start + (count - 0.5) * new_step`
as a binary64 float and `num_rows` re-derives the length as `ceil((stop - start) / step)` in binary64; the model keeps the exact
rational midpoint (as the integer `2 * new_stop`) and the exact ceiling (`Lemmas/Creation.lean`, `midLen`).  On the integer
branch (`Arange.integral`) the stop is the exact integer `new_start + count * new_step`.
Core Lean only.
-/
import DaskArrayModel.Model.Expr
namespace Dask.Creation
open Dask.Py Dask.Py.PySlice Dask.Slicing Dask.ND

/-! ### `Arange` -/

/-- `Arange.num_rows`: `int(max(np.ceil((stop - start) / step), 0))`, exact arithmetic, `step ≠ 0`. -/
def arangeLen (start stop step : Int) : Nat := (max (ceilDiv (stop - start) step) 0).toNat

/-- the values of an arange of length `n`: element `p` is `start + p * step` -/
def arangeVals (start step : Int) (n : Nat) : List Int :=
  (List.range n).map (fun (p : Nat) => start + (p : Int) * step)

/-- `dask_array._chunk.arange(start, stop, step, length, dtype)` for integers:
`res = np.arange(start, stop, step)`; `res[:-1] if len(res) > length else res` -/
def chunkArange (start stop step : Int) (length : Nat) : List Int :=
  let res := rangeList start stop step
  if res.length > length then res.dropLast else res

/-- `Arange._layer`: the loop over `enumerate(self.chunks[0])` with the running `elem_count` -/
def arangeBlocksFrom (start step : Int) (elemCount : Int) : List Nat → List (List Int)
  | [] => []
  | bs :: rest =>
    let blockstart := start + elemCount * step
    let blockstop := start + (elemCount + (bs : Int)) * step
    chunkArange blockstart blockstop step bs :: arangeBlocksFrom start step (elemCount + (bs : Int)) rest

def arangeBlocks (start step : Int) (chunks : List Nat) : List (List Int) :=
  arangeBlocksFrom start step 0 chunks

/-- `integral` models `isinstance(new_start, Integral) and isinstance(new_step, Integral)` in `_accept_slice`: `true` for an
arange of Python ints, `false` for the (scaled) dyadic-float arange, whose `start + a*step` / `step*k` are floats. -/
structure Arange where
  start : Int
  stop : Int
  step : Int
  integral : Bool
deriving DecidableEq, Repr

def Arange.numRows (a : Arange) : Nat := arangeLen a.start a.stop a.step

/-- what `_accept_slice` substitutes: `start`, `step`, the selected `count` (the sum of the pinned chunks) and
`stop2 = 2 * new_stop` (doubled so that the float branch's midpoint stays an integer):
integer branch `new_stop = new_start + count * new_step`; float branch `new_stop = new_start + (count - 0.5) * new_step`. -/
structure Folded where
  start : Int
  step : Int
  count : Nat
  stop2 : Int
deriving DecidableEq, Repr

/-- `Arange._accept_slice`: an integer index declines; a slice `[a:b:k]` is folded.
`start, stop, step = index.indices(self.num_rows)`; `count = len(range(start, stop, step))`;
`if isinstance(new_start, Integral) and isinstance(new_step, Integral)`: exact stop, else the midpoint. -/
def acceptSlice (a : Arange) (ix : Ix) : Option Folded :=
  match ix with
  | .int _ => none
  | .slc s =>
    let n : Int := a.numRows
    let st := s.istart n
    let sp := s.istop n
    let k := s.stp
    let count := rangeLen st sp k
    let newStart := a.start + st * a.step
    let newStep := a.step * k
    if a.integral then
      some ⟨newStart, newStep, count, 2 * (newStart + (count : Int) * newStep)⟩
    else
      some ⟨newStart, newStep, count, 2 * newStart + (2 * (count : Int) - 1) * newStep⟩

/-- `Linspace._accept_slice` (affine part): `new_start`, `new_step`, `num = count` and the inclusive
`new_stop = new_start + (count - 1) * new_step`; `start`/`step` are the linspace's (scaled) start and derived step. -/
def acceptSliceLinspace (start step : Int) (num : Nat) (ix : Ix) : Option (Int × Int × Nat × Int) :=
  match ix with
  | .int _ => none
  | .slc s =>
    let n : Int := num
    let st := s.istart n
    let sp := s.istop n
    let k := s.stp
    let count := rangeLen st sp k
    let newStart := start + st * step
    let newStep := step * k
    some (newStart, newStep, count, newStart + ((count : Int) - 1) * newStep)

/-- NumPy meaning of `x[s]` on a 1-d list (positions `sel s len(x)`) -/
def sliceList (xs : List Int) (s : PySlice) : List Int :=
  (sel s xs.length).map (fun p => xs.getD p.toNat 0)

/-! ### `BroadcastTrick` (ones / zeros / full / empty) -/

/-- the parameters of a `BroadcastTrick` node that the rewrites touch (`name = none` is Python `None`:
the name is then derived from the token of the NEW parameters) -/
structure Const where
  shape : List Nat
  chunks : Layout
  name : Option String
  value : Int
deriving DecidableEq, Repr

/-- the array a `Const` denotes -/
def Const.den (c : Const) : Arr Int := ⟨c.shape, fun _ => c.value⟩

/-- the block the task of `block_id` computes: `func(chunk_shape)` -/
def Const.block (c : Const) (bid : List Nat) : Arr Int := ⟨blockShape c.chunks bid, fun _ => c.value⟩

def Const.wf (c : Const) : Bool := wfLayout c.shape c.chunks

/-- `BroadcastTrick._accept_slice`: shape and chunks read off the slice node, `name` reset to `None` -/
def constSlice (c : Const) (idx : List Ix) : Const :=
  { c with shape := sliceShape c.shape idx, chunks := sliceChunks c.shape c.chunks idx, name := none }

/-- NumPy meaning of `a[idx]` (the denotation of `Expr.slice`) -/
def sliceArr (a : Arr Int) (idx : List Ix) : Arr Int :=
  ⟨sliceShape a.shape idx, fun i => a.get (sliceIdx a.shape idx i)⟩

/-- NumPy meaning of `np.take(a, idx, axis=ax)` with Python's negative positions (the denotation of `Expr2.take`) -/
def takeArr (a : Arr Int) (ax : Nat) (idx : List Int) : Arr Int :=
  ⟨a.shape.set ax idx.length, fun i =>
    a.get (i.set ax (posifyInt (a.shape.getD ax 0) (idx.getD (i.getD ax 0) 0)).toNat)⟩

/-- `BroadcastTrick._accept_shuffle`: shape and chunks read off the shuffle node (`outChunks` is the shuffle node's
chunk tuple along `ax`: one block per indexer group), `name` reset to `None` -/
def constTake (c : Const) (ax : Nat) (idx : List Int) (outChunks : List Nat) : Const :=
  { c with shape := c.shape.set ax idx.length, chunks := c.chunks.set ax outChunks, name := none }

end Dask.Creation
