/-
L2: n-dimensional arrays, chunk layouts, block extents, split / assemble.
Core Lean only (the driver links natively).

Vocabulary (all of it is SPEC-level: short, total, readable in minutes)

  `Arr α`            an array = its `shape` and an element function `get : List Nat → α`
                     (only the values at in-bounds multi-indices matter: `Arr.Equiv`)
  `InB i shape`      multi-index `i` has the rank of `shape` and is in bounds on every axis
  `Layout`           chunks per axis (`.chunks` of a dask array, known sizes)
  `validBid l bid`   `bid` is a block index of the block grid of `l`
  `extent l bid`     per-axis start / length of block `bid`
  `restrict a ext`   the sub-array of `a` on an extent (NumPy `a[s0:s0+n0, s1:s1+n1, …]`)
  `blocksOf a l`     the block grid of `a` under layout `l`
  `assemble l blks`  the array whose block grid is `blks` (what `compute()` concatenates)
  `Arr.toList`       flat data in C order (for the driver)
-/
import DaskArrayModel.Py.Basic
namespace Dask.ND

/-- An n-d array: shape and element function.  Values of `get` outside the shape are junk. -/
structure Arr (α : Type) where
  shape : List Nat
  get : List Nat → α

/-- `InB i shape`: same rank, and `i[k] < shape[k]` on every axis. -/
def InB : List Nat → List Nat → Prop
  | [], [] => True
  | i :: is, n :: ns => i < n ∧ InB is ns
  | [], _ :: _ => False
  | _ :: _, [] => False

instance InB.dec : (i s : List Nat) → Decidable (InB i s)
  | [], [] => isTrue trivial
  | i :: is, n :: ns =>
    match Nat.decLt i n, InB.dec is ns with
    | isTrue h1, isTrue h2 => isTrue ⟨h1, h2⟩
    | isFalse h1, _ => isFalse (fun h => h1 h.1)
    | _, isFalse h2 => isFalse (fun h => h2 h.2)
  | [], _ :: _ => isFalse (fun h => h)
  | _ :: _, [] => isFalse (fun h => h)

/-- Extensional equality: same shape, same values at every in-bounds multi-index. -/
def Arr.Equiv {α} (a b : Arr α) : Prop :=
  a.shape = b.shape ∧ ∀ i, InB i a.shape → a.get i = b.get i

/-- pointwise sum of multi-indices -/
def vadd (a b : List Nat) : List Nat := List.zipWith (· + ·) a b

/-- chunks per axis -/
abbrev Layout := List (List Nat)

/-- number of blocks per axis -/
def numblocks (l : Layout) : List Nat := l.map List.length

/-- `bid` names a block of the grid of `l` -/
def validBid (l : Layout) (bid : List Nat) : Prop := InB bid (numblocks l)

instance (l : Layout) (bid : List Nat) : Decidable (validBid l bid) := by
  unfold validBid; infer_instance

/-- shape of block `bid`: `chunks[k][bid[k]]` on every axis -/
def blockShape (l : Layout) (bid : List Nat) : List Nat :=
  List.zipWith (fun cs b => cs.getD b 0) l bid

/-- global index of the first element of block `bid`: `sum(chunks[k][:bid[k]])` -/
def origin (l : Layout) (bid : List Nat) : List Nat :=
  List.zipWith (fun cs b => (cs.take b).sum) l bid

/-- per-axis start and length -/
structure Extent where
  start : List Nat
  shape : List Nat
deriving DecidableEq, Repr

def extent (l : Layout) (bid : List Nat) : Extent := ⟨origin l bid, blockShape l bid⟩

/-- sub-array on an extent -/
def restrict {α} (a : Arr α) (ext : Extent) : Arr α :=
  ⟨ext.shape, fun i => a.get (vadd ext.start i)⟩

/-- the block grid of `a` under `l` -/
def blocksOf {α} (a : Arr α) (l : Layout) : List Nat → Arr α :=
  fun bid => restrict a (extent l bid)

/-- block number and local offset of global position `g` on one axis -/
def findBlock : List Nat → Nat → Nat × Nat
  | [], g => (0, g)
  | c :: cs, g => if g < c then (0, g) else ((findBlock cs (g - c)).1 + 1, (findBlock cs (g - c)).2)

/-- block index holding global multi-index `g` -/
def bidOf (l : Layout) (g : List Nat) : List Nat :=
  List.zipWith (fun cs x => (findBlock cs x).1) l g

/-- position of global multi-index `g` inside its block -/
def localOf (l : Layout) (g : List Nat) : List Nat :=
  List.zipWith (fun cs x => (findBlock cs x).2) l g

/-- the array whose block grid is `blocks` -/
def assemble {α} (l : Layout) (blocks : List Nat → Arr α) : Arr α :=
  ⟨l.map List.sum, fun g => (blocks (bidOf l g)).get (localOf l g)⟩

/-- all multi-indices of a shape, in C order -/
def allIdx : List Nat → List (List Nat)
  | [] => [[]]
  | n :: ns => (List.range n).flatMap (fun i => (allIdx ns).map (i :: ·))

/-- flat data, C order -/
def Arr.toList {α} (a : Arr α) : List α := (allIdx a.shape).map a.get

/-- all block indices of a layout -/
def allBids (l : Layout) : List (List Nat) := allIdx (numblocks l)

/-- C-order flat position of a multi-index -/
def flatIndex : List Nat → List Nat → Nat
  | [], _ => 0
  | _ :: _, [] => 0
  | _ :: ns, i :: is => i * ns.foldl (· * ·) 1 + flatIndex ns is

/-- array from flat C-order data -/
def Arr.ofList {α} [Inhabited α] (shape : List Nat) (data : List α) : Arr α :=
  let arr := data.toArray
  ⟨shape, fun i => arr.getD (flatIndex shape i) default⟩

end Dask.ND
