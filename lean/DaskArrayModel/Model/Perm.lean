/-
Axis-permutation rules of `dask_array/manipulation/_transpose.py` (package `prm`, extends C02).  Core Lean only.

Python                                                            Lean
----------------------------------------------------------------  ------------------------------------------
`Transpose._simplify_down`, first branch:                          `composeAsCode inner outer`
   `axes = tuple(self.array.axes[i] for i in self.axes)`              (`inner = self.array.axes`, `outer = self.axes`)
   `Transpose(self.array.array, axes)`                              `transposeTranspose` (rule on `Expr`)
`Transpose._simplify_down`, second branch (identity removal)       `transposeIdentity`
`Transpose._simplify_down` → `_pushdown_through_elemwise`          `elemwiseSplit` (which operand gets which axes / decline),
                                                                    `transposeThroughMap`, `transposeThroughZip` (rules on `Expr`)
`Transpose._inverse_axes`  (`inv[a] = i` loop)                     `inverse` (`inverseE`: with Python's IndexError)
`Transpose._input_block_id`                                        `inputBlockId`
`Transpose._task`  (`np.transpose(block, axes)` of that block)     `transposeBlock`
`Transpose._accept_shuffle`  (`input_axis = axes[shuffle_axis]`)   `shuffleAxis`, `acceptShuffle`
`Array.transpose(*axes)`  (negative axes, `.T`)                     `transposeAxes`, `reversePerm`
`swapaxes`, `moveaxis`, `rollaxis`                                 `swapaxesPerm`, `moveaxisPermN`, `rollaxisPerm`
   (NumPy's `normalize_axis_index` / `normalize_axis_tuple`)         `normAxis`, `normAxisTuple`

The n-d denotation is the one of Model/Expr.lean: `den env (.transpose e p) = transposeArr (den env e) p`
(definitional, `Lemmas/Perm.lean: den_transpose`), i.e. `out[i] = in[unperm p i]`, `unperm p i [a] = i[p.index(a)]`;
`takeArr` is the denotation of `Expr2.take` (`den2_take`).
`isPerm`, `unperm`, `swapPerm`, `moveaxisPerm` (one axis) are reused from Model/Expr.lean / Model/ExprDerived.lean.
-/
import DaskArrayModel.Model.ExprDerived
import DaskArrayModel.Model.Rules
namespace Dask.Perm
open Dask.Py Dask.Slicing Dask.ND

/-! ### the n-d denotations -/

/-- `np.transpose(a, p)`: `out.shape[k] = a.shape[p[k]]`, `out[i] = a[unperm p i]` (the denotation of `Expr.transpose`) -/
def transposeArr (a : Arr Int) (p : List Nat) : Arr Int :=
  ⟨p.map (fun k => a.shape.getD k 0), fun i => a.get (unperm p i)⟩

/-- `np.take(a, idx, axis=ax)` with Python's negative positions (the denotation of `Expr2.take`) -/
def takeArr (a : Arr Int) (ax : Nat) (idx : List Int) : Arr Int :=
  ⟨a.shape.set ax idx.length, fun i =>
    a.get (i.set ax (posifyInt (a.shape.getD ax 0) (idx.getD (i.getD ax 0) 0)).toNat)⟩

/-- `permute xs axes`: entry `k` of the result is entry `axes[k]` of `xs` (shape, chunks of a `Transpose`) -/
def permute {α} (xs : List α) (axes : List Nat) (d : α) : List α := axes.map (fun k => xs.getD k d)

/-! ### `_simplify_down`: double transpose, identity -/

/-- `tuple(self.array.axes[i] for i in self.axes)` with `inner = self.array.axes`, `outer = self.axes` -/
def composeAsCode (inner outer : List Nat) : List Nat := outer.map (fun i => inner.getD i 0)

/-- the opposite order (one of the seeded regressions): `tuple(self.axes[i] for i in self.array.axes)` -/
def composeWrong (inner outer : List Nat) : List Nat := inner.map (fun i => outer.getD i 0)

/-- `Transpose(Transpose(x, p), q)` → `Transpose(x, composeAsCode p q)` -/
def transposeTranspose : Expr → Option Expr
  | .transpose (.transpose e p) q => some (.transpose e (composeAsCode p q))
  | _ => none

/-- `if self.axes == tuple(range(self.array.ndim)): return self.array` -/
def transposeIdentity : Expr → Option Expr
  | .transpose e p => if p = List.range (shape e).length then some e else none
  | _ => none

/-! ### `_inverse_axes`, `_input_block_id`, `_task` -/

/-- the loop `for i, a in enumerate(axes): inv[a] = i` (running `i`, running `inv`) -/
def inverseLoop : List Nat → Nat → List Nat → List Nat
  | [], _, inv => inv
  | a :: r, i, inv => inverseLoop r (i + 1) (inv.set a i)

/-- `Transpose._inverse_axes` (for entries `< len(axes)`; Python raises IndexError otherwise, see `inverseE`) -/
def inverse (axes : List Nat) : List Nat := inverseLoop axes 0 (List.replicate axes.length 0)

/-- with Python's `IndexError` for an entry outside the list -/
def inverseE (axes : List Nat) : Except String (List Nat) :=
  if axes.all (fun a => decide (a < axes.length)) then .ok (inverse axes) else .error "IndexError"

/-- `tuple(block_id[self._inverse_axes[d]] for d in range(len(block_id)))` -/
def inputBlockId (axes bid : List Nat) : List Nat :=
  (List.range bid.length).map (fun d => bid.getD ((inverse axes).getD d 0) 0)

/-- `.chunks` of the transpose layer -/
def transposeChunks (axes : List Nat) (cl : Layout) : Layout := permute cl axes []

/-- `Transpose._task`: `np.transpose(<input block _input_block_id(block_id)>, axes)` -/
def transposeBlock (axes : List Nat) (blocks : List Nat → Arr Int) (bid : List Nat) : Arr Int :=
  transposeArr (blocks (inputBlockId axes bid)) axes

/-! ### `_accept_shuffle` -/

/-- `input_axis = axes[shuffle_axis]` -/
def shuffleAxis (axes : List Nat) (k : Nat) : Nat := axes.getD k 0

/-- the seeded regression: the inverse permutation instead -/
def shuffleAxisWrong (axes : List Nat) (k : Nat) : Nat := (inverse axes).getD k 0

/-- `Transpose(Shuffle(self.array, indexer, axes[k]), axes)` as an array -/
def acceptShuffle (a : Arr Int) (axes : List Nat) (k : Nat) (idx : List Int) : Arr Int :=
  transposeArr (takeArr a (shuffleAxis axes k) idx) axes

/-! ### `_pushdown_through_elemwise` -/

/-- an elemwise argument: `is_scalar_for_elemwise(arg)` or an array of some rank (a 0-d dask array is an ARRAY) -/
inductive Opnd
  | scalar
  | arr (rank : Nat)
deriving DecidableEq, Repr

/-- what the rule hands to each argument: `none` = passed unchanged, `some axes` = `Transpose(arg, axes)` -/
structure Split where
  args : List (Option (List Nat))
  whr : Option (List Nat)
  out : Option (List Nat)
deriving DecidableEq, Repr

/-- the first loop: `if is_scalar: continue; if arg.ndim != out_ndim: return None` -/
def argsSameRank (n : Nat) : List Opnd → Bool
  | [] => true
  | .scalar :: r => argsSameRank n r
  | .arr k :: r => if k ≠ n then false else argsSameRank n r

/-- `hasattr(x, "ndim") and x.ndim != out_ndim` (`some rank` = has `ndim`) -/
def rankDiffers (n : Nat) : Option Nat → Bool
  | some k => decide (k ≠ n)
  | none => false

/-- `Transpose._pushdown_through_elemwise`: `whr` / `out` are `some rank` when `hasattr(·, "ndim")` -/
def elemwiseSplit (axes : List Nat) (args : List Opnd) (whr out : Option Nat) : Option Split :=
  let n := axes.length
  if !argsSameRank n args then none
  else if rankDiffers n whr then none
  else if rankDiffers n out then none
  else some
    { args := args.map (fun a => match a with | .scalar => none | .arr _ => some axes)
      whr := whr.map (fun _ => axes)
      out := out.map (fun _ => axes) }

/-- the rule on `Expr`, unary elemwise -/
def transposeThroughMap : Expr → Option Expr
  | .transpose (.map f e) p =>
    (elemwiseSplit p [.arr (shape e).length] none none).map (fun _ => .map f (.transpose e p))
  | _ => none

/-- the rule on `Expr`, binary elemwise -/
def transposeThroughZip : Expr → Option Expr
  | .transpose (.zip f a b) p =>
    (elemwiseSplit p [.arr (shape a).length, .arr (shape b).length] none none).map
      (fun _ => .zip f (.transpose a p) (.transpose b p))
  | _ => none

/-- n-ary pointwise function of arrays (`where=` mask and `out=` array are just further operands of `f`);
the shape is the first operand's -/
def pointwiseArr (f : List Int → Int) (ops : List (Arr Int)) : Arr Int :=
  ⟨(ops.headD ⟨[], fun _ => 0⟩).shape, fun i => f (ops.map (fun a => a.get i))⟩

/-! ### the builders -/

/-- `tuple(range(ndim))[::-1]`  (`.T`, `transpose()` without axes) -/
def reversePerm (n : Nat) : List Nat := (List.range n).reverse

/-- `Array.transpose(axes)`: length check, `d + ndim if d < 0 else d` (NO validity check), `None` → reversed -/
def transposeAxes (n : Nat) : Option (List Int) → Except String (List Int)
  | none => .ok ((reversePerm n).map Int.ofNat)
  | some [] => .ok ((reversePerm n).map Int.ofNat)          -- `if axes:` is false for `()`
  | some axes =>
    if axes.length ≠ n then .error "ValueError"
    else .ok (axes.map (fun d => if d < 0 then d + n else d))

/-- Python `l[i]` on a list of length `n`: the position, or `none` (IndexError) -/
def pyIdx (n : Nat) (i : Int) : Option Nat :=
  if 0 ≤ i ∧ i < n then some i.toNat
  else if -(n : Int) ≤ i ∧ i < 0 then some (i + n).toNat
  else none

/-- `swapaxes(a, axis1, axis2)`: equal arguments return `a` BEFORE any normalisation; one `+ ndim` for negatives;
then Python list indexing (which wraps a still-negative axis once more) -/
def swapaxesPerm (n : Nat) (a1 a2 : Int) : Except String (List Nat) :=
  if a1 = a2 then .ok (List.range n)
  else
    let b1 := if a1 < 0 then a1 + n else a1
    let b2 := if a2 < 0 then a2 + n else a2
    match pyIdx n b1, pyIdx n b2 with
    | some i, some j => .ok (swapPerm n i j)
    | _, _ => .error "IndexError"

/-- `numpy.lib.array_utils.normalize_axis_index` -/
def normAxis (n : Nat) (a : Int) : Except String Nat :=
  if -(n : Int) ≤ a ∧ a < n then .ok (if a < 0 then a + n else a).toNat else .error "AxisError"

def normAxes (n : Nat) : List Int → Except String (List Nat)
  | [] => .ok []
  | a :: r =>
    match normAxis n a with
    | .error e => .error e
    | .ok x =>
      match normAxes n r with
      | .error e => .error e
      | .ok xs => .ok (x :: xs)

/-- `normalize_axis_tuple(axis, ndim)`: every axis normalised (AxisError first), then `repeated axis` ValueError -/
def normAxisTuple (n : Nat) (as : List Int) : Except String (List Nat) :=
  match normAxes n as with
  | .error e => .error e
  | .ok r => if decide r.Nodup then .ok r else .error "ValueError"

/-- Python `list.insert(pos, x)` for `pos ≥ 0`: clamps to the end -/
def pyInsert (l : List Nat) (pos x : Nat) : List Nat := l.insertIdx (min pos l.length) x

/-- insertion into a list of pairs sorted lexicographically (`sorted(zip(destination, source))`) -/
def insertPair (p : Nat × Nat) : List (Nat × Nat) → List (Nat × Nat)
  | [] => [p]
  | q :: r => if p.1 < q.1 ∨ (p.1 = q.1 ∧ p.2 ≤ q.2) then p :: q :: r else q :: insertPair p r

def sortPairs : List (Nat × Nat) → List (Nat × Nat)
  | [] => []
  | p :: r => insertPair p (sortPairs r)

/-- `moveaxis(a, source, destination)` for sequences of axes -/
def moveaxisPermN (n : Nat) (src dst : List Int) : Except String (List Nat) :=
  match normAxisTuple n src with
  | .error e => .error e
  | .ok s =>
    match normAxisTuple n dst with
    | .error e => .error e
    | .ok d =>
      if s.length ≠ d.length then .error "ValueError"
      else
        let order := (List.range n).filter (fun k => !s.contains k)
        .ok ((sortPairs (d.zip s)).foldl (fun o p => pyInsert o p.1 p.2) order)

/-- `rollaxis(a, axis, start)` -/
def rollaxisPerm (n : Nat) (axis start : Int) : Except String (List Nat) :=
  match normAxis n axis with
  | .error e => .error e
  | .ok ax =>
    let st := if start < 0 then start + n else start
    if ¬ (0 ≤ st ∧ st < (n : Int) + 1) then .error "ValueError"
    else
      let st := if (ax : Int) < st then st - 1 else st
      if (ax : Int) = st then .ok (List.range n)                       -- `return a[...]`
      else .ok (pyInsert ((List.range n).erase ax) st.toNat ax)        -- `axes.remove(axis); axes.insert(start, axis)`

/-- SPEC `np.moveaxis(x, s, d)` (one axis) as the index map: output axis `d` is input axis `s`, the other axes keep
their order -/
def IsMoveaxis (n s d : Nat) (p : List Nat) : Prop :=
  p.getD d 0 = s ∧ p.eraseIdx d = (List.range n).filter (fun k => k != s)

/-- SPEC `np.swapaxes` as the index map -/
def IsSwapaxes (n a b : Nat) (p : List Nat) : Prop :=
  p.length = n ∧ ∀ k, k < n → p.getD k 0 = (if k = a then b else if k = b then a else k)

end Dask.Perm
