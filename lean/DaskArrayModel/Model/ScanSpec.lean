/-
Specification vocabulary for cumulative scans: folds of possibly-empty lists with an
associative operation that need not have an identity (`none` = "nothing folded yet").
The NumPy definition of the scan itself is `Dask.Scan.scanl1` (Model/Scan.lean).
-/
import DaskArrayModel.Model.Scan
namespace Dask.Scan

variable {β : Type}

/-- `op` lifted to `Option β` with `none` as a two-sided identity. -/
def oop (op : β → β → β) : Option β → Option β → Option β
  | none, y => y
  | some a, none => some a
  | some a, some b => some (op a b)

/-- left fold of a list with `op`; `none` for the empty list. -/
def ofold (op : β → β → β) : List β → Option β
  | [] => none
  | x :: xs => some (xs.foldl op x)

/-- associativity of `binop` (the only algebraic assumption of the scan theorems). -/
def Assoc (op : β → β → β) : Prop := ∀ a b c, op (op a b) c = op a (op b c)

end Dask.Scan
