/-
Specification vocabulary for the native sliding-window plan: positions, slices of the data
along the sliding axis, blocks.
-/
import DaskArrayModel.Model.Window
namespace Dask.Window
open Dask.Py

variable {α : Type}

/-- global position of the first element of block `k` (`starts[k]`) -/
def blockStart (chunks : List Int) (k : Nat) : Int := isum (chunks.take k)

/-- `x[a:b]` for `0 ≤ a ≤ b` -/
def slice (x : List α) (a b : Int) : List α := (x.drop a.toNat).take (b - a).toNat

/-- block `k` of `x` under the chunking -/
def block (chunks : List Int) (x : List α) (k : Nat) : List α :=
  slice x (blockStart chunks k) (blockStart chunks (k + 1))

/-- the blocks `lo, …, hi-1`, in order -/
def blocksRange (chunks : List Int) (x : List α) (lo hi : Nat) : List (List α) :=
  (List.range' lo (hi - lo)).map (block chunks x)

/-- left edge of the trailing (`bottleneck.move_*`) window that ends at offset `t` of block `i`,
clipped at the array start: `max(0, j - W + 1)` for `j = start_i + t` -/
def leftEdge (chunks : List Int) (window : Int) (i : Nat) (t : Int) : Int :=
  max 0 (blockStart chunks i + t - window + 1)

/-- the band of a moving-window plan row, concatenated (`np.concatenate(left_parts)`) -/
def movingBand (chunks : List Int) (x : List α) (m : MPlan) : List α :=
  match m.g, m.h with
  | some g, some h => (blocksRange chunks x g.toNat (h.toNat + 1)).flatten
  | _, _ => []

/-! NumPy `np.pad` index maps for an axis of length `n`, unpadded coordinate `q ∈ [-n, 2n)` -/

/-- `np.pad(mode="wrap")` -/
def padWrap (n q : Int) : Int := if q < 0 then q + n else if q ≥ n then q - n else q
/-- `np.pad(mode="symmetric")` -/
def padSymmetric (n q : Int) : Int := if q < 0 then -q - 1 else if q ≥ n then 2 * n - 1 - q else q
/-- `np.pad(mode="edge")` -/
def padEdge (n q : Int) : Int := max 0 (min (n - 1) q)

end Dask.Window
