/-
L1 model of the cumulative-scan layers in dask_array/reductions/_cumulative.py, along the
scan axis, abstracted to lists over an arbitrary carrier `β` with a binary `op` (`binop`):

* `CumReduction._layer` (method="sequential"): per-block scan (`func`), the running
  `extra` chain (`extra_0 = ident`, `extra_i = binop(extra_{i-1}, _cum_tail(chunk_{i-1}))`),
  `result_0 = chunk_0`, `result_i = binop(extra_i, chunk_i)`.
* `CumReductionBlelloch._layer` (method="blelloch"): `prefix_vals` = the per-block totals
  (`preop`) of all blocks but the last, updated in place by the up-sweep and down-sweep
  loops *exactly as the Python builds them for any block count* (same `range(...)` start /
  stop / step, same `stride`, `stride2` updates, same `max(2, 2**ceil(log2(n_vals//2)))`
  starting point of the down-sweep); block 0 is `func(x_0)`, block `i ≥ 1` is
  `binop(prefix_vals[i-1], func(x_i))`.

The `(level, i)` part of the intermediate keys is a naming artefact and is not modelled
(the `level` counter strictly increases, so keys never collide).  Core Lean only.
-/
namespace Dask.Scan

variable {β : Type}

/-! ### Python `range` over naturals -/

/-- `list(range(start, stop, step))` for `0 ≤ start`, `step > 0` (empty for `step = 0`). -/
def rangeStep (start stop step : Nat) : List Nat :=
  (List.range ((stop - start + step - 1) / step)).map (fun k => start + k * step)

/-! ### NumPy pieces: per-block scan, totals -/

/-- running scan seeded with `acc` (exclusive of `acc`). -/
def scanFrom (op : β → β → β) (acc : β) : List β → List β
  | [] => []
  | x :: xs => op acc x :: scanFrom op (op acc x) xs

/-- `np.cumsum`-style inclusive scan of a list (`func(x, axis=axis)` on one block, and the
NumPy definition on the whole axis). -/
def scanl1 (op : β → β → β) : List β → List β
  | [] => []
  | x :: xs => x :: scanFrom op x xs

/-- `_cum_tail(getitem, slc, ident, axis, chunk)`: the last entry of a block's scan, or the
identity when the block is empty along the axis. -/
def cumTail (ident : β) (chunk : List β) : β := chunk.getLast?.getD ident

/-! ### sequential: `CumReduction._layer` -/

/-- the `for i in range(1, n)` loop.  State: `extra` = `(name, "extra", i-1)`,
`prev` = `(name-chunk, i-1)`.  Emits `(extra_i, result_i)` per block `i`. -/
def seqLoop (op : β → β → β) (ident : β) (extra : β) (prev : List β) :
    List (List β) → List (β × List β)
  | [] => []
  | c :: cs =>
    let thisExtra := op extra (cumTail ident prev)
    (thisExtra, c.map (op thisExtra)) :: seqLoop op ident thisExtra c cs

/-- `(name, "extra", i)` for every block `i` (the offset block `i` is combined with). -/
def seqExtras (op : β → β → β) (ident : β) (bs : List (List β)) : List β :=
  match bs.map (scanl1 op) with
  | [] => []
  | c0 :: cs => ident :: (seqLoop op ident ident c0 cs).map Prod.fst

/-- `(name, i)` for every block `i`: the output blocks of the sequential layer. -/
def seqBlocks (op : β → β → β) (ident : β) (bs : List (List β)) : List (List β) :=
  match bs.map (scanl1 op) with
  | [] => []
  | c0 :: cs => c0 :: (seqLoop op ident ident c0 cs).map Prod.snd

/-! ### Blelloch: `CumReductionBlelloch._layer` -/

/-- one emitted combine task: `prefix_vals[i] = binop(prefix_vals[i - stride], prefix_vals[i])`. -/
structure Step where
  i : Nat
  stride : Nat
deriving DecidableEq, Repr

/-- `for i in range(first, n_vals, stride2)` with the loop body's `i - stride`. -/
def levelSteps (first stride stride2 nVals : Nat) : List Step :=
  (rangeStep first nVals stride2).map (fun i => ⟨i, stride⟩)

/-- the up-sweep `while stride2 <= n_vals:` loop (fuel = an upper bound on the iterations). -/
def upSteps : (fuel stride stride2 nVals : Nat) → List Step
  | 0, _, _, _ => []
  | fuel + 1, stride, stride2, nVals =>
    if stride2 ≤ nVals then
      levelSteps (stride2 - 1) stride stride2 nVals ++ upSteps fuel stride2 (stride2 * 2) nVals
    else []

/-- least `e` with `x ≤ 2^e`, searched upward from `e` (`math.ceil(math.log2(x))`, `x ≥ 1`). -/
def clog2From : (fuel e x : Nat) → Nat
  | 0, e, _ => e
  | fuel + 1, e, x => if x ≤ 2 ^ e then e else clog2From fuel (e + 1) x

def clog2 (x : Nat) : Nat := clog2From x 0 x

/-- the down-sweep `while stride > 0:` loop. -/
def downSteps : (fuel stride stride2 nVals : Nat) → List Step
  | 0, _, _, _ => []
  | fuel + 1, stride, stride2, nVals =>
    if stride > 0 then
      levelSteps (stride2 + stride - 1) stride stride2 nVals ++ downSteps fuel (stride / 2) stride nVals
    else []

/-- `stride2 = max(2, 2 ** math.ceil(math.log2(n_vals // 2)))` -/
def downStart (nVals : Nat) : Nat := max 2 (2 ^ clog2 (nVals / 2))

/-- all combine tasks, in emission order, for `n_vals = len(prefix_vals)`. -/
def blellochSteps (nVals : Nat) : List Step :=
  if nVals ≥ 2 then
    upSteps nVals 1 2 nVals ++ downSteps (downStart nVals) (downStart nVals / 2) (downStart nVals) nVals
  else []

/-- the loop body: read `prefix_vals[i - stride]`, `prefix_vals[i]`, overwrite `prefix_vals[i]`. -/
def applyStep (op : β → β → β) (pv : List β) (s : Step) : List β :=
  match pv[s.i - s.stride]?, pv[s.i]? with
  | some l, some r => pv.set s.i (op l r)
  | _, _ => pv

def runSteps (op : β → β → β) (pv : List β) (steps : List Step) : List β :=
  steps.foldl (applyStep op) pv

/-- final `prefix_vals` from the per-block totals `batches` of ALL blocks
(`*indices, last_index = full_indices` drops the last one). -/
def blellochPrefix (op : β → β → β) (totals : List β) : List β :=
  runSteps op totals.dropLast (blellochSteps totals.dropLast.length)

/-- the value block `i` is combined with: none for block 0 (`_prefixscan_first`), else
`prefix_vals[i-1]` (`zip(full_indices[1:], prefix_vals)`). -/
def blellochOffsets (op : β → β → β) (totals : List β) : List (Option β) :=
  match totals with
  | [] => []
  | _ :: _ => none :: (blellochPrefix op totals).map some

/-- `_prefixscan_first` / `_prefixscan_combine`. -/
def combineBlock (op : β → β → β) (pre : Option β) (b : List β) : List β :=
  match pre with
  | none => scanl1 op b
  | some p => (scanl1 op b).map (op p)

/-- output blocks of the Blelloch layer; `pre` is `preop` (`np.sum(block, keepdims=True)`). -/
def blellochBlocks (op : β → β → β) (pre : List β → β) (bs : List (List β)) : List (List β) :=
  List.zipWith (combineBlock op) (blellochOffsets op (bs.map pre)) bs

/-! ### symbolic carrier for the wiring (`sc.wiring`) -/

/-- terms over named leaves; running the models on `Tm` yields the dependency structure. -/
inductive Tm
  | ident
  | leaf (i : Nat)
  | op (l r : Tm)
deriving DecidableEq, Repr, Inhabited

end Dask.Scan
