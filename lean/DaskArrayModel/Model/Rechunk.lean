/-
L1 model of the rechunk crosswalk and planning helpers in dask_array/_rechunk.py
(`_breakpoints`, `_intersect_1d`, `old_to_new` per axis, `divide_to_width`,
`merge_to_number`, per-axis counters of `_rechunk_stage_transfer`) and of
`moved_fraction` (dask_array/_expr.py).  Mirrors the Python control flow.  Core Lean only.
-/
import DaskArrayModel.Py.Basic
namespace Dask.Rechunk
open Dask.Py

inductive Lbl | o | n
deriving DecidableEq, Repr

/-- `accumulate(add, (0,) + bds)` -/
def cum0 (bds : List Int) : List Int := 0 :: cumsum bds

/-- `_breakpoints(cumold, cumnew)` = `sorted(cumold + cumnew, key=itemgetter(1))`: a stable
sort of two sorted runs, i.e. a merge in which an `o` entry precedes an `n` entry of the
same position. -/
def mergeBreaks : List Int → List Int → List (Lbl × Int)
  | [], ns => ns.map (fun x => (Lbl.n, x))
  | os, [] => os.map (fun x => (Lbl.o, x))
  | a :: os, b :: ns =>
    if a ≤ b then (Lbl.o, a) :: mergeBreaks os (b :: ns)
    else (Lbl.n, b) :: mergeBreaks (a :: os) ns

def breakpoints (old new : List Int) : List (Lbl × Int) := mergeBreaks (cum0 old) (cum0 new)

/-- one piece of an old block: `(old block index, slice(s, e))` -/
structure Piece where
  idx : Int
  s : Int
  e : Int
deriving DecidableEq, Repr

structure IState where
  lastEnd : Int := 0
  oldIdx : Int := 0
  lastOEnd : Int := 0
  ret : List (List Piece) := []
  retNext : List Piece := []

/-- one iteration of the `for idx in range(1, len(breaks))` loop of `_intersect_1d` -/
def istep (lastOldChunkIdx lastOBr : Int) (st : IState) (prev cur : Lbl × Int) : IState :=
  let label := cur.1
  let br := cur.2
  let lastLabel := prev.1
  let lastBr := prev.2
  let start : Int := if lastLabel = Lbl.n then st.lastEnd else 0
  let ret := if lastLabel = Lbl.n ∧ st.retNext ≠ [] then st.ret ++ [st.retNext] else st.ret
  let retNext := if lastLabel = Lbl.n ∧ st.retNext ≠ [] then [] else st.retNext
  let end_ := br - lastBr + start
  if br = lastBr then
    let oldIdx := if label = Lbl.o then st.oldIdx + 1 else st.oldIdx
    let lastOEnd := if label = Lbl.o then end_ else st.lastOEnd
    if label = Lbl.n ∧ lastLabel = Lbl.n then
      if br = lastOBr then
        { lastEnd := end_, oldIdx := oldIdx, lastOEnd := lastOEnd, ret := ret,
          retNext := retNext ++ [⟨lastOldChunkIdx, lastOEnd, lastOEnd⟩] }
      else
        { lastEnd := end_, oldIdx := oldIdx, lastOEnd := lastOEnd, ret := ret,
          retNext := retNext ++ [⟨oldIdx, start, end_⟩] }
    else
      { lastEnd := end_, oldIdx := oldIdx, lastOEnd := lastOEnd, ret := ret, retNext := retNext }
  else
    let retNext := retNext ++ [⟨st.oldIdx, start, end_⟩]
    if label = Lbl.o then
      { lastEnd := end_, oldIdx := st.oldIdx + 1, lastOEnd := end_, ret := ret, retNext := retNext }
    else
      { lastEnd := end_, oldIdx := st.oldIdx, lastOEnd := st.lastOEnd, ret := ret, retNext := retNext }

def iloop (lo lb : Int) : IState → List (Lbl × Int) → IState
  | st, a :: b :: rest => iloop lo lb (istep lo lb st a b) (b :: rest)
  | st, _ => st

/-- `_intersect_1d(breaks)` -/
def intersect1d (breaks : List (Lbl × Int)) : List (List Piece) :=
  let oPairs := breaks.filter (fun p => p.1 = Lbl.o)
  let lastOldChunkIdx : Int := (oPairs.length : Int) - 2
  let lastOBr : Int := (oPairs.getLast?.map (·.2)).getD 0
  let st := iloop lastOldChunkIdx lastOBr {} breaks
  if st.retNext ≠ [] then st.ret ++ [st.retNext] else st.ret

/-- one axis of `old_to_new(old_chunks, new_chunks)` (known sizes) -/
def oldToNew1d (old new : List Int) : List (List Piece) := intersect1d (breakpoints old new)

/-! ### `divide_to_width`, `merge_to_number` -/

def divideOne (c : Int) : Nat → Nat → List Int
  | _, 0 => []
  | nb, fuel + 1 =>
    -- iteration i = nb - (fuel+1): n = c // (nb_divides - i) = c // (fuel+1)
    let n := pyDiv c ((fuel : Int) + 1)
    n :: divideOne (c - n) nb fuel

/-- `divide_to_width(desired_chunks, max_width)`; `np.ceil(c / max_width)` taken exactly. -/
def divideToWidth (desired : List Int) (maxWidth : Int) : List Int :=
  desired.flatMap (fun c =>
    let nb := (ceilDiv c maxWidth).toNat
    divideOne c nb nb)

/-- next index `> j` (or `j` itself) holding a non-zero chunk -/
def nextNonzero (chunks : List Int) (j : Nat) : Nat → Nat
  | 0 => j
  | fuel + 1 => if chunks.getD j 0 = 0 then nextNonzero chunks (j + 1) fuel else j

/-- candidates `(width, i, j)`: for every live left index `i` (non-zero, not last) its
current right neighbour `j` and the sum. -/
def mergeCandidates (chunks : List Int) : List (Int × Nat × Nat) :=
  (List.range (chunks.length - 1)).filterMap (fun i =>
    if chunks.getD i 0 = 0 then none else
      let j := nextNonzero chunks (i + 1) chunks.length
      if j < chunks.length ∧ chunks.getD j 0 ≠ 0 then some (chunks.getD i 0 + chunks.getD j 0, i, j) else none)

def minCand : List (Int × Nat × Nat) → Option (Int × Nat × Nat)
  | [] => none
  | c :: cs => match minCand cs with
    | none => some c
    | some d => if c.1 < d.1 ∨ (c.1 = d.1 ∧ c.2.1 ≤ d.2.1) then some c else some d

def mergeLoop : Nat → List Int → List Int
  | 0, chunks => chunks
  | nm + 1, chunks =>
    match minCand (mergeCandidates chunks) with
    | none => chunks
    | some (w, i, j) => mergeLoop nm ((chunks.set i 0).set j w)

/-- `merge_to_number(desired_chunks, max_number)`.  The lazy-deletion heap of the Python is
modelled by its effect: repeatedly merge the adjacent live pair of minimal `(sum, left index)`. -/
def mergeToNumber (desired : List Int) (maxNumber : Int) : List Int :=
  if (desired.length : Int) ≤ maxNumber then desired else
  match desired with
  | [] => []
  | w :: rest =>
    if rest.all (· = w) then
      let n : Int := desired.length
      let total := n * w
      let desiredWidth := pyDiv total maxNumber
      let width := w * pyDiv desiredWidth w
      let adjust := pyDiv (total - maxNumber * width) w
      List.replicate adjust.toNat (width + w) ++ List.replicate (maxNumber - adjust).toNat width
    else
      let nmerges := ((desired.length : Int) - maxNumber).toNat
      (mergeLoop nmerges desired).filter (· ≠ 0)

/-! ### `moved_fraction` numerator and `_rechunk_stage_transfer` per-axis counters -/

/-- inner `while True` of `moved_fraction`: returns `(i, srcStart, best)` -/
def mfInner (src : List Int) (dstStart dstEnd : Int) : Nat → Nat → Int → Int → Nat × Int × Int
  | 0, i, srcStart, best => (i, srcStart, best)
  | fuel + 1, i, srcStart, best =>
    let srcEnd := srcStart + src.getD i 0
    let overlap := min srcEnd dstEnd - max srcStart dstStart
    let best := if overlap > best then overlap else best
    if srcEnd ≤ dstEnd ∧ i + 1 < src.length then mfInner src dstStart dstEnd fuel (i + 1) srcEnd best
    else (i, srcStart, best)

def mfOuter (src : List Int) : List Int → Nat → Int → Int → Int → Int
  | [], _, _, _, moved => moved
  | target :: rest, i, srcStart, dstStart, moved =>
    let dstEnd := dstStart + target
    let r := mfInner src dstStart dstEnd (src.length + 1) i srcStart 0
    mfOuter src rest r.1 r.2.1 dstEnd (moved + (target - r.2.2))

/-- numerator of `moved_fraction(src, dst)` (the result is `movedNum / sum src`), with the
early returns (`0.0`) of the Python. -/
def movedNum (src dst : List Int) : Int :=
  let total := isum src
  if total = 0 ∨ src = dst then 0
  else if isum dst ≠ total then 0
  else mfOuter src dst 0 0 0 0

structure AxisCounters where
  t : Int
  l : Int
  r : Int
  u : Int
  s : Int
deriving DecidableEq, Repr

/-- inner loop of `_rechunk_stage_transfer`: state `(j, oldStart, best, nSources, u, hits)` where
`hits` lists the old block indices whose `n_intersections` is incremented. -/
def stInner (old : List Int) (newStart newEnd : Int) :
    Nat → Nat → Int → Int → Nat → Int → List Nat → Nat × Int × Int × Nat × Int × List Nat
  | 0, j, oldStart, best, ns, u, hits => (j, oldStart, best, ns, u, hits)
  | fuel + 1, j, oldStart, best, ns, u, hits =>
    let oj := old.getD j 0
    let oldEnd := oldStart + oj
    let overlap := min oldEnd newEnd - max oldStart newStart
    let hit := overlap > 0
    let hits := if hit then hits ++ [j] else hits
    let ns := if hit then ns + 1 else ns
    let u := if hit ∧ overlap = oj then u + oj else u
    let best := if hit then max best overlap else best
    if oldEnd ≤ newEnd ∧ j + 1 < old.length then stInner old newStart newEnd fuel (j + 1) oldEnd best ns u hits
    else (j, oldStart, best, ns, u, hits)

def stOuter (old : List Int) : List Int → Nat → Int → Int → Int → Int → Int → List Nat → Int × Int × Int × List Nat
  | [], _, _, _, l, u, s, hits => (l, u, s, hits)
  | cnew :: rest, j, oldStart, newStart, l, u, s, hits =>
    let newEnd := newStart + cnew
    let r := stInner old newStart newEnd (old.length + 1) j oldStart 0 0 u hits
    let s := if r.2.2.2.1 ≤ 1 then s + cnew else s
    stOuter old rest r.1 r.2.1 newEnd (l + r.2.2.1) r.2.2.2.2.1 s r.2.2.2.2.2

/-- per-axis `(t_ax, l_ax, r_ax, u_ax, s_ax)` of `_rechunk_stage_transfer` -/
def stageAxis (old new : List Int) : AxisCounters :=
  let r := stOuter old new 0 0 0 0 0 0 []
  let hits := r.2.2.2
  let rAx := isum ((List.range old.length).map (fun j => old.getD j 0 * (hits.count j : Int)))
  ⟨isum old, r.1, rAx, r.2.1, r.2.2.1⟩

def iprod : List Int → Int
  | [] => 1
  | x :: xs => x * iprod xs

/-- `_rechunk_stage_transfer(old, new, itemsize)` as exact integers `(min, max)` -/
def stageTransfer (old new : List (List Int)) (itemsize : Int) : Int × Int :=
  let cs := List.zipWith stageAxis old new
  let total := iprod (cs.map (·.t))
  let largest := iprod (cs.map (·.l))
  let reads := iprod (cs.map (·.r))
  let uncut := iprod (cs.map (·.u))
  let single := iprod (cs.map (·.s))
  (itemsize * (total - largest), itemsize * (reads - uncut + total - single))

end Dask.Rechunk
