/-
Slice pushdown through reductions: `_accept_slice_impl` of /repo/dask_array/reductions/_reduction.py
(shared by `Reduction._accept_slice` and `PartialReduce._accept_slice`).  Core Lean only.

Python                                                        Lean
------------------------------------------------------------  ------------------------------------------
`reduced_axes` (a set) / `input_array.ndim`                   `mask ndim axes` (`ax in reduced_axes` per input axis)
`slice_expr.index` (None | int | slice per OUTPUT axis)       `List RIx`
`if any(idx is None …): return None`                          first branch of `splitIndex`
`if input_array.dtype == object: return None` (e9b96e9: the    second branch (`objIn`); argtopk reduces
   blocks need not be arrays, so they cannot be sliced)           (values, indices) PAIRS
`full_index = index + (slice(None),) * (nd - len(index))`     `fullIndex`  (`nd` = input ndim / number of kept axes)
`slice_index` (ints → `slice(i, i + 1)`, RAW `i`)             `intToSlice`
`input_index`, keepdims (`enumerate(slice_index)`)            `inputIndexKd`
`input_index`, keepdims=False (`out_pos` loop)                `inputIndexNoKd`
`all(idx == slice(None) for idx in input_index)` → None       third decline branch
`sliced_input.shape[ax] == 0` on a kept axis → None           `emptyKept` (fourth decline branch)
`final_index` (keepdims: the ORIGINAL item on reduced axes,   `finalKd` / `finalNoKd`
   `0` / `:` on kept axes; keepdims=False: `0` / `:`)
`SliceSlicesIntegers(result, final_index)` only if some       `Split.outer`
   item of `final_index` is not `slice(None)`

`output_size` does not occur in `_accept_slice_impl`: the kept reduced axis has length `output_size`
(`Reduction.chunks`), and the item on it is re-applied UNCHANGED on the output — that is what makes the
rule right for `topk` / `argtopk` (`output_size = |k|`), see `C02r_kept_axis_index_preserved`.

Denotation: a reduction is `(mask, keepdims, outputSize, r)` with an abstract per-lane function
`r : List α → List β` (sum: one value; topk: `k` values); the lane of an output position is the C-order list of
the input values over ALL reduced axes; with keepdims the output position's coordinates on the reduced axes
select the entry of `r lane` (C order in the `outputSize^k` box; for one reduced axis: the coordinate itself).
-/
import DaskArrayModel.Model.Expr
namespace Dask.RedSlice
open Dask.Py Dask.Py.PySlice Dask.Slicing Dask.ND

/-- one item of `slice_expr.index` -/
inductive RIx
  | none
  | int (k : Int)
  | slc (s : PySlice)
deriving DecidableEq, Repr

def RIx.isNone : RIx → Bool
  | .none => true
  | _ => false

def RIx.toIx? : RIx → Option Ix
  | .none => Option.none
  | .int k => some (.int k)
  | .slc s => some (.slc s)

/-- `ax in reduced_axes` for `ax in range(ndim)` -/
def mask (ndim : Nat) (axes : List Nat) : List Bool :=
  (List.range ndim).map (fun a => axes.contains a)

/-- number of output axes: `input_ndim` (keepdims) / `len(out_axis)` -/
def outNdim (msk : List Bool) (kd : Bool) : Nat :=
  if kd then msk.length else (msk.filter (fun m => !m)).length

/-- `index + (slice(None),) * (nd - len(index))` (a non-positive count appends nothing) -/
def fullIndex (msk : List Bool) (kd : Bool) (index : List Ix) : List Ix :=
  index ++ List.replicate (outNdim msk kd - index.length) (Ix.slc colon)

/-- `slice(idx, idx + 1) if isinstance(idx, Integral) else idx` -/
def intToSlice : Ix → PySlice
  | .int k => ⟨some k, some (k + 1), none⟩
  | .slc s => s

/-- keepdims: `tuple(slice(None) if ax in reduced_axes else idx for ax, idx in enumerate(slice_index))` -/
def inputIndexKd : List Bool → List PySlice → List PySlice
  | m :: ms, s :: ss => (if m then colon else s) :: inputIndexKd ms ss
  | [], ss => ss
  | _ :: _, [] => []

/-- keepdims=False: the `for in_ax in range(input_ndim)` loop; the running `out_pos` is the consumed prefix
of `slice_index` (`slice_index[out_pos]` past the end cannot happen: `full_index` has one item per kept axis) -/
def inputIndexNoKd : List Bool → List PySlice → List PySlice
  | [], _ => []
  | true :: ms, ss => colon :: inputIndexNoKd ms ss
  | false :: ms, s :: ss => s :: inputIndexNoKd ms ss
  | false :: _, [] => []

/-- `0 if isinstance(idx, Integral) else slice(None)` -/
def extract : Ix → Ix
  | .int _ => .int 0
  | .slc _ => .slc colon

/-- keepdims: `idx if ax in reduced_axes else (0 | slice(None))` over `enumerate(full_index)` -/
def finalKd : List Bool → List Ix → List Ix
  | m :: ms, x :: xs => (if m then x else extract x) :: finalKd ms xs
  | [], xs => xs.map extract
  | _ :: _, [] => []

/-- keepdims=False -/
def finalNoKd (full : List Ix) : List Ix := full.map extract

/-- `any(ax not in reduced_axes and sliced_input.shape[ax] == 0 for ax in range(input_ndim))` -/
def emptyKept : List Bool → List Nat → Bool
  | m :: ms, n :: ns => (!m && n == 0) || emptyKept ms ns
  | _, _ => false

structure Split where
  /-- `input_index` -/
  inp : List PySlice
  /-- `final_index` -/
  out : List Ix
  /-- whether a `SliceSlicesIntegers(result, final_index)` is put on top -/
  outer : Bool
deriving DecidableEq, Repr

def inputIndex (msk : List Bool) (kd : Bool) (full : List Ix) : List PySlice :=
  if kd then inputIndexKd msk (full.map intToSlice) else inputIndexNoKd msk (full.map intToSlice)

def finalIndex (msk : List Bool) (kd : Bool) (full : List Ix) : List Ix :=
  if kd then finalKd msk full else finalNoKd full

/-- `_accept_slice_impl` on a reduction of an input of shape `sh` over `axes`; `objIn` = `input_array.dtype == object`;
`none` = declined -/
def splitIndex (sh : List Nat) (axes : List Nat) (kd : Bool) (objIn : Bool) (index : List RIx) : Option Split :=
  if index.any RIx.isNone then none
  else if objIn then none
  else
    let msk := mask sh.length axes
    let full := fullIndex msk kd (index.filterMap RIx.toIx?)
    let inp := inputIndex msk kd full
    if inp.all (fun s => s == colon) then none
    else if emptyKept msk (sliceShape sh (inp.map Ix.slc)) then none
    else
      let fin := finalIndex msk kd full
      some ⟨inp, fin, fin.any (fun x => x != Ix.slc colon)⟩

/-! ### denotation -/

/-- shape of the reduction's output (`Reduction.chunks`: `(output_size,)` on a kept reduced axis) -/
def redShape (osz : Nat) (kd : Bool) : List Bool → List Nat → List Nat
  | true :: ms, _ :: ns => if kd then osz :: redShape osz kd ms ns else redShape osz kd ms ns
  | false :: ms, n :: ns => n :: redShape osz kd ms ns
  | _, _ => []

/-- the lane of output position `i`: the input values over all reduced axes, C order -/
def lane {α} (kd : Bool) : List Bool → List Nat → (List Nat → α) → List Nat → List α
  | [], _, g, _ => [g []]
  | true :: ms, n :: ns, g, i =>
    (List.range n).flatMap (fun t => lane kd ms ns (fun r => g (t :: r)) (if kd then i.tail else i))
  | false :: ms, _ :: ns, g, i => lane kd ms ns (fun r => g (i.headD 0 :: r)) i.tail
  | _ :: _, [], _, _ => []

/-- coordinates of output position `i` on the kept reduced axes (keepdims) -/
def rcoords (kd : Bool) : List Bool → List Nat → List Nat
  | true :: ms, i => if kd then i.headD 0 :: rcoords kd ms i.tail else rcoords kd ms i
  | false :: ms, i => rcoords kd ms i.tail
  | [], _ => []

/-- C-order position in the `osz × … × osz` box -/
def opos (osz : Nat) (rc : List Nat) : Nat := rc.foldl (fun acc c => acc * osz + c) 0

/-- `reduction(x, axis=axes, keepdims=kd, output_size=osz)` with lane function `r` -/
def reduceArr {α β} [Inhabited β] (r : List α → List β) (osz : Nat) (kd : Bool) (msk : List Bool)
    (x : Arr α) : Arr β :=
  ⟨redShape osz kd msk x.shape,
   fun i => (r (lane kd msk x.shape x.get i)).getD (opos osz (rcoords kd msk i)) default⟩

/-- `x[idx]` -/
def sliceArr {α} (x : Arr α) (idx : List Ix) : Arr α :=
  ⟨sliceShape x.shape idx, fun i => x.get (sliceIdx x.shape idx i)⟩

/-- the rewritten expression: `reduce(x[input_index])[final_index]` (no outer slice when `outer = false`) -/
def pushed {α β} [Inhabited β] (r : List α → List β) (osz : Nat) (kd : Bool) (msk : List Bool)
    (x : Arr α) (sp : Split) : Arr β :=
  let red := reduceArr r osz kd msk (sliceArr x (sp.inp.map Ix.slc))
  if sp.outer then sliceArr red sp.out else red

/-- the original expression: `reduce(x)[index]` -/
def original {α β} [Inhabited β] (r : List α → List β) (osz : Nat) (kd : Bool) (msk : List Bool)
    (x : Arr α) (index : List Ix) : Arr β :=
  sliceArr (reduceArr r osz kd msk x) (fullIndex msk kd index)

/-- insertion into a descending list -/
def insDesc (v : Int) : List Int → List Int
  | [] => [v]
  | w :: ws => if w ≤ v then v :: w :: ws else w :: insDesc v ws

/-- a topk-like lane function: the `k` largest, descending (`chunk.topk` / `topk_aggregate`, k > 0) -/
def topkLane (k : Nat) (l : List Int) : List Int := (l.foldr insDesc []).take k

/-- a sum-like lane function (one value) -/
def sumLane (l : List Int) : List Int := [l.foldl (· + ·) 0]

/-- input axis of output axis `j` when keepdims=False: the `j`-th kept axis (`out_axis[j]`) -/
def outAxis : List Bool → Nat → Nat → Option Nat
  | [], _, _ => Option.none
  | true :: ms, a, j => outAxis ms (a + 1) j
  | false :: _, a, 0 => some a
  | false :: ms, a, j + 1 => outAxis ms (a + 1) j

end Dask.RedSlice
