/-
C04 — Graphs are closed, acyclic and produce exactly the advertised keys (theorem side).

The LAYER CONTRACT (`LayerContract` + `OwnedLayer`, Model/Graph.lean) is a LOCAL fact about one
`_layer()`; harness/props/C04.py monitors it on every real layer of every generated program
(optimize-graph on and off).  These theorems lift the monitored local facts to the merged graph
`toolz.merge(layers)` of EVERY expression DAG (no size bound).
-/
import DaskArrayModel.Lemmas.Graph
namespace Dask.Props.C04
open Dask.Graph

/-- Every layer defines its grid and references only its own keys or block keys of declared
dependencies, and the node set is closed under `dependencies()` ⇒ the merged graph is closed.
Holds for arbitrary, also overlapping, layers (SetItem's embedded sub-graph, Shuffle literals). -/
theorem C04_layers_closed {ν : Type} (nodes : List (ENode ν))
    (hc : ∀ n ∈ nodes, LayerContract n) (hw : WalkClosed nodes) : closed (unionLayers nodes) :=
  Dask.Lemmas.Graph.layers_closed hc hw

/-- The merged graph has distinct keys (it is a dict) whenever the layers have. -/
theorem C04_union_wf {ν : Type} (nodes : List (ENode ν))
    (h : ∀ n ∈ nodes, (keys n.layer).Nodup) : WF (unionLayers nodes) :=
  Dask.Lemmas.Graph.WF_unionLayers h

/-- The merged graph defines `rootName × grid(numblocks root)`. -/
theorem C04_root_keys {ν : Type} (nodes : List (ENode ν)) (root : ENode ν) (hr : root ∈ nodes)
    (hc : LayerContract root) :
    ∀ i ∈ grid root.numblocks, blockKey root.name i ∈ keys (unionLayers nodes) :=
  Dask.Lemmas.Graph.root_keys hr hc

/-- … and, with owned layers and distinct names, nothing else under the root's public name. -/
theorem C04_root_keys_exact {ν : Type} (nodes : List (ENode ν)) (root : ENode ν) (hr : root ∈ nodes)
    (ho : ∀ n ∈ nodes, OwnedLayer n)
    (hnames : ∀ n ∈ nodes, ∀ m ∈ nodes, n.name = m.name → n = m) :
    ∀ k ∈ keys (unionLayers nodes), k.owner = root.name → k.tag = "" → k.idx ∈ grid root.numblocks :=
  Dask.Lemmas.Graph.root_keys_exact hr ho hnames

/-- Expression DAG in dependency order (distinct names), owned layers satisfying the contract,
each layer internally ordered relative to the block keys of its declared dependencies ⇒ the
concatenation of the per-layer orders in DAG order is a topological order of the merged graph. -/
theorem C04_acyclic {ν : Type} (nodes : List (ENode ν)) (ord : ENode ν → List Key)
    (hd : DagFrom [] nodes) (hc : ∀ n ∈ nodes, LayerContract n ∧ OwnedLayer n)
    (hord : ∀ n ∈ nodes, TopoFrom n.layer (depGrid n) (ord n) ∧ ∀ k ∈ keys n.layer, k ∈ ord n) :
    IsTopo (unionLayers nodes) (nodes.flatMap ord) :=
  Dask.Lemmas.Graph.union_acyclic ord hd hc hord

/-- The `RootAlias` layer `(raw, i…) ↦ (opt, i…)` satisfies the layer contract, is owned by `raw`,
and (when `raw` differs from the optimized root's name) is ordered by its key list. -/
theorem C04_rootalias_layer {ν : Type} [Inhabited ν] (raw : String) (opt : ENode ν) :
    LayerContract (rootAlias raw opt) ∧ OwnedLayer (rootAlias raw opt) ∧
    (raw ≠ opt.name → TopoFrom (rootAlias raw opt).layer (depGrid (rootAlias raw opt))
      (keys (rootAlias raw opt).layer)) :=
  ⟨Dask.Lemmas.Graph.rootAlias_contract raw opt, Dask.Lemmas.Graph.rootAlias_owned raw opt,
   Dask.Lemmas.Graph.rootAlias_topo raw opt⟩

/-- `_materialize` raises exactly when optimization renamed the root AND the raw name is the name
of a node of the optimized tree (the embedded-root guard); otherwise the node list stays in
dependency order with distinct names. -/
theorem C04_materialize_guard {ν : Type} [Inhabited ν] (raw : String) (pre : List (ENode ν))
    (root : ENode ν) :
    ((∃ e, materialize raw pre root = .error e) ↔
      root.name ≠ raw ∧ raw ∈ (pre ++ [root]).map (·.name)) ∧
    ∀ nodes, materialize raw pre root = .ok nodes → DagFrom [] (pre ++ [root]) → DagFrom [] nodes :=
  ⟨Dask.Lemmas.Graph.materialize_error_iff raw pre root,
   fun _ hm hd => (Dask.Lemmas.Graph.materialize_ok hm hd).1⟩

/-- THE MATERIALIZED GRAPH: layer contract on every layer of the optimized tree + `_materialize`
does not raise ⇒ the merged graph (with the pin) has distinct keys, is closed, is acyclic, and
defines `raw × grid(numblocks)` — the name is the raw name whether or not optimization renamed
the root. -/
theorem C04_materialized_graph {ν : Type} [Inhabited ν] (raw : String) (pre : List (ENode ν))
    (root : ENode ν) (nodes : List (ENode ν)) (ord : ENode ν → List Key)
    (hm : materialize raw pre root = .ok nodes) (hd : DagFrom [] (pre ++ [root]))
    (hc : ∀ n ∈ pre ++ [root], LayerContract n ∧ OwnedLayer n)
    (hord : ∀ n ∈ pre ++ [root],
      TopoFrom n.layer (depGrid n) (ord n) ∧ ∀ k ∈ keys n.layer, k ∈ ord n) :
    WF (unionLayers nodes) ∧ closed (unionLayers nodes) ∧ acyclic (unionLayers nodes) ∧
    ∀ i ∈ grid root.numblocks, blockKey raw i ∈ keys (unionLayers nodes) :=
  Dask.Lemmas.Graph.materialized_graph ord hm hd hc hord

/-! ### non-vacuity and the witness for the embedded-root guard -/

/-- a 2-block source `x`, and `y = f(x)` blockwise -/
def nodeX : ENode Int :=
  { name := "x", numblocks := [2], deps := [],
    layer := [(blockKey "x" [0], ⟨[], fun _ => 1⟩), (blockKey "x" [1], ⟨[], fun _ => 2⟩)] }
def nodeY : ENode Int :=
  { name := "y", numblocks := [2], deps := [("x", [2])],
    layer := [(blockKey "y" [0], ⟨[blockKey "x" [0]], fun vs => vs.headD 0 + 10⟩),
              (blockKey "y" [1], ⟨[blockKey "x" [1]], fun vs => vs.headD 0 + 10⟩)] }

example : grid [2, 3] = [[0, 0], [0, 1], [0, 2], [1, 0], [1, 1], [1, 2]] := by decide
example : grid [] = [[]] := by decide

/-- optimization renamed the root (`raw = "r"`): the pin is appended and the merged graph
evaluates the advertised keys -/
example : (materialize "r" [nodeX] nodeY).toOption.map (fun ns => ns.map (·.name))
    = some ["x", "y", "r"] := by decide
example : keys (unionLayers [nodeX, nodeY, rootAlias "r" nodeY])
    = [blockKey "x" [0], blockKey "x" [1], blockKey "y" [0], blockKey "y" [1],
       blockKey "r" [0], blockKey "r" [1]] := by decide
example : (evalOrder (unionLayers [nodeX, nodeY, rootAlias "r" nodeY])
      (keys (unionLayers [nodeX, nodeY, rootAlias "r" nodeY])) Env.empty).map
      (fun e => [e (blockKey "r" [0]), e (blockKey "r" [1])]) = some [some 11, some 12] := by decide

/-- the guard: the raw name is the name of the inner node `x` -/
example : (materialize "x" [nodeX] nodeY).toOption.isNone = true := by decide
/-- WITHOUT the guard two layers would define the same key … -/
example : blockKey "x" [0] ∈ keys nodeX.layer ∧ blockKey "x" [0] ∈ keys (rootAlias "x" nodeY).layer := by
  decide
/-- … and the merged graph (later layer wins) would contain the cycle `x[0] → y[0] → x[0]` -/
example : ((getTask (unionLayers [nodeX, nodeY, rootAlias "x" nodeY]) (blockKey "x" [0])).map (·.deps),
           (getTask (unionLayers [nodeX, nodeY, rootAlias "x" nodeY]) (blockKey "y" [0])).map (·.deps))
    = (some [blockKey "y" [0]], some [blockKey "x" [0]]) := by decide

end Dask.Props.C04
