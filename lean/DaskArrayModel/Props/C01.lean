/-
C01 — Array programs compute what NumPy computes, whatever chunking the inputs have.
ONLY property theorems (restated; proofs are one-liners from Lemmas/Expr*) and non-vacuity
examples.  The statements hold for EVERY well-formed `Expr` (any depth, rank, shape — 0- and
1-length axes included — and any chunking, zero-length chunks included), every data / function
environment, every block.

Ops covered by the FULL theorem = ALL constructors of `Expr`: `src`, `map`, `zip` (same shape,
same chunks; NumPy broadcasting = explicit `broadcastTo` of the operands), `slice` (ints, slices
of any sign / step), `transpose`, `rechunk` (one crosswalk step), `concat` (binary; n-ary =
`Expr.concatN`), `expandDims`, `squeeze`, `broadcastTo`, `reduce` (sum / max / min, one axis,
keepdims, tree with any `split_every ≥ 2`; several axes = `Expr.reduceN`, keepdims=False =
`squeeze`), `cumsum` (sequential), `mapBlocks` (shape-preserving block function; its meaning is
per block by definition), and the derived `Expr.flip`.  There is no `…_partial` theorem.

`EnvOK env` only constrains the `map_blocks` functions (`env.blk`): they must be functions of the
block's value and keep its shape; it holds for every environment whose `blk` is the default.
-/
import DaskArrayModel.Lemmas.ExprCorrect
namespace Dask.Props.C01
open Dask.Py Dask.ND

/-- Refinement: the value the task for output block `bid` computes is exactly the block of the
NumPy meaning on the extent that `.chunks` advertises for `bid`. -/
theorem C01_blockDen_correct (env : Env) (henv : EnvOK env) (e : Expr) (bid : List Nat)
    (hwf : WF e) (hbid : validBid (chunks e) bid) :
    Arr.Equiv (blockDen env e bid) (restrict (den env e) (extent (chunks e) bid)) :=
  blockDen_correct env henv e hwf bid hbid

/-- `compute()` (assembling all computed blocks along `.chunks`) gives the NumPy meaning. -/
theorem C01_compute_eq_den (env : Env) (henv : EnvOK env) (e : Expr) (hwf : WF e) :
    Arr.Equiv (assemble (chunks e) (fun bid => blockDen env e bid)) (den env e) :=
  compute_eq_den env henv e hwf

/-- … hence the same flat data (C order), for every chunking of the same program. -/
theorem C01_compute_data (env : Env) (henv : EnvOK env) (e : Expr) (hwf : WF e) :
    (compute env e).toList = (den env e).toList :=
  (compute_eq_den env henv e hwf).toList_eq

/-- the hypothesis on the environment is satisfiable: identity block functions -/
theorem C01_envOK_default (src : Nat → Arr Int) (un : Nat → Int → Int) (bin : Nat → Int → Int → Int) :
    EnvOK { src := src, un := un, bin := bin } :=
  fun _ _ _ h => ⟨h, rfl⟩

/-- splitting an array into blocks and assembling them is the identity -/
theorem C01_assemble_blocksOf (a : Arr Int) (l : Layout) (h : l.map List.sum = a.shape) :
    Arr.Equiv (assemble l (blocksOf a l)) a :=
  assemble_blocksOf a l h

/-! non-vacuity: a 2-D source 4×5 with chunks ((2,2),(3,2)), sliced `[1:4:2, ::-1]`, transposed,
rechunked, concatenated with itself, then indexed with an integer; `WF` holds, the blocks are
non-trivial, and the assembled result is the NumPy value.  (`decide` where the kernel can
evaluate; `#guard` = compiled evaluation where the rechunk crosswalk, defined by well-founded
recursion, does not reduce in the kernel.) -/

def exEnv : Env :=
  { src := fun _ => ⟨[4, 5], fun i => (flatIndex [4, 5] i : Int)⟩
    un := fun _ x => -x
    bin := fun _ x y => x + y }
def exSrc : Expr := .src 0 [4, 5] [[2, 2], [3, 2]]
def exSlice : Expr := .slice exSrc [.slc ⟨some 1, some 4, some 2⟩, .slc ⟨none, none, some (-1)⟩]
def exT : Expr := .transpose exSlice [1, 0]
def exR : Expr := .rechunk exT [[1, 4], [2]]
def exC : Expr := .concat exR (.map 0 exR) 0
def exI : Expr := .slice (.zip 0 exC exC) [.int (-3), .slc ⟨none, none, none⟩]

example : WF exC := by decide
example : WF exI := by decide
example : shape exC = [10, 2] ∧ chunks exC = [[1, 4, 1, 4], [2]] := by decide
example : chunks exSlice = [[1, 1], [2, 3]] := by decide
example : validBid (chunks exC) [3, 0] := by decide
example : (den exEnv exSlice).toList = [9, 8, 7, 6, 5, 19, 18, 17, 16, 15] := by decide
example : (blockDen exEnv exSlice [1, 1]).shape = [1, 3] ∧
    (blockDen exEnv exSlice [1, 1]).toList = [17, 16, 15] := by decide
#guard (blockDen exEnv exC [1, 0]).toList == [8, 18, 7, 17, 6, 16, 5, 15]
#guard (blockDen exEnv exC [3, 0]).toList == [-8, -18, -7, -17, -6, -16, -5, -15]
#guard (compute exEnv exC).toList == (den exEnv exC).toList
#guard (den exEnv exI).toList == [-14, -34] && (compute exEnv exI).toList == [-14, -34]
/-- the later ops: reduce (tree, split_every 2, three blocks), squeeze, broadcast, cumsum, flip -/
def exRed : Expr := .reduce .sum (.src 0 [4, 5] [[2, 2], [3, 1, 1]]) 1 2
def exSq : Expr := .squeeze exRed 1
def exBc : Expr := .zip 0 exSrc (.broadcastTo (.reduce .max exSrc 1 4) [4, 5] [[2, 2], [3, 2]])
def exCum : Expr := .cumsum (Expr.flip exSrc 2 0) 1
example : WF exSq ∧ WF exBc ∧ WF exCum := by decide
example : chunks exRed = [[2, 2], [1]] ∧ chunks exSq = [[2, 2]] := by decide
example : (den exEnv exSq).toList = [10, 35, 60, 85] := by decide
#guard (compute exEnv exSq).toList == [10, 35, 60, 85]
#guard (blockDen exEnv exSq [1]).toList == [60, 85]
#guard (compute exEnv exBc).toList == (den exEnv exBc).toList
#guard (den exEnv exBc).toList.take 5 == [4, 5, 6, 7, 8]
#guard (compute exEnv exCum).toList == (den exEnv exCum).toList
#guard (den exEnv exCum).toList.take 5 == [15, 31, 48, 66, 85]
#guard (blockDen exEnv exCum [0, 1]).toList == [66, 85, 46, 60]
/-- a zero-length axis and a zero-length chunk -/
example : WF (.slice (.src 0 [3, 0] [[2, 0, 1], [0]]) [.slc ⟨none, none, some (-1)⟩, .slc ⟨none, none, none⟩]) := by
  decide
/-- ill-formed programs are rejected: out-of-range integer, non-permutation, chunk mismatch -/
example : ¬ WF (.slice exSrc [.int 4, .slc ⟨none, none, none⟩]) := by decide
example : ¬ WF (.transpose exSrc [0, 0]) := by decide
example : ¬ WF (.zip 0 exSrc (.rechunk exSrc [[4], [5]])) := by decide

end Dask.Props.C01
