/-
C27 — Transfer estimates are well-formed (rechunk-stage estimate and `moved_fraction`).
Only the property theorems (restated, proved by one-liners from Lemmas.Transfer) and
non-vacuity examples.  `movedNum src dst` is the integer numerator of
`moved_fraction(src, dst)` (the fraction is `movedNum / isum src`, the division being the only
float); `stageTransfer` is `_rechunk_stage_transfer` over exact integers.
-/
import DaskArrayModel.Lemmas.Transfer
namespace Dask.Props.C27
open Dask.Py Dask.Rechunk Dask.Lemmas.Transfer

/-- the moved fraction is `≥ 0` (all layouts, zero-length blocks allowed) -/
theorem C27_movedNum_nonneg (src dst : List Int)
    (hs : ∀ c ∈ src, 0 ≤ c) (hd : ∀ c ∈ dst, 0 ≤ c) : 0 ≤ movedNum src dst :=
  movedNum_nonneg src dst hs hd

/-- the moved fraction is `≤ 1`: numerator ≤ total -/
theorem C27_movedNum_le_total (src dst : List Int)
    (hs : ∀ c ∈ src, 0 ≤ c) (hd : ∀ c ∈ dst, 0 ≤ c) : movedNum src dst ≤ isum src :=
  movedNum_le_total src dst hs hd

/-- identical layouts move nothing -/
theorem C27_movedNum_self (src : List Int) : movedNum src src = 0 :=
  movedNum_self src

/-- pure splits move nothing: `dst = gs.flatten` refines `src = gs.map isum` (every `dst` block
lies inside one `src` block; zero-length blocks and empty groups allowed) -/
theorem C27_movedNum_split (gs : List (List Int)) (hg : ∀ g ∈ gs, ∀ x ∈ g, 0 ≤ x) :
    movedNum (gs.map isum) gs.flatten = 0 :=
  movedNum_split gs hg

/-- per-axis counters of a rechunk stage: `0 ≤ s ≤ l ≤ t` and `0 ≤ u ≤ r` -/
theorem C27_stageAxis_facts (old new : List Int) (ho : ∀ x ∈ old, 0 ≤ x) (hn : ∀ x ∈ new, 0 ≤ x)
    (hne : old ≠ []) (hsum : isum old = isum new) :
    0 ≤ (stageAxis old new).s ∧ (stageAxis old new).s ≤ (stageAxis old new).l ∧
    (stageAxis old new).l ≤ (stageAxis old new).t ∧
    0 ≤ (stageAxis old new).u ∧ (stageAxis old new).u ≤ (stageAxis old new).r :=
  stageAxis_facts old new ho hn hne hsum

/-- a rechunk stage of any rank reports `0 ≤ min ≤ max` -/
theorem C27_stageTransfer_bounds (old new : List (List Int)) (it : Int) (hit : 0 ≤ it)
    (h : ∀ p ∈ old.zip new, AxisOK p.1 p.2) :
    0 ≤ (stageTransfer old new it).1 ∧
      (stageTransfer old new it).1 ≤ (stageTransfer old new it).2 :=
  stageTransfer_bounds old new it hit h

/-- a rechunk stage to the same (positive) chunks reports `(0, 0)` -/
theorem C27_stageTransfer_same (old : List (List Int)) (it : Int)
    (hpos : ∀ c ∈ old, ∀ x ∈ c, 0 < x) : stageTransfer old old it = (0, 0) :=
  stageTransfer_same old it hpos

/-! ### non-vacuity -/

-- heal a sliver: (1,719,720) → (720,720) moves 1 of 1440
example : movedNum [1, 719, 720] [720, 720] = 1 ∧ isum [1, 719, 720] = 1440 := by decide
-- a true merge moves most bytes: 40 of 60; bounds are strict here
example : movedNum [10, 10, 10, 10, 10, 10] [30, 30] = 40 := by decide
example : 0 < movedNum [10, 10, 10, 10, 10, 10] [30, 30] ∧
    movedNum [10, 10, 10, 10, 10, 10] [30, 30] < isum [10, 10, 10, 10, 10, 10] := by decide
-- the upper bound is approached but the lower bound is attained by splits
example : movedNum [30, 30] [10, 10, 10, 10, 10, 10] = 0 :=
  C27_movedNum_split [[10, 10, 10], [10, 10, 10]] (by decide)
-- split with a zero-length block and an empty group
example : movedNum ([[2, 0, 1], [], [4]].map isum) [[2, 0, 1], [], [4]].flatten = 0 :=
  C27_movedNum_split _ (by decide)
example : movedNum [100, 100, 100, 100] [100, 100, 100, 100] = 0 := C27_movedNum_self _
-- the hypotheses of the stage theorem are satisfiable and the estimate is non-trivial
example : AxisOK [1, 719, 720] [720, 720] := by
  refine ⟨by decide, by decide, by decide, by decide⟩
example : stageAxis [1, 719, 720] [720, 720] = ⟨1440, 1439, 1440, 1440, 720⟩ := by decide
example : stageTransfer [[1, 719, 720], [4, 4]] [[720, 720], [8]] 8 = (46112, 92160) := by decide
example : stageTransfer [[3, 4], [5]] [[3, 4], [5]] 8 = (0, 0) :=
  C27_stageTransfer_same _ _ (by decide)

end Dask.Props.C27
