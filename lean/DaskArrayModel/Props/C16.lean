/-
C16 — Chunk normalisation produces valid layouts within the byte limit.
ONLY property theorems (restated; proofs are one-liners from Lemmas/Chunks.lean) and non-vacuity examples.
Every statement is for ALL axis lengths, ALL block sizes, ALL specs and ALL oracle values (no size bound).
Model: Model/Chunks.lean (what is / is not modelled is listed in its header); spec vocabulary:
Model/ChunksSpec.lean (`AxisOK`, `AllAxesOK`, `blockElems`, `orcOK`, `FixedNonneg`).

`…_partial` theorems: the float root `(limit/itemsize/largest_block) ** (1/#autos)` of `auto_chunks` is an
ORACLE; the theorems hold for every oracle value satisfying `orcOK` (i.e. `isize^k·largest_block·itemsize ≤
limit` at every recursion level), which the harness checks on the real floats on every run.  What is missing
for the unconditional statement is exactly a proof about IEEE `pow` (false beyond 2^48 elements, see the
known finding `auto:limit-exceeded:float-root`).  The `previous_chunks` branch is not covered by a limit
theorem: the literal bound is false there by design (`array.chunk-size-tolerance`, known finding
`auto:previous_chunks-tolerance`); only its integer merge kernel is proved (`mergePrev_spec`).
-/
import DaskArrayModel.Lemmas.Chunks
namespace Dask.Props.C16
open Dask.Py Dask.Chunks

/-- `blockdims_from_blockshape` / uniform int chunk `c ≥ 1` on an axis of length `n ≥ 0`: non-empty, sums to
`n`; `n = 0 ↦ (0,)`; otherwise `k` blocks of size `c` followed by one last block in `(0, c]`. -/
theorem uniform_wellformed (n c : Int) (hn : 0 ≤ n) (hc : 1 ≤ c) :
    ∃ l, blockdim n c = .ok l ∧ l ≠ [] ∧ isum l = n ∧ (n = 0 → l = [0]) ∧
      (0 < n → ∃ (k : Nat) (r : Int), l = List.replicate k c ++ [r] ∧ 0 < r ∧ r ≤ c) :=
  Dask.Lemmas.Chunks.uniform_wellformed n c hn hc

/-- … hence every block of a non-empty axis is positive and at most `c`. -/
theorem uniform_entries (n c : Int) (hn : 0 < n) (hc : 1 ≤ c) (l : List Int)
    (h : blockdim n c = .ok l) : ∀ x ∈ l, 0 < x ∧ x ≤ c :=
  Dask.Lemmas.Chunks.uniform_entries n c hn hc l h

/-- One axis, EVERY accepted spec kind (int incl. 0 / negative, -1, None, explicit tuple): if
`normalize_chunks` returns `l` for an axis of length `s ≥ 0` then `l` is non-empty, all sizes are `≥ 0`,
they sum to `s`; an explicit tuple is echoed unchanged (it may carry the user's own zeros); for every other
kind a zero-size block occurs only when `s = 0`.  (`hai`: the `allints` fast path is only taken for int specs.) -/
theorem normalizeAxis_wellformed (ai : Bool) (c : Spec) (s : Int) (hs : 0 ≤ s) (l : List Int)
    (hai : ai = true → isIntSpec (fillFull c s) = true)
    (h : normAxis ai c s = .ok l) :
    l ≠ [] ∧ (∀ x ∈ l, 0 ≤ x) ∧ isum l = s ∧
      (∀ t, c = .tuple t → l = t) ∧ ((∀ t, c ≠ .tuple t) → 0 ∈ l → s = 0) :=
  Dask.Lemmas.Chunks.normalizeAxis_wellformed ai c s hs l hai h

/-- The whole of `normalize_chunks` (no `previous_chunks`): for all specs (ints, -1, None, tuples, "auto",
byte strings, any mixture), every `limit`, every oracle list: whenever it returns, it returns one valid
layout per axis of the shape. -/
theorem C16_wellformed (orc : List (Nat × Bool)) (limit : Option Int) (chunks : List Spec)
    (shape : List Int) (out : List (List Int)) (hsh : ∀ s ∈ shape, 0 ≤ s)
    (h : normalizeChunks orc limit chunks shape = .ok out) :
    AllAxesOK out shape :=
  Dask.Lemmas.Chunks.normalizeChunks_wellformed orc limit chunks shape out hsh h

/-- `round_to(c, s)` for `s ≥ 1`: a positive size, never above `max 1 c`; `c` itself when `c ≤ s`, else the
largest multiple of `s` not exceeding `c`. -/
theorem roundTo_spec (c s : Int) (hs : 1 ≤ s) :
    ∃ r, roundTo c s = .ok r ∧ 1 ≤ r ∧ r ≤ max 1 c ∧
      (c ≤ s → r = max 1 c) ∧ (s < c → s ∣ r ∧ r ≤ c ∧ c < r + s) :=
  Dask.Lemmas.Chunks.roundTo_spec c s hs

/-- `round_to` applied to a float known by its floor and exactness. -/
theorem roundToF_spec (cf : Nat) (exact : Bool) (s : Int) (hs : 1 ≤ s) :
    ∃ r, roundToF cf exact s = .ok r ∧ 1 ≤ r ∧ r ≤ max 1 (cf : Int) ∧
      (leF cf exact s = true → r = max 1 (cf : Int)) :=
  Dask.Lemmas.Chunks.roundToF_spec cf exact s hs

/-- `auto_chunks` without `previous_chunks`, for EVERY oracle list satisfying the oracle relation: if the
fixed axes alone fit in the limit, no auto axis is left and `largest_block(result) · itemsize ≤ limit`. -/
theorem auto_limit_noprev_partial (limit itemsize : Int) (hi : 0 ≤ itemsize)
    (orc : List (Nat × Bool)) (chunks : List Spec) (shape : List Int) (out : List Spec)
    (hlen : chunks.length = shape.length) (hsh : ∀ s ∈ shape, 0 ≤ s) (hf : FixedNonneg chunks)
    (hfit : largestBlock chunks * itemsize ≤ limit)
    (horc : orcOK limit itemsize orc chunks shape = true)
    (h : autoNoPrev orc chunks shape = .ok out) :
    numAutos out = 0 ∧ largestBlock out * itemsize ≤ limit :=
  Dask.Lemmas.Chunks.auto_limit_noprev_partial limit itemsize hi orc chunks shape out hlen hsh hf hfit horc h

/-- … carried through `normalize_chunks` to the RETURNED layout: the largest block (`∏ max` of the per-axis
tuples) times `itemsize` is within the limit. -/
theorem normalize_auto_limit_noprev_partial (limit itemsize : Int) (hi : 0 ≤ itemsize)
    (orc : List (Nat × Bool)) (lim : Option Int) (chunks c1 : List Spec) (shape : List Int)
    (out : List (List Int)) (hsh : ∀ s ∈ shape, 0 ≤ s)
    (hp : prepare chunks shape = .ok c1)
    (hf : FixedNonneg (c1.map bytesToAuto))
    (hfit : largestBlock (c1.map bytesToAuto) * itemsize ≤ limit)
    (horc : orcOK limit itemsize orc (c1.map bytesToAuto) shape = true)
    (h : normalizeChunks orc lim chunks shape = .ok out) :
    blockElems out * itemsize ≤ limit :=
  Dask.Lemmas.Chunks.normalize_auto_limit_noprev_partial limit itemsize hi orc lim chunks c1 shape out hsh hp hf
    hfit horc h

/-- fuel: `#autos` oracle entries always suffice (every recursion level removes at least one auto axis). -/
theorem auto_fuel (orc : List (Nat × Bool)) (chunks : List Spec) (shape : List Int)
    (hfuel : numAutos chunks ≤ orc.length) : autoNoPrev orc chunks shape ≠ .error .oracleExhausted :=
  Dask.Lemmas.Chunks.autoNoPrev_fuel orc chunks shape hfuel

/-- the greedy merge of the `previous_chunks` branch keeps the axis length, yields positive blocks only, none
above any common bound `B` of `floor proposed` and the previous chunks. -/
theorem mergePrev_spec (pf B : Int) (prev : List Int) (hp : ∀ c ∈ prev, 0 ≤ c ∧ c ≤ B) (hB : 0 ≤ B)
    (hpf : pf ≤ B) :
    isum (mergePrev pf prev) = isum prev ∧ (∀ x ∈ mergePrev pf prev, 0 < x ∧ x ≤ B) :=
  Dask.Lemmas.Chunks.mergePrev_spec pf B prev hp hB hpf

/-! ### non-vacuity: every hypothesis set is inhabited, every conclusion is exercised on a concrete input -/

example : blockdim 10 4 = .ok [4, 4, 2] := by decide
example : blockdim 0 7 = .ok [0] := by decide
example : blockdim 8 4 = .ok [4, 4] := by decide
-- uniform_wellformed / uniform_entries hypotheses hold for (10, 4)
example : (0:Int) ≤ 10 ∧ (1:Int) ≤ 4 ∧ ∀ x ∈ [(4:Int), 4, 2], 0 < x ∧ x ≤ 4 := by decide
-- normalizeAxis_wellformed: accepted specs of each kind …
example : normAxis true (.int 3) 7 = .ok [3, 3, 1] := by decide
example : normAxis true (.int (-1)) 7 = .ok [7] := by decide
example : normAxis false .none 7 = .ok [7] := by decide
example : normAxis false (.tuple [0, 5, 2]) 7 = .ok [0, 5, 2] := by decide
example : normAxis true (.int 0) 0 = .ok [0] := by decide
-- … and the refusals the theorem relies on (negative sizes, bad sums, zero block size)
example : normAxis true (.int (-2)) 5 = .error .valueError := by decide
example : normAxis false (.tuple [3, -1, 2]) 4 = .error .valueError := by decide
example : normAxis false (.tuple [2, 2]) 5 = .error .valueError := by decide
example : normAxis true (.int 0) 5 = .error .zeroDivisionError := by decide
-- C16_wellformed on a mixture incl. "auto" and a byte string
example : normalizeChunks [(3, false)] none [.auto, .int 3, .none, .tuple [1, 2]] [10, 10, 4, 3]
    = .ok [[3, 3, 3, 1], [3, 3, 3, 1], [4], [1, 2]] := by decide
example : normalizeChunks [(2, true)] (some 4) [.bytes 4, .int (-1)] [5, 1] = .ok [[2, 2, 1], [1]] := by decide
example : normalizeChunks [] none [.int 2, .int 3] [5] = .ok [[2, 3]] := by decide
-- roundTo_spec
example : roundTo 7 3 = .ok 6 ∧ roundTo 2 3 = .ok 2 ∧ roundTo 0 3 = .ok 1 := by decide
example : roundToF 7 false 3 = .ok 6 ∧ roundToF 3 false 3 = .ok 3 ∧ roundToF 3 true 3 = .ok 3 := by decide
-- auto_limit_noprev_partial: hypotheses hold (limit 100 B, itemsize 8, fixed axis 3: 24 B ≤ 100 B, floor root 4:
-- 4·3·8 = 96 ≤ 100) and the conclusion is tight
example : orcOK 100 8 [(4, false)] [.auto, .int 3] [10, 10] = true
    ∧ autoNoPrev [(4, false)] [.auto, .int 3] [10, 10] = .ok [.int 4, .int 3]
    ∧ largestBlock [.auto, .int 3] * 8 ≤ 100 ∧ largestBlock [.int 4, .int 3] * 8 ≤ 100 := by decide
-- two levels (the short auto axis takes its whole length first)
example : orcOK 64 1 [(8, true), (32, true)] [.auto, .auto] [2, 100] = true
    ∧ autoNoPrev [(8, true), (32, true)] [.auto, .auto] [2, 100] = .ok [.tuple [2], .int 32] := by decide
-- the oracle relation is needed: an oracle value that violates it breaks the bound
example : orcOK 100 8 [(5, false)] [.auto, .int 3] [10, 10] = false
    ∧ autoNoPrev [(5, false)] [.auto, .int 3] [10, 10] = .ok [.int 5, .int 3]
    ∧ ¬ (largestBlock [.int 5, .int 3] * 8 ≤ 100) := by decide
-- "unless the fixed axes alone exceed it": fixed 3·8 = 24 B > 16 B, auto axis gets blocks of one element
example : autoNoPrev [(0, false)] [.auto, .int 3] [10, 10] = .ok [.int 1, .int 3]
    ∧ orcOK 16 8 [(0, false)] [.auto, .int 3] [10, 10] = true ∧ ¬ (largestBlock [.auto, .int 3] * 8 ≤ 16) := by decide
-- normalize_auto_limit_noprev_partial
example : prepare [.auto, .int 3] [10, 10] = .ok [.auto, .int 3]
    ∧ normalizeChunks [(4, false)] none [.auto, .int 3] [10, 10] = .ok [[4, 4, 2], [3, 3, 3, 1]]
    ∧ blockElems [[4, 4, 2], [3, 3, 3, 1]] * 8 ≤ 100 := by decide
-- auto_fuel
example : numAutos [.auto, .auto] ≤ [(8, true), (32, true)].length := by decide
-- mergePrev_spec: the known-finding input's merge step (floor proposed = 5, previous (5,1,2,1) ↦ (5,4))
example : mergePrev 5 [5, 1, 2, 1] = [5, 4] ∧ isum [5, 4] = isum [5, 1, 2, 1] := by decide
example : ∀ c ∈ [(5:Int), 1, 2, 1], 0 ≤ c ∧ c ≤ 5 := by decide

end Dask.Props.C16
