/-
C15 (crosswalk part) / C14 / C22 — the old→new crosswalk covers each new block exactly once
with contiguous in-bounds pieces of old blocks.  For ALL chunkings incl. zero-width chunks.
-/
import DaskArrayModel.Lemmas.Crosswalk
namespace Dask.Props.C15
open Dask.Py Dask.Rechunk

theorem crosswalk_exact (old new : List Int)
    (ho : ∀ c ∈ old, 0 ≤ c) (hn : ∀ c ∈ new, 0 ≤ c)
    (hsum : isum old = isum new) (hone : old ≠ []) (hnne : new ≠ []) :
    (oldToNew1d old new).length = new.length ∧
    ∀ j (hj : j < new.length),
      (∀ p ∈ (oldToNew1d old new).getD j [], PieceOK old p) ∧
      (oldToNew1d old new).getD j [] ≠ [] ∧
      piecesPositions old ((oldToNew1d old new).getD j []) = newBlockPositions new j :=
  Dask.Lemmas.Crosswalk.crosswalk_exact old new ho hn hsum hone hnne

end Dask.Props.C15
