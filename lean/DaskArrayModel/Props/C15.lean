/-
C15 — rechunk plans are valid and respect the block-size budget; the old→new crosswalk covers
each new block exactly once with contiguous in-bounds pieces of old blocks.

All theorems are about the models in Model/Rechunk.lean and Model/RechunkPlan.lean (which mirror
dask_array/_rechunk.py after the fix commits bb7113a and 28665a6 and are tied to it on every run
by harness/props/C15.py).  Float-derived planner choices are ORACLE parameters: the theorems
quantify over every oracle value; where a relation on the oracle is needed it is the `rel` flag
the model computes (and the harness checks on the values recorded from the real run).
Proofs: Lemmas/Crosswalk.lean, Lemmas/RechunkPlan.lean.
-/
import DaskArrayModel.Lemmas.Crosswalk
import DaskArrayModel.Lemmas.RechunkPlan
namespace Dask.Props.C15
open Dask.Py Dask.Rechunk Dask.RechunkPlan
open Dask.Lemmas.RechunkPlan (GroupsOf NonnegChunks PosChunks)

/-! ### crosswalk -/

set_option linter.unusedVariables false in
theorem crosswalk_exact (old new : List Int)
    (ho : ∀ c ∈ old, 0 ≤ c) (hn : ∀ c ∈ new, 0 ≤ c)
    (hsum : isum old = isum new) (hone : old ≠ []) (hnne : new ≠ []) :
    (oldToNew1d old new).length = new.length ∧
    ∀ j (hj : j < new.length),
      (∀ p ∈ (oldToNew1d old new).getD j [], PieceOK old p) ∧
      (oldToNew1d old new).getD j [] ≠ [] ∧
      piecesPositions old ((oldToNew1d old new).getD j []) = newBlockPositions new j :=
  Dask.Lemmas.Crosswalk.crosswalk_exact old new ho hn hsum hone hnne

/-! ### `divide_to_width` -/

/-- the total is preserved (non-negative widths, `max_width ≥ 1`) -/
theorem divideToWidth_sum (d : List Int) (w : Int) (hd : ∀ c ∈ d, 0 ≤ c) (hw : 1 ≤ w) :
    isum (divideToWidth d w) = isum d :=
  Dask.Lemmas.RechunkPlan.divideToWidth_sum d w hd hw

/-- every produced chunk is at most `max_width` wide -/
theorem divideToWidth_le (d : List Int) (w : Int) (hd : ∀ c ∈ d, 0 ≤ c) (hw : 1 ≤ w) :
    ∀ x ∈ divideToWidth d w, x ≤ w :=
  Dask.Lemmas.RechunkPlan.divideToWidth_le d w hd hw

/-- every produced chunk is positive (zero-width input chunks disappear) -/
theorem divideToWidth_pos (d : List Int) (w : Int) (hd : ∀ c ∈ d, 0 ≤ c) (hw : 1 ≤ w) :
    ∀ x ∈ divideToWidth d w, 1 ≤ x :=
  Dask.Lemmas.RechunkPlan.divideToWidth_pos d w hd hw

example : divideToWidth [5, 0, 7] 3 = [2, 3, 2, 2, 3] := by decide
example : isum (divideToWidth [5, 0, 7] 3) = isum [5, 0, 7] :=
  divideToWidth_sum [5, 0, 7] 3 (by decide) (by decide)

/-! ### `merge_to_number` (uniform branch and heap branch) -/

theorem mergeToNumber_sum (d : List Int) (k : Int) (hd : ∀ c ∈ d, 0 ≤ c) (hk : 1 ≤ k) :
    isum (mergeToNumber d k) = isum d :=
  Dask.Lemmas.RechunkPlan.mergeToNumber_sum d k hd hk

/-- at most `max_number` chunks come out (the `assert len(c) <= max_number` of
`find_split_rechunk` cannot fail) -/
theorem mergeToNumber_length (d : List Int) (k : Int) (hd : ∀ c ∈ d, 0 ≤ c) (hk : 1 ≤ k) :
    ((mergeToNumber d k).length : Int) ≤ k :=
  Dask.Lemmas.RechunkPlan.mergeToNumber_length d k hd hk

/-- a coarsening: the result lists the sums of consecutive non-empty runs of the input -/
theorem mergeToNumber_groups (d : List Int) (k : Int) (hd : ∀ c ∈ d, 0 < c) (hk : 1 ≤ k) :
    ∃ gs : List (List Int), (∀ g ∈ gs, g ≠ []) ∧ gs.flatten = d ∧ gs.map isum = mergeToNumber d k :=
  Dask.Lemmas.RechunkPlan.mergeToNumber_groups d k hd hk

example : mergeToNumber [1, 2, 3, 4, 5] 3 = [6, 4, 5] := by decide      -- heap branch
example : mergeToNumber [2, 2, 2, 2, 2] 2 = [6, 4] := by decide         -- uniform branch
example : ((mergeToNumber [1, 2, 3, 4, 5] 3).length : Int) ≤ 3 :=
  mergeToNumber_length [1, 2, 3, 4, 5] 3 (by decide) (by decide)

/-! ### valid plans, for every oracle value -/

theorem stepAxis_sum {old new c : List Int} (ho : ∀ x ∈ old, 0 ≤ x) (hn : ∀ x ∈ new, 0 ≤ x)
    (h : StepAxis old new c) (hs : isum old = isum new) : isum c = isum new :=
  Dask.Lemmas.RechunkPlan.stepAxis_sum ho hn h hs

/-- every step of a plan related to `(old, new)` — whatever the oracle values — is a chunking of
the same shape, and the plan is non-empty and ends in `new` -/
theorem planOK_valid (old new : List (List Int)) (plan : List (List (List Int)))
    (ho : NonnegChunks old) (hn : NonnegChunks new) (hs : old.map isum = new.map isum)
    (h : PlanOK old new plan) :
    plan ≠ [] ∧ plan.getLast? = some new ∧ ∀ s ∈ plan, s.map isum = new.map isum ∧ NonnegChunks s :=
  Dask.Lemmas.RechunkPlan.planOK_valid old new plan ho hn hs h

/-- the EXECUTABLE `plan_rechunk` model, every oracle value (candidate order, chunk limits, max numbers,
nsteps, counts — no relation needed): a returned plan ends in `new` and every step is a chunking of the
same shape (same rank, positive widths, same per-axis totals) -/
theorem plan_valid (old new : List (List Int)) (itemsize threshold limBytes dl : Int) (fuel : Nat)
    (os : List PassOracle) (bos : List BDOracle) (plan : List (List (List Int))) (rel : Bool)
    (hpo : PosChunks old) (hpn : PosChunks new) (hshape : old.map isum = new.map isum)
    (h : planRechunk old new itemsize threshold limBytes dl fuel os bos = some (plan, rel)) :
    plan.getLast? = some new ∧
      ∀ s ∈ plan, s.length = new.length ∧ PosChunks s ∧ s.map isum = new.map isum :=
  Dask.Lemmas.RechunkPlan.plan_valid old new itemsize threshold limBytes dl fuel os bos plan rel hpo hpn hshape h

/-- the driver's bounded search `rp.reach` (run on every axis of every real plan step) is sound
for the step relation -/
theorem reachDepth_sound (old new c : List Int) (maxDepth k : Nat)
    (h : reachDepth old new c maxDepth = some k) : StepAxis old new c :=
  Dask.Lemmas.RechunkPlan.reachDepth_sound old new c maxDepth k h

open Dask.Lemmas.RechunkPlan (ex_plan ex_pos1 ex_pos2) in
example : ([[[4]]] : List (List (List Int))).getLast? = some [[4]] ∧
    ∀ s ∈ [[[4]]], s.length = [[(4 : Int)]].length ∧ PosChunks s ∧ s.map isum = [[(4 : Int)]].map isum :=
  plan_valid [[2,2]] [[4]] 8 4 64 100 3 [] [] _ _ ex_pos1 ex_pos2 (by decide) ex_plan
open Dask.Lemmas.RechunkPlan (ex_plan ex_pos1 ex_pos2) in
example : ∀ s ∈ [[[4]]], largestBlock s ≤ max (max (pyDiv 64 8) (largestBlock [[2,2]])) (largestBlock [[(4 : Int)]]) :=
  Dask.Lemmas.RechunkPlan.plan_budget [[2,2]] [[4]] 8 4 64 100 3 [] [] _ (by decide) ex_pos1 ex_pos2 rfl ex_plan
example : StepAxis [4, 4, 6, 3] [6, 4, 1, 5, 1] [6, 5, 5, 1] := by
  have : mergeToNumber [6, 4, 1, 5, 1] 4 = [6, 5, 5, 1] := by decide
  rw [← this]; exact .merge _ 4 (by decide) .new
example : StepAxis [2, 2] [4] [2, 2] := reachDepth_sound _ _ _ 1 0 (by decide)
example : PlanOK [[4, 4]] [[8]] [[[8]]] := by
  refine ⟨?_, rfl⟩
  intro s hs; simp at hs; subst hs; exact ⟨.new, trivial⟩

/-! ### the block budget -/

/-- `find_merge_rechunk`: for every oracle value satisfying the checked relations (`rel = true`)
the result stays within `⌊max(limit/itemsize, lo, ln)⌋`, the running `largest_block_size` is exact
(the function's two final `assert`s hold) and widths stay positive -/
theorem findMerge_budget (cur new : List (List Int)) (b : Budget) (o : PassOracle) (st : FMState)
    (hit : 0 < b.itemsize) (hpc : PosChunks cur) (hpn : PosChunks new) (hlen : cur.length = new.length)
    (hb : largestBlock cur ≤ b.bint) (h : findMerge cur new b o = some (st, true)) :
    largestBlock st.chunks ≤ b.bint ∧ st.lbs = largestBlock st.chunks ∧ PosChunks st.chunks ∧
      st.chunks.length = cur.length :=
  Dask.Lemmas.RechunkPlan.findMerge_budget cur new b o st hit hpc hpn hlen hb h

/-- the oracle relation `max(divide_to_width(c, w)) ≤ w` used by `findMerge_budget` -/
theorem imax_divideToWidth_le (d : List Int) (w : Int) (hd : ∀ c ∈ d, 0 ≤ c) (hw : 1 ≤ w) :
    imax (divideToWidth d w) ≤ w :=
  Dask.Lemmas.RechunkPlan.imax_divideToWidth_le d w hd hw

/-- `_bound_degree` (after 28665a6), every oracle value: each returned chunking is within the larger
of its two endpoints -/
theorem boundDegree_budget (old new : List (List Int)) (dl : Int) (o : BDOracle) :
    ∀ s ∈ boundDegree old new dl o, largestBlock s ≤ max (largestBlock old) (largestBlock new) :=
  Dask.Lemmas.RechunkPlan.boundDegree_budget old new dl o

theorem boundDegree_last (old new : List (List Int)) (dl : Int) (o : BDOracle) :
    (boundDegree old new dl o).getLast? = some new :=
  Dask.Lemmas.RechunkPlan.boundDegree_last old new dl o

/-- whole plan: merge/split passes and the degree pass, every oracle value with `rel = true` -/
theorem plan_budget (old new : List (List Int)) (itemsize threshold limBytes dl : Int) (fuel : Nat)
    (os : List PassOracle) (bos : List BDOracle) (plan : List (List (List Int)))
    (hit : 0 < itemsize) (hpo : PosChunks old) (hpn : PosChunks new) (hlen : old.length = new.length)
    (h : planRechunk old new itemsize threshold limBytes dl fuel os bos = some (plan, true)) :
    ∀ s ∈ plan, largestBlock s ≤ max (max (pyDiv limBytes itemsize) (largestBlock old)) (largestBlock new) :=
  Dask.Lemmas.RechunkPlan.plan_budget old new itemsize threshold limBytes dl fuel os bos plan hit hpo hpn hlen h

/-! #### non-vacuity: the input that broke the budget before 28665a6 -/

example : boundDegree [[1,3,1],[4,4,6,3]] [[2,3],[6,4,1,5,1]] 3 ⟨2, [[2,4]]⟩ = [[[2,3],[6,4,1,5,1]]] :=
  Dask.Lemmas.RechunkPlan.ex_boundDegree

example : zipWith3 bdAxis [[1,3,1],[4,4,6,3]] [[2,3],[6,4,1,5,1]] [2, 4] = [[4,1],[6,5,5,1]] ∧
    largestBlock [[4,1],[6,5,5,1]] = 24 ∧
    max (largestBlock [[1,3,1],[4,4,6,3]]) (largestBlock [[2,3],[6,4,1,5,1]]) = 18 := by decide

example : ∀ s ∈ boundDegree [[1,3,1],[4,4,6,3]] [[2,3],[6,4,1,5,1]] 3 ⟨2, [[2,4]]⟩, largestBlock s ≤ 18 :=
  boundDegree_budget _ _ _ _

/-- `find_merge_rechunk` where the else-branch runs (`divide_to_width` with `chunk_limit = 2`):
old ((1,1,1,1),(2,2)) → new ((4,),(1,1,1,1)), limit 4 B, itemsize 1: result ((2,2),(2,2)), block 4 ≤ 4 -/
example : findMerge [[1,1,1,1],[2,2]] [[4],[1,1,1,1]] ⟨4, 1, 2, 4⟩ ⟨[0], [2, 0], []⟩ =
    some (⟨[[2,2],[2,2]], 4, true⟩, true) := by decide

end Dask.Props.C15
