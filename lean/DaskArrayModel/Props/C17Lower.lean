/-
C17 (lowering of elemwise nodes) — when the operands of an elemwise operation have different chunkings, the
lowered node's operands are brought to ONE common layout per index (broadcast axes excepted): the layout the
Unify model of C17 computes (`unifyModel`, Model/Unify.lean), with `(1,)` on length-1 axes; an operand that
already has its layout gets no `Rechunk` node; under policy `refine` each operand's rechunk is a pure split.
That the result computes the same values is Props/C02Lower.lean.

Model: Model/LowerUnify.lean; proofs: Lemmas/LowerUnify.lean.  ONLY property theorems (restated, one-liners) and
non-vacuity examples.  All inputs: any rank, shape, chunking, policy, limit, admissible oracle value.
`OnlySplits c c'` = every boundary of `c` is a boundary of `c'` and the largest block does not grow
(the vocabulary of `C17_refine_only_splits`).
-/
import DaskArrayModel.Lemmas.LowerUnify
namespace Dask.Props.C17Lower
open Dask.Py Dask.ND Dask.LowerUnify

/-- Equal shapes: the lowered node is `zip f a' b'` where both operands carry the node's layout, and each
operand is the original array when it already has that layout (no no-op rechunk), else ONE rechunk to it. -/
theorem C17l_chunks (p : Params) (pre : List ULayout) (ia ib : Int) (f : Nat) (a b e : Expr)
    (ha : WF a) (hb : WF b) (hs : shape a = shape b) (h : lowerZip p pre ia ib f a b = .ok e) :
    ∃ a' b', e = .zip f a' b' ∧ chunks a' = chunks e ∧ chunks b' = chunks e ∧
      (a' = if chunks e = chunks a then a else .rechunk a (chunks e)) ∧
      (b' = if chunks e = chunks b then b else .rechunk b (chunks e)) :=
  lowerZip_chunks ha hb hs h

/-- … and that layout is the Unify model's: nothing changes when the chunks are equal; otherwise `unifyModel`
returns `res` (for the two operands with index labels counted from the right) and on every axis the node's
layout is `(1,)` when the axis has length 1 and `res.final` of the axis' label otherwise. -/
theorem C17l_layout (p : Params) (pre : List ULayout) (ia ib : Int) (f : Nat) (a b e : Expr)
    (ha : WF a) (hb : WF b) (hs : shape a = shape b) (h : lowerZip p pre ia ib f a b = .ok e) :
    (chunks a = chunks b ∧ e = .zip f a b) ∨
    (chunks a ≠ chunks b ∧ ∃ res, Dask.Unify.unifyModel p.policy p.limit pre
        [opdOf ⟨ia, chunks a⟩, opdOf ⟨ib, chunks b⟩] (shape a).length = .ok res ∧ res.oracleOk = true ∧
      ∀ n, n < (shape a).length → (chunks e).getD n [] =
        if (shape a).getD n 0 = 1 then [1]
        else (Dask.Unify.look res.final ((shape a).length - 1 - n)).map Int.toNat) :=
  lowerZip_layout ha hb hs h

/-- Broadcasting: the lowered node is `zipB f a' b'`; its chunks are the broadcast of the operands' chunks; on
every axis of the result (operands aligned at the right, missing leading axes padded with `(1,)`) the two
operands carry the SAME layout unless one of them is `(1,)` there; no no-op rechunk is inserted. -/
theorem C17l_chunksB (p : Params) (pre : List ULayout) (ia ib : Int) (f : Nat) (a b e : Expr2)
    (ha : WF2 a) (hb : WF2 b) (h : lowerZipB p pre ia ib f a b = .ok e) :
    ∃ a' b', e = .zipB f a' b' ∧ chunks2 e = zipBLayout (chunks2 a') (chunks2 b') ∧
      (a' = if chunks2 a' = chunks2 a then a else rechunk2 a (chunks2 a')) ∧
      (b' = if chunks2 b' = chunks2 b then b else rechunk2 b (chunks2 b')) ∧
      (∀ k, k < (chunks2 e).length →
        (padLay (chunks2 e).length (chunks2 a')).getD k [] = [1] ∨
        (padLay (chunks2 e).length (chunks2 b')).getD k [] = [1] ∨
        (padLay (chunks2 e).length (chunks2 a')).getD k [] = (padLay (chunks2 e).length (chunks2 b')).getD k []) :=
  lowerZipB_chunks ha hb h

/-- … and the operands' layouts are the Unify model's: per axis `(1,)` on a length-1 axis (left alone),
otherwise `res.final` of the axis' index label (counted from the right, so a lower-rank operand shares the
trailing labels). -/
theorem C17l_layoutB (p : Params) (pre : List ULayout) (ia ib : Int) (f : Nat) (a b e : Expr2)
    (ha : WF2 a) (hb : WF2 b) (h : lowerZipB p pre ia ib f a b = .ok e) :
    (chunks2 a = chunks2 b ∧ e = .zipB f a b) ∨
    (chunks2 a ≠ chunks2 b ∧ ∃ a' b' res, e = .zipB f a' b' ∧
      Dask.Unify.unifyModel p.policy p.limit pre [opdOf ⟨ia, chunks2 a⟩, opdOf ⟨ib, chunks2 b⟩]
        (max (shape2 a).length (shape2 b).length) = .ok res ∧ res.oracleOk = true ∧
      (∀ n, n < (shape2 a).length → (chunks2 a').getD n [] =
        if (shape2 a).getD n 0 = 1 then [1]
        else (Dask.Unify.look res.final ((shape2 a).length - 1 - n)).map Int.toNat) ∧
      (∀ n, n < (shape2 b).length → (chunks2 b').getD n [] =
        if (shape2 b).getD n 0 = 1 then [1]
        else (Dask.Unify.look res.final ((shape2 b).length - 1 - n)).map Int.toNat)) :=
  lowerZipB_layout ha hb h

/-- Policy `refine`, equal shapes, positive chunks: on every axis the node's layout only splits the blocks of
either operand (reuses `C17_refine_only_splits`). -/
theorem C17l_refine_only_splits (p : Params) (hp : p.policy = .refine) (pre : List ULayout) (ia ib : Int) (f : Nat)
    (a b e : Expr) (ha : WF a) (hb : WF b) (hs : shape a = shape b) (hia : 0 ≤ ia) (hib : 0 ≤ ib)
    (pa : posLayout (chunks a) = true) (pb : posLayout (chunks b) = true)
    (h : lowerZip p pre ia ib f a b = .ok e) :
    ∀ n, n < (shape a).length →
      OnlySplits ((chunks a).getD n []) ((chunks e).getD n []) ∧
      OnlySplits ((chunks b).getD n []) ((chunks e).getD n []) :=
  lowerZip_refine p hp pre ha hb hs hia hib pa pb h

/-- … and under broadcasting: each operand's new layout only splits that operand's blocks, on every axis. -/
theorem C17l_refine_only_splitsB (p : Params) (hp : p.policy = .refine) (pre : List ULayout) (ia ib : Int) (f : Nat)
    (a b e : Expr2) (ha : WF2 a) (hb : WF2 b) (hc : bcCompat (shape2 a) (shape2 b) = true)
    (hia : 0 ≤ ia) (hib : 0 ≤ ib) (pa : posLayout (chunks2 a) = true) (pb : posLayout (chunks2 b) = true)
    (h : lowerZipB p pre ia ib f a b = .ok e) :
    ∃ a' b', e = .zipB f a' b' ∧
      (∀ n, n < (shape2 a).length → OnlySplits ((chunks2 a).getD n []) ((chunks2 a').getD n [])) ∧
      (∀ n, n < (shape2 b).length → OnlySplits ((chunks2 b).getD n []) ((chunks2 b').getD n [])) :=
  lowerZipB_refine p hp pre ha hb hc hia hib pa pb h

/-- The layouts of n operands (`unify_chunks_expr` as `Elemwise._lower` calls it): two operands of equal shape
are given the same layout (the instance used by `C17l_chunks`). -/
theorem C17l_targets_same (p : Params) (pre : List ULayout) (ia ib : Int) (ca cb : Layout) (l : List Layout)
    (na : allTruthy ca = true) (nb : allTruthy cb = true) (hs : ca.map List.sum = cb.map List.sum)
    (h : unifyTargets p pre [⟨ia, ca⟩, ⟨ib, cb⟩] = .ok l) :
    ∃ u, l = [u, u] ∧ u.map List.sum = ca.map List.sum :=
  targets_same na nb hs h

/-! ### non-vacuity -/

def a : Expr := .src 0 [4, 6] [[2, 2], [3, 3]]
def b : Expr := .src 1 [4, 6] [[4], [2, 2, 2]]
def v : Expr := .src 2 [6] [[4, 2]]
def c : Expr := .src 3 [4, 1] [[1, 3], [1]]

example : WF a ∧ WF b ∧ shape a = shape b ∧ posLayout (chunks a) = true ∧ posLayout (chunks b) = true := by decide
example : (lowerZip ⟨.refine, none⟩ [] 8 8 0 a b).toOption.map chunks = some [[2, 2], [2, 1, 1, 2]] := rfl
-- the Unify model's answer for the two operands (labels from the right: axis 1 = label 0)
example : (Dask.Unify.unifyModel .refine none [] [opdOf ⟨8, chunks a⟩, opdOf ⟨8, chunks b⟩] 2).toOption.map (·.final)
    = some [[2, 1, 1, 2], [2, 2]] := rfl
-- `OnlySplits` on the interleaved axis: (3,3) and (2,2,2) are both split into (2,1,1,2)
example : Dask.Unify.bnds (toI [3, 3]) = [0, 3, 6] ∧ Dask.Unify.bnds (toI [2, 1, 1, 2]) = [0, 2, 3, 4, 6] := by decide
-- broadcasting: label 0 (the last axis) is shared by the matrix and the vector, the column's length-1 axis is
-- left alone and does not constrain the layout
example : WF2 (.base a) ∧ WF2 (.base v) ∧ WF2 (.base c) ∧ bcCompat (shape2 (.base c)) (shape2 (.base v)) = true := by decide
example : (lowerZipB ⟨.refine, none⟩ [] 8 8 0 (.base a) (.base v)).toOption.map chunks2 = some [[2, 2], [3, 1, 2]] := rfl
example : (lowerZipB ⟨.refine, none⟩ [] 8 8 0 (.base c) (.base v)).toOption.map chunks2 = some [[1, 3], [4, 2]] := rfl
example : padLay 2 (chunks v) = [[1], [4, 2]] := by decide
-- three operands (`where`): the layouts `unify_chunks_expr` returns
example : unifyTargets ⟨.refine, none⟩ [] [⟨1, [[4, 2]]⟩, ⟨8, [[2, 2], [3, 3]]⟩, ⟨8, [[1, 3], [1]]⟩]
    = .ok [[[3, 1, 2]], [[1, 1, 2], [3, 1, 2]], [[1, 1, 2], [1]]] := rfl

end Dask.Props.C17Lower
