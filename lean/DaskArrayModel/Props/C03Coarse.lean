/-
C03 (extension) — chunks advertised by the coarse slice pushdown (`Blockwise._accept_slice_coarse`).
Model: Model/CoarseSlice.lean; proofs: Lemmas/CoarseSliceChunks.lean, CoarseSliceOvl.lean, CoarseSliceNode.lean.
ONLY property theorems (restated, one-line proofs) and non-vacuity examples.
-/
import DaskArrayModel.Lemmas.CoarseSliceAlign
namespace Dask.Props.C03Coarse
open Dask.Py Dask.Py.PySlice Dask.Slicing Dask.Coarse Dask.Lemmas.Coarse

/-- **The rewritten node advertises exactly the chunks of the kept output blocks.**  `nodeChunks` is the model of
`Blockwise.chunks` ("most blocks wins" per label, `new_axes`, `adjust_chunks` callable / int / tuple with its length
check).  For every node whose chunks are `oc`, distinct output labels, chunks `≥ 0`, every NumPy-valid index on which the
rule fires, and no sliced `new_axes` label (`_accept_slice` declines those earlier): every sliced operand keeps exactly
the selected blocks (`keepsAll` — a consequence of the fired rule's `0 in arg.chunks[dim_idx]` gate), `Blockwise.chunks`
of the new node does not raise and equals `oc[first..last]` on every sliced axis, `oc` elsewhere. -/
theorem C03c_chunks (n : Node) (oc : List (List Int)) (idx : List Idx) (r : Result)
    (hch : nodeChunks n = some oc) (h : acceptCoarse n oc idx = some r)
    (hoc : ∀ cs ∈ oc, ∀ c ∈ cs, 0 ≤ c) (hnd : n.outInd.Nodup) (hil : idx.length ≤ n.outInd.length)
    (hok : idxsOK oc (fullIndex idx n.outInd.length) = true)
    (hnn : ∀ q ∈ chunkPairs n.ops, ∀ c ∈ q.2, 0 ≤ c) (hnew : slicedNotNew n r.plans) :
    keepsAll n.outInd r.plans n.ops = true ∧ nodeChunks (rewritten n r) = some (keptOut oc r.plans) :=
  rewritten_chunks_fired n oc idx r hch (acceptCoarse_le n oc idx r h) hoc hnd hil hok hnn hnew

/-- The statement the proof goes through (any plans / operand slices with `keepsAll`, independent of the gate). -/
theorem C03c_chunks_keeps (n : Node) (oc : List (List Int)) (idx : List Idx) (r : Result)
    (hch : nodeChunks n = some oc) (h : acceptCoarse n oc idx = some r)
    (hoc : ∀ cs ∈ oc, ∀ c ∈ cs, 0 ≤ c) (hnd : n.outInd.Nodup) (hil : idx.length ≤ n.outInd.length)
    (hok : idxsOK oc (fullIndex idx n.outInd.length) = true)
    (hkeep : keepsAll n.outInd r.plans n.ops = true) (hnew : slicedNotNew n r.plans) :
    nodeChunks (rewritten n r) = some (keptOut oc r.plans) :=
  rewritten_chunks n oc idx r hch (acceptCoarse_le n oc idx r h) hoc hnd hil hok hkeep hnew

/-- **… and after the top adjustment, the chunks of the sliced original** (`SliceSlicesIntegers.chunks`:
`normalize_slice` + `new_blockdim` per sliced axis, integer axes dropped), when the OUTPUT chunks are positive
(`C03c_zero_width_output_witness` shows why). -/
theorem C03c_chunks_top (n : Node) (oc : List (List Int)) (idx : List Idx) (r : Result)
    (hch : nodeChunks n = some oc) (h : acceptCoarse n oc idx = some r)
    (hoc : ∀ cs ∈ oc, ∀ c ∈ cs, 0 < c) (hnd : n.outInd.Nodup) (hil : idx.length ≤ n.outInd.length)
    (hok : idxsOK oc (fullIndex idx n.outInd.length) = true)
    (hnn : ∀ q ∈ chunkPairs n.ops, ∀ c ∈ q.2, 0 ≤ c) (hnew : slicedNotNew n r.plans) :
    nodeChunks (rewritten n r) = some (keptOut oc r.plans) ∧
    indexedChunks (keptOut oc r.plans) (r.plans.map (·.adj.toIdx))
      = indexedChunks oc (fullIndex idx n.outInd.length) :=
  rewritten_chunks_top_fired n oc idx r hch (acceptCoarse_le n oc idx r h) hoc hnd hil hok hnn hnew

/-- One label: if the label's chunks `base` adjust to `oc` (callable, int, or tuple of the right length), then the kept
input blocks `first..last` with the kept `adjust_chunks` entry (`val[first : last + 1]` for a tuple, unchanged
otherwise) adjust to exactly the kept output chunks — in particular the tuple length check of `Blockwise.chunks`
passes. -/
theorem C03c_chunks_label (a : Option AdjKind) (base oc : List Int) (f l : Nat) (hfl : f ≤ l)
    (hl : l < base.length) (h : applyAdjust a base = some oc) :
    applyAdjust (a.map (sliceAdjKind f l)) (keptChunks base f l) = some (keptChunks oc f l) :=
  applyAdjust_kept a base oc f l hfl hl h

/-- The kept output blocks: as many as the range says, and they are the blocks `first..last` of the output. -/
theorem C03c_kept_blocks (oc : List Int) (f l j : Nat) (hfl : f ≤ l) (hl : l < oc.length) (hj : j < l + 1 - f) :
    (keptChunks oc f l).length = l + 1 - f ∧ (keptChunks oc f l).getD j 0 = oc.getD (f + j) 0 ∧
    isum (keptChunks oc f l) = blockStart oc (l + 1) - blockStart oc f :=
  ⟨keptChunks_length oc f l hl hfl, getD_kept oc f l j hj, isum_kept oc f l hfl⟩

/-- Closed form of `new_blockdim` used for it: a unit-step non-empty slice of positive chunks yields the positive
overlaps of the blocks with `[start, stop)`. -/
theorem C03c_newBlockdim_unit (cs : List Int) (hpos : ∀ c ∈ cs, 0 < c) (s : PySlice) (hs : s.stp = 1)
    (hse : s.istart (isum cs) < s.istop (isum cs)) :
    newBlockdim (isum cs) cs (normalizeSlice s (isum cs)) = ovl (s.istart (isum cs)) (s.istop (isum cs)) cs 0 :=
  newBlockdim_unit cs hpos s hs hse

/-- With zero-width chunks allowed (chunks `≥ 0`) the advertised EXTENT of a sliced axis is still that of the sliced
original (`stop - start`). -/
theorem C03c_top_extent (oc : List Int) (hoc : ∀ c ∈ oc, 0 ≤ c) (s : PySlice) (hc : s ≠ colon) (pl : AxisPlan)
    (h : acceptAxis oc (.slc s) = some pl) :
    ∃ c c', indexedChunks1 (keptOut1 oc pl) pl.adj.toIdx = some c' ∧ indexedChunks1 oc (.slc s) = some c ∧
      isum c' = isum c ∧ isum c = s.istop (isum oc) - s.istart (isum oc) :=
  top_extent oc hoc s hc pl h

/-- **Witness: positivity in `C03c_chunks_top` is necessary — zero-width OUTPUT chunks change the advertised grid.**
`oc = (1, 1, 0, 2)`, `z[1:]`: the rewritten node keeps blocks 1..3 with no adjustment on top and advertises `(1, 0, 2)`;
the sliced original advertises `(1, 2)` (`new_blockdim` drops the empty block).  Same extent, same values, other grid. -/
theorem C03c_zero_width_output_witness :
    (acceptAxis [1, 1, 0, 2] (.slc ⟨some 1, none, none⟩)) = some ⟨some (1, 3), .colon⟩ ∧
    keptChunks [1, 1, 0, 2] 1 3 = [1, 0, 2] ∧
    indexedChunks1 [1, 1, 0, 2] (.slc ⟨some 1, none, none⟩) = some [1, 2] := by
  decide

/-! non-vacuity (the node of Props/C02Coarse.lean: 2-d, two array operands and a literal, tuple and int adjusters) -/
def exOps : List Opd :=
  [⟨true, some [0, 1], [[2, 3, 1], [4, 2]]⟩, ⟨true, some [1, 7], [[4, 2], [5]]⟩, ⟨true, none, []⟩]
def exNode : Node := ⟨[0, 1], exOps, [(0, .tuple [1, 2, 2]), (1, .const 3)], []⟩
def exIdx : List Idx := [.slc ⟨some 2, some 4, none⟩, .int (-2)]

example : nodeChunks exNode = some [[1, 2, 2], [3, 3]] ∧ exNode.outInd.Nodup ∧
    idxsOK [[1, 2, 2], [3, 3]] (fullIndex exIdx 2) = true ∧
    (∀ q ∈ chunkPairs exNode.ops, ∀ c ∈ q.2, (0 : Int) ≤ c) ∧
    (∀ cs ∈ [[1, 2, 2], [3, 3]], ∀ c ∈ cs, (0 : Int) < c) := by decide
example : (acceptCoarse exNode [[1, 2, 2], [3, 3]] exIdx).any (fun r =>
    keepsAll exNode.outInd r.plans exNode.ops
    && nodeChunks (rewritten exNode r) == some [[2, 2], [3]]
    && keptOut [[1, 2, 2], [3, 3]] r.plans == [[2, 2], [3]]
    && indexedChunks (keptOut [[1, 2, 2], [3, 3]] r.plans) (r.plans.map (·.adj.toIdx)) == [[1, 1]]
    && indexedChunks [[1, 2, 2], [3, 3]] (fullIndex exIdx 2) == [[1, 1]]) = true := by decide
example : applyAdjust (some (.tuple [1, 2, 2])) [2, 3, 1] = some [1, 2, 2] ∧
    applyAdjust ((some (AdjKind.tuple [1, 2, 2])).map (sliceAdjKind 1 2)) (keptChunks [2, 3, 1] 1 2) = some [2, 2] := by
  decide
example : acceptAxis [2, 3, 1] (.slc ⟨some 3, some 6, none⟩) = some ⟨some (1, 2), .rng 1 4⟩ ∧
    indexedChunks1 (keptChunks [2, 3, 1] 1 2) (Adj.rng 1 4).toIdx = some [2, 1] ∧
    indexedChunks1 [2, 3, 1] (.slc ⟨some 3, some 6, none⟩) = some [2, 1] := by decide

end Dask.Props.C03Coarse
