/-
C19 (extension "the map_overlap pipeline is the global stencil") — the DEFINITION of `overlap` / `map_overlap`
(dask_array/_overlap.py): rechunk → `boundaries` → `overlap_internal` → `chunk.trim` → `map_blocks(func)` →
`trim_internal`.  ONLY property theorems (one-liners from Lemmas/OverlapPipe.lean, Lemmas/OverlapPipeND.lean) and
non-vacuity examples.

Model: Model/OverlapPipe.lean (`cut`, `boundaryBlocks`, `extBlock` / `overlapInternal`, `chunkTrim`, `trimBlock` /
`trimInternal`, `pipeline`; per-axis index map `axisSrc` and its product `pipelineND`).  The global meaning
`mapOverlap1 g b dl dr x = g (padB b dl dr x)`, `WinLocal`, `padSrc`, `padND`, `mapOverlapND` are those of
Model/OverlapSlice.lean / Model/OverlapSliceND.lean (package `ovs`, Props/C02Overlap.lean), which proved the slice rule
against that meaning and left open that the chunked pipeline computes it.  This file closes that.

What the theorems say
  * `C19o_pipeline_eq_global` — one axis, EVERY boundary kind, every depth pair `(dl, dr)`, every chunking `cs` of `x`
    in which every chunk is at least `max dl dr` (`Guard`: exactly what `ensure_minimum_chunksize(max(dl, dr), chunks)`
    establishes — `ensureMinimumChunksize_spec` of Props/C19.lean), every window-local `g` and the block function
    `f e = g (padB .none dl dr e)` (`g` on the block it is given, no neighbour on either side):
        `pipeline b dl dr cs f x = mapOverlap1 g b dl dr x`
    — hence independent of the chunking (`C19o_chunking_independent`).
  * `C19o_blocks_eq_global` — block by block: the trimmed blocks are the global result cut along `cs`;
    `C19o_chunks_preserved`: so the block lengths after the trim are `cs`, and the chunk arithmetic `trim_internal`
    ADVERTISES gives `cs` back (kind `none`: from `_overlap_internal_chunks`, the natural-number reading of
    `overlapTrim_chunks_id`; other kinds: every block grew by `dl + dr`).
  * `C19o_internal_sources` — under the guard the extended block `k` is exactly `x[lo_k - dl : hi_k + dr]` clipped to
    the axis (positions, not only the length).
  * `C19o_none_edges` — boundary `none`: the first block gets nothing on the left and `_trim` cuts nothing there, the
    last block gets nothing on the right and `_trim` cuts nothing there; every other (block, side) is cut by the depth.
  * `C19o_small_chunk_witness` — without the guard (chunks `(3, 4, 5)`, depth `(4, 0)`) neighbour exchange alone is not
    the global stencil: the real `slice(-4, None)` of a 3-element block is the whole block, the trim then cuts into the
    block's own data and the result is one element short.  (Replayed on `overlap_internal` + `trim_internal` of /repo:
    same blocks; `overlap` itself always rechunks first, so the state is unreachable through `map_overlap`.)
  * `C19o_pipeline_eq_global_nd` — n-D, by axis independence (per-axis index maps composed as a PRODUCT, as
    `ArrayOverlapLayer` takes the product of the per-axis neighbour pieces — corner neighbours included): at every
    multi-index of the array the pipeline applies the kernel to the box the global extension `padND` has there;
    `C19o_axis_index_map` is the one-axis statement at index level.
  * `C19o_guard_established` — the guard is what the code establishes: whatever `_get_overlap_rechunked_chunks`
    (`overlapRechunkedChunks` of Model/Window.lean: `ensure_minimum_chunksize` + the edge merge of boundary `none`)
    returns for non-negative chunks and depths satisfies `Guard`; `C19o_map_overlap_eq_global`: so for EVERY input
    chunking on which `overlap` does not raise, the pipeline run on the rechunked layout is the global stencil.
  * `C19o_checked` — `map_overlap`'s own `NotImplementedError` branch: when it does not raise it is the global meaning.

Hypotheses, all explicit and decidable except `WinLocal` (a property of the user's function): `Guard dl dr cs n`.
The code allows `dl ≠ dr` only with boundary `none`; the theorems hold for every pair.
NOT modelled: `trim=False` beyond the definition `pipelineNoTrim` (correspondence only), `new_axis` / `drop_axis`,
several input arrays, the rechunk itself (C14) and `ensure_minimum_chunksize` (Props/C19.lean).
-/
import DaskArrayModel.Lemmas.OverlapPipeND
import DaskArrayModel.Lemmas.OverlapPipeGuard
namespace Dask.Props.C19Overlap
open Dask.OverlapSlice Dask.OverlapPipe Dask.Lemmas.OverlapSlice Dask.Lemmas.OverlapPipe

variable {α β : Type}

/-- **The trimmed blocks of the pipeline are the blocks of the global result.** -/
theorem C19o_blocks_eq_global (g : List (Option α) → List β) (dl dr : Nat) (hg : WinLocal dl dr g)
    (b : Boundary α) (cs : List Nat) (f : List α → List β) (x : List α)
    (hf : ∀ e, f e = g (padB .none dl dr e)) (hG : Guard dl dr cs x.length) :
    pipelineBlocks b dl dr cs f x = cut cs (mapOverlap1 g b dl dr x) :=
  pipelineBlocks_eq_cut hg b cs f x hf hG

/-- **The chunked pipeline computes the global stencil** (one axis, every kind, every depth pair, every guarded
chunking, every window-local function). -/
theorem C19o_pipeline_eq_global (g : List (Option α) → List β) (dl dr : Nat) (hg : WinLocal dl dr g)
    (b : Boundary α) (cs : List Nat) (f : List α → List β) (x : List α)
    (hf : ∀ e, f e = g (padB .none dl dr e)) (hG : Guard dl dr cs x.length) :
    pipeline b dl dr cs f x = mapOverlap1 g b dl dr x :=
  pipeline_eq_global hg b cs f x hf hG

/-- hence the result does not depend on the chunking -/
theorem C19o_chunking_independent (g : List (Option α) → List β) (dl dr : Nat) (hg : WinLocal dl dr g)
    (b : Boundary α) (cs cs' : List Nat) (f : List α → List β) (x : List α)
    (hf : ∀ e, f e = g (padB .none dl dr e)) (hG : Guard dl dr cs x.length) (hG' : Guard dl dr cs' x.length) :
    pipeline b dl dr cs f x = pipeline b dl dr cs' f x := by
  rw [pipeline_eq_global hg b cs f x hf hG, pipeline_eq_global hg b cs' f x hf hG']

/-- `map_overlap` as called (with its `NotImplementedError` check): whenever it returns, it returns the global meaning -/
theorem C19o_checked (g : List (Option α) → List β) (dl dr : Nat) (hg : WinLocal dl dr g)
    (b : Boundary α) (cs : List Nat) (f : List α → List β) (x : List α)
    (hf : ∀ e, f e = g (padB .none dl dr e)) (hG : Guard dl dr cs x.length) (y : List β)
    (h : mapOverlapChecked b dl dr cs f x = .ok y) : y = mapOverlap1 g b dl dr x := by
  unfold mapOverlapChecked at h
  split at h
  · cases h
  · cases h; exact pipeline_eq_global hg b cs f x hf hG

/-- **The guard is what `overlap` establishes**: the chunks `_get_overlap_rechunked_chunks` returns cover the axis and
are all at least the larger depth. -/
theorem C19o_guard_established (chunks : List Int) (before after : Int) (boundaryNone : Bool) (hne : chunks ≠ [])
    (hpos : ∀ c ∈ chunks, 0 ≤ c) (hb : 0 ≤ before) (ha : 0 ≤ after) (out : List Int)
    (h : Dask.Window.overlapRechunkedChunks chunks before after boundaryNone = some out) :
    Guard before.toNat after.toNat (out.map Int.toNat) (Dask.Py.isum chunks).toNat :=
  guard_established chunks before after boundaryNone hne hpos hb ha out h

/-- **From any input chunking**: when the rechunk of `overlap` succeeds (it raises only when the axis is shorter than
the depth), the pipeline on the layout it produces is the global stencil. -/
theorem C19o_map_overlap_eq_global (g : List (Option α) → List β) (dl dr : Nat) (hg : WinLocal dl dr g)
    (b : Boundary α) (chunks : List Int) (f : List α → List β) (x : List α)
    (hf : ∀ e, f e = g (padB .none dl dr e)) (hne : chunks ≠ []) (hpos : ∀ c ∈ chunks, 0 ≤ c)
    (hx : Dask.Py.isum chunks = x.length) (out : List Int)
    (h : Dask.Window.overlapRechunkedChunks chunks dl dr (b.kind == .none) = some out) :
    pipeline b dl dr (out.map Int.toNat) f x = mapOverlap1 g b dl dr x := by
  have hG := guard_established chunks dl dr (b.kind == .none) hne hpos (by omega) (by omega) out h
  rw [hx] at hG
  simp only [Int.toNat_natCast] at hG
  exact pipeline_eq_global hg b _ f x hf hG

/-- **The chunks after the trim are the input chunks**: the real block lengths, and the advertised arithmetic. -/
theorem C19o_chunks_preserved (g : List (Option α) → List β) (dl dr : Nat) (hg : WinLocal dl dr g)
    (b : Boundary α) (cs : List Nat) (f : List α → List β) (x : List α)
    (hf : ∀ e, f e = g (padB .none dl dr e)) (hG : Guard dl dr cs x.length) :
    (pipelineBlocks b dl dr cs f x).map List.length = cs ∧
      trimChunks .none dl dr (internalChunks dl dr cs) = cs ∧
      (b.kind ≠ .none → trimChunks b.kind dl dr (cs.map (· + (dl + dr))) = cs) :=
  ⟨pipelineBlocks_lengths hg b cs f x hf hG, trimChunks_internal dl dr cs, trimChunks_pieces b.kind dl dr cs⟩

/-- **What `overlap_internal` hands to block `k`**: exactly `x[lo_k - dl : hi_k + dr]`, clipped to the axis. -/
theorem C19o_internal_sources (dl dr : Nat) (cs : List Nat) (x : List α) (hG : Guard dl dr cs x.length)
    (k : Nat) (hk : k < cs.length) :
    extBlock dl dr (cut cs x) k =
      (x.drop (lo cs k - dl)).take (lo cs k + cs.getD k 0 + dr - (lo cs k - dl)) :=
  extBlock_sources dl dr cs x hG k hk

/-- **Boundary `none` at the array edges**: the first block starts with its own data and nothing is cut in front;
the last block ends with its own data and nothing is cut at the back; elsewhere the cut is the depth.  With any other
kind every block is cut by the depth on both sides. -/
theorem C19o_none_edges (dl dr : Nat) (blks : List (List α)) (hne : blks ≠ []) :
    (extBlock dl dr blks 0).take (blks.getD 0 []).length = blks.getD 0 [] ∧
    lastN (blks.getD (blks.length - 1) []).length (extBlock dl dr blks (blks.length - 1)) =
      blks.getD (blks.length - 1) [] ∧
    trimFront .none dl 0 = 0 ∧ trimBack .none dr (blks.length - 1) blks.length = none ∧
    (∀ k, 0 < k → trimFront .none dl k = dl) ∧
    (∀ k, k ≠ blks.length - 1 → dr ≠ 0 → trimBack .none dr k blks.length = some dr) ∧
    (∀ bk k, bk ≠ .none → trimFront bk dl k = dl ∧ (dr ≠ 0 → trimBack bk dr k blks.length = some dr)) :=
  none_edges dl dr blks hne

/-- **The minimum-chunk guard is necessary.**  Chunks `(3, 4, 5)`, depth `(4, 0)`, boundary `none`, moving sum: the
guard fails, block 1 receives the WHOLE 3-element block 0 (Python's `slice(-4, None)`), and after the trim the result
is one element short of — and different from — the global stencil. -/
theorem C19o_small_chunk_witness :
    WinLocal 4 0 (stencil ksum 4 0) ∧ ¬ Guard 4 0 [3, 4, 5] xs12.length ∧
    overlapInternal 4 0 (cut [3, 4, 5] xs12) = [[0, 1, 2], [0, 1, 2, 3, 4, 5, 6], [3, 4, 5, 6, 7, 8, 9, 10, 11]] ∧
    (pipelineBlocks .none 4 0 [3, 4, 5] (blockFn (stencil ksum 4 0) 4 0) xs12).map List.length = [3, 3, 5] ∧
    pipeline .none 4 0 [3, 4, 5] (blockFn (stencil ksum 4 0) 4 0) xs12 ≠ mapOverlap1 (stencil ksum 4 0) .none 4 0 xs12 :=
  ⟨stencil_winLocal _ _ _, witness_guard, witness_blocks, witness_lengths, witness_differs⟩

/-- **One axis at index level**: window offset `t` of the output position `i` reads, through the whole pipeline, the
entry the global extension has at `i + t`. -/
theorem C19o_axis_index_map (b : Boundary α) (dl dr : Nat) (cs : List Nat) (n : Nat) (hG : Guard dl dr cs n)
    (i : Nat) (hi : i < n) (t : Nat) (ht : t < dl + dr + 1) :
    axisSrc b dl dr cs n (blockIdx cs i) ((i - lo cs (blockIdx cs i)) + trimFront b.kind dl (blockIdx cs i) + t) =
      padSrc b dl dr n (i + t) :=
  axisSrc_eq_padSrc b dl dr cs n hG i hi t ht

/-- **n-D**: for every list of axes (kind, depths, guarded chunking per axis), every array, every box kernel and
every multi-index of the array, the pipeline's value is the global `map_overlap` value. -/
theorem C19o_pipeline_eq_global_nd (kern : List (Option α) → β) (ps : List (AxPipe α))
    (hG : ∀ p ∈ ps, Guard p.spec.dl p.spec.dr p.cs p.spec.n) (A : List Nat → α) (I : List Nat)
    (hI : InRangeP ps I) :
    pipelineND kern ps A I = mapOverlapND kern (ps.map (·.spec)) A I :=
  pipelineND_eq_global kern ps hG A I hI

/-! ### non-vacuity -/

-- the guard holds on chunkings with a chunk EQUAL to the depth, a single block, asymmetric depth
example : Guard 2 2 [2, 3, 2] 7 := by decide
example : Guard 3 3 [7] 7 := by decide
example : Guard 1 3 [3, 4, 5] 12 := by decide
example : Guard 0 0 [0, 2, 0] 2 := by decide
example : ¬ Guard 2 2 [2, 1, 4] 7 := by decide

-- the rechunk of `overlap` on chunks below the depth, and the guard it establishes
example : Dask.Window.overlapRechunkedChunks [1, 1, 3, 2] 2 2 true = some [7] := by decide
example : Dask.Window.overlapRechunkedChunks [3, 1, 1, 5, 2] 3 0 false = some [4, 5, 3] ∧ Guard 3 0 [4, 5, 3] 12 := by
  decide
example : Dask.Window.overlapRechunkedChunks [3, 4, 5] 4 0 true = some [7, 5] := by decide
-- the pipeline on a halo-reading function, every kind (chunk equal to the depth), asymmetric depth, single block
example : pipeline .periodic 2 2 [2, 3, 2] (blockFn (stencil ksum 2 2) 2 2) [1, 2, 3, 4, 5, 6, 7] =
    [19, 17, 15, 20, 25, 23, 21] := by decide
example : pipeline .reflect 2 2 [2, 3, 2] (blockFn (stencil ksum 2 2) 2 2) [1, 2, 3, 4, 5, 6, 7] =
    [9, 11, 15, 20, 25, 29, 31] := by decide
example : pipeline .nearest 2 2 [2, 3, 2] (blockFn (stencil ksum 2 2) 2 2) [1, 2, 3, 4, 5, 6, 7] =
    [8, 11, 15, 20, 25, 29, 32] := by decide
example : pipeline (.constant 10) 2 2 [2, 3, 2] (blockFn (stencil ksum 2 2) 2 2) [1, 2, 3, 4, 5, 6, 7] =
    [26, 20, 15, 20, 25, 32, 38] := by decide
example : pipeline .none 1 3 [3, 4, 5] (blockFn (stencil ksum 1 3) 1 3) xs12 =
    mapOverlap1 (stencil ksum 1 3) .none 1 3 xs12 :=
  C19o_pipeline_eq_global _ 1 3 (stencil_winLocal _ _ _) .none [3, 4, 5] _ xs12 (fun _ => rfl) (by decide)
example : pipeline .reflect 3 3 [12] (blockFn (stencil ksum 3 3) 3 3) xs12 =
    mapOverlap1 (stencil ksum 3 3) .reflect 3 3 xs12 :=
  C19o_pipeline_eq_global _ 3 3 (stencil_winLocal _ _ _) .reflect [12] _ xs12 (fun _ => rfl) (by decide)
-- the blocks the code hands to the function (periodic, depth 2): every block carries 2 + 2 more entries
example : overlapBlocks .periodic 2 2 (cut [2, 3, 2] [1, 2, 3, 4, 5, 6, 7]) =
    [[6, 7, 1, 2, 3, 4], [1, 2, 3, 4, 5, 6, 7], [4, 5, 6, 7, 1, 2]] := by decide
-- boundary none, asymmetric: edge blocks get nothing on the outer side
example : overlapBlocks .none 1 3 (cut [3, 4, 5] xs12) =
    [[0, 1, 2, 3, 4, 5], [2, 3, 4, 5, 6, 7, 8, 9], [6, 7, 8, 9, 10, 11]] := by decide
-- two axes (reflect with depth 1 chunked (2,2); none with depth (0,2) chunked (3,3)): hypotheses of the n-D theorem
example : ∀ p ∈ [(⟨⟨4, 1, 1, .reflect⟩, [2, 2]⟩ : AxPipe Int), ⟨⟨6, 0, 2, .none⟩, [3, 3]⟩],
    Guard p.spec.dl p.spec.dr p.cs p.spec.n := by
  intro p hp
  simp only [List.mem_cons, List.not_mem_nil, or_false] at hp
  rcases hp with rfl | rfl <;> decide
example : InRangeP [(⟨⟨4, 1, 1, .reflect⟩, [2, 2]⟩ : AxPipe Int), ⟨⟨6, 0, 2, .none⟩, [3, 3]⟩] [3, 5] := by
  simp [InRangeP]

end Dask.Props.C19Overlap
