/-
C28 — Unknown chunk sizes are resolved exactly or refused.  ONLY property theorems (restated;
proofs are one-liners from Lemmas/Unknown.lean) and non-vacuity examples.  Sizes are
`Option Nat` (`none` = `nan`).
-/
import DaskArrayModel.Lemmas.Unknown
namespace Dask.Props.C28
open Dask.Py Dask.Unknown Dask.Lemmas.Unknown

/-- `ChunksOverride(e, c)` advertises exactly `c` and is a 1:1 alias of `e`'s blocks on the grid
of `c` (no other key exists): same data, new metadata. -/
theorem C28_override {β} (e : Arr β) (c : Layout?) :
    (override e c).chunks = c ∧
    (∀ idx ∈ grid (numblocks c), (override e c).block idx = e.block idx) ∧
    (∀ idx, idx ∉ grid (numblocks c) → (override e c).block idx = none) :=
  ⟨override_chunks e c, override_block e c, override_block_outside e c⟩

/-- the alias grid is the set of block ids of the right rank with every coordinate below the block count -/
theorem C28_override_grid (c : Layout?) (idx : List Nat) :
    idx ∈ grid (numblocks c) ↔ idx.length = (numblocks c).length ∧ ∀ p ∈ idx.zip (numblocks c), p.1 < p.2 :=
  mem_grid (numblocks c) idx

/-- 1-d boolean-mask selection, every chunking `cs` of the axis and every mask: the chunks set by
`compute_chunk_sizes` are the true per-block lengths; there is one per input block; they sum to
the length of NumPy's `x[mask]`; and the blocks concatenated ARE `x[mask]`. -/
theorem C28_compute_chunk_sizes {α} (cs : List Nat) (x : List α) (m : List Bool)
    (hx : nsum cs = x.length) (hm : x.length = m.length) :
    let blocks := maskSelect cs x m
    computeChunkSizes1 blocks = ofKnownDim (blocks.map List.length) ∧
    (computeChunkSizes1 blocks).length = cs.length ∧
    isKnown (computeChunkSizes1 blocks) = true ∧
    nsum (trueSizes blocks) = (maskBlock x m).length ∧
    blocks.flatten = maskBlock x m := by
  refine ⟨rfl, ?_, ?_, ?_, maskSelect_flatten_full cs x m hx hm⟩
  · simp [computeChunkSizes1, ofKnownDim, trueSizes, maskSelect_length]
  · simp [computeChunkSizes1, ofKnownDim, isKnown]
  · rw [trueSizes, nsum_map_length_flatten, maskSelect_flatten_full cs x m hx hm]

/-- the `x[p(x)]` form (mask computed from the values): the blocks concatenated are `filter p x`
and the resolved chunks sum to its length. -/
theorem C28_compute_chunk_sizes_pred {α} (cs : List Nat) (x : List α) (p : α → Bool)
    (hx : nsum cs = x.length) :
    (maskSelect cs x (x.map p)).flatten = x.filter p ∧
    nsum (trueSizes (maskSelect cs x (x.map p))) = (x.filter p).length := by
  have h := maskSelect_flatten_full cs x (x.map p) hx (by simp)
  rw [maskBlock_pred] at h
  exact ⟨h, by rw [trueSizes, nsum_map_length_flatten, h]⟩

/-- per-axis form (a 1-d mask on one axis of an n-d array, `x[:, mask]`): block `i` along that
axis keeps the positions of `mask`'s block `i`; concatenated in block order they are exactly
`np.nonzero(mask)`, one (possibly empty) block per input block. -/
theorem C28_compute_chunk_sizes_axis (cs : List Nat) (m : List Bool) (hm : nsum cs = m.length) :
    (maskPositions cs m).flatten = nonzero m ∧ (maskPositions cs m).length = cs.length := by
  refine ⟨?_, maskPositionsFrom_length 0 cs m⟩
  have := maskPositionsFrom_flatten 0 cs m (by omega)
  rw [hm, List.take_length] at this
  exact this

/-- number of positions kept in a block = number of values kept -/
theorem C28_positions_count {α} (x : List α) (m : List Bool) (h : x.length = m.length) :
    (nonzero m).length = (maskBlock x m).length :=
  nonzeroFrom_length_eq 0 x m h

/-- `slice_slices_and_integers`: an `.ok` result does not depend on the unknown sizes — for EVERY
completion `K` of the layout (any true sizes put in place of the `nan`s) the same index is accepted
and yields a fully known layout that agrees with the `.ok` result wherever that is known. -/
theorem C28_guards_total_slice (L : Layout?) (idx : List Idx) (R K : Layout?)
    (hok : sliceChunks? L idx = .ok R) (hK : isKnownL K = true) (hag : agrees K L = true) :
    ∃ R', sliceChunks? K idx = .ok R' ∧ isKnownL R' = true ∧ agrees R' R = true :=
  slice_parametric L idx R K hok hK hag

/-- `_validate_rechunk`: acceptance does not depend on the unknown sizes — every completion `K`
of the source induces a completion of the target (the source's blocks on unknown axes, the
requested chunks elsewhere) of the same shape, which `_validate_rechunk` accepts as well. -/
theorem C28_guards_total_rechunk (old new K : Layout?)
    (hok : validateRechunk old new = .ok ()) (hK : isKnownL K = true) (hag : agrees K old = true) :
    isKnownL (completeNew K old new) = true ∧ agrees (completeNew K old new) new = true ∧
    shape? (completeNew K old new) = shape? K ∧
    validateLoop K (completeNew K old new) = .ok () := by
  have h := (validateRechunk_iff old new).mp hok
  exact validate_parametric old new K ((validateLoop_iff old new).mpr h.2) h.1 hK hag

/-- `_validate_rechunk` accepts iff on every axis either both lengths are known and equal, or both
are unknown and the chunk tuple is unchanged. -/
theorem C28_validateRechunk_iff (old new : Layout?) :
    validateRechunk old new = .ok () ↔
      old.length = new.length ∧ ∀ p ∈ old.zip new,
        ((∃ a, osum p.1 = some a ∧ osum p.2 = some a) ∨ (osum p.1 = none ∧ osum p.2 = none ∧ p.1 = p.2)) :=
  validateRechunk_iff old new

/-- the slicing guard refuses exactly an unknown axis indexed by anything but the full slice -/
theorem C28_sliceGuard_iff (dim : Option Nat) (dims : List (Option Nat)) (ind : Idx) (inds : List Idx) :
    sliceGuard (dim :: dims) (ind :: inds) = .ok () ↔
      ¬ (dim = none ∧ ind.isColon = false) ∧ sliceGuard dims inds = .ok () := by
  rw [sliceGuard_cons]
  cases dim <;> cases h : ind.isColon <;> simp

/-- `take` proceeds iff the axis is known or has a single (unknown) block -/
theorem C28_takeGuard_iff (d : Dim?) :
    (∃ k, takeGuard d = .ok k) ↔ (hasNone d = false ∨ d.length = 1) :=
  takeGuard_ok_iff d

/-- once resolved (fully known chunks) the slicing guard refuses nothing -/
theorem C28_resolved_not_refused (K : Layout?) (idx : List Idx) (hK : isKnownL K = true) :
    sliceGuard (shape? K) idx = .ok () :=
  sliceGuard_known K idx hK

/-- PARTIAL: the unknown branch of `coarse_blockdim` only establishes that every operand has the
result's block COUNT (and that the result is one of the operands' tuples) … -/
theorem C28_unify_guard_partial (bd : List Dim?) (r : Dim?) (h : coarseBlockdim? bd = .ok r)
    (hr : hasNone r = true) : r ∈ bd ∧ ∀ d ∈ bd, d.length = r.length :=
  coarse_unknown_spec bd r h hr

/-- … which is NOT parametric in the unknown sizes: `{(nan,nan),(3,1)}` is accepted with result
`(nan,nan)`, yet for the completion `(1,3)` of the unknown operand the known-size run answers
`(1,2,1)` — the blocks of the two operands do not line up.  (Reproduced on the real code:
harness/props/C28.py, signature `unknown-elemwise-positional-blocks`.) -/
theorem C28_unify_guard_not_parametric :
    coarseBlockdim? [[none, none], [some 3, some 1]] = .ok [none, none] ∧
    agreesDim [some 1, some 3] [none, none] = true ∧
    coarseBlockdim? [[some 1, some 3], [some 3, some 1]] = .ok [some 1, some 2, some 1] := by
  decide

/-! non-vacuity -/
example : sliceChunks? [[none, none], [some 2, some 3]] [.slice ⟨none, none, none⟩, .slice ⟨some 1, some 4, none⟩]
    = .ok [[none, none], [some 1, some 2]] := by decide
example : sliceChunks? [[none, none]] [.slice ⟨none, none, some (-1)⟩] = .error .valueError := by decide
example : sliceChunks? [[none, none]] [.int 0] = .error .valueError := by decide
example : sliceChunks? [[some 2, some 0, some 1]] [.slice ⟨none, none, some (-1)⟩] = .ok [[some 1, some 2]] := by decide
example : validateRechunk [[none, none], [some 2, some 3]] [[none, none], [some 5]] = .ok () := by decide
example : validateRechunk [[none, none]] [[none]] = .error .valueError := by decide
example : validateRechunk [[some 2, none]] [[none, some 2]] = .error .valueError := by decide
example : maskSelect [3, 3] [10, 11, 12, 13, 14, 15] [true, false, false, true, true, true] = [[10], [13, 14, 15]] := by decide
example : computeChunkSizes1 (maskSelect [2, 2, 1] [0, 1, 2, 3, 4] [true, true, false, false, true]) = [some 2, some 0, some 1] := by decide
example : maskPositions [2, 2, 1] [true, true, false, false, true] = [[0, 1], [], [4]] := by decide
example : commonBlockdim? [[none, none], [some 2, some 2]] = .error .valueError := by decide
example : coarseBlockdim? [[none, none], [some 4]] = .error .valueError := by decide

end Dask.Props.C28
