/-
C06 — Equal names denote equal arrays.

(1) general theorem over the model (Model/Names.lean): if every class's semantic operand positions are
    among the positions its name tokenizes, then `name a = name b → den a = den b ∧ chunks a = chunks b`
    for nodes of any depth; classes whose names are pinned / hand-built enter through an explicit
    hypothesis (what the run-time registry of harness/props/C06.py checks);
(2) a name-keyed insert-if-absent cache stays sound under every history of requests;
(3) the coverage premise is DECIDED over the table generated from /repo's current tree
    (Generated/NameTables.lean, harness/translate/names.py) and lifted to the model's positions.

Trusted: `tokenize` is collision-free (names are modelled as a free term algebra); the AST
approximation of the translator (`tokenized` under-, `semantic` over-approximated), validated by the
perturbation runs of the harness.
-/
import DaskArrayModel.Lemmas.Names
import DaskArrayModel.Generated.NameTables
import DaskArrayModel.Lemmas.KernelDecide
namespace Dask.Props.C06
open Dask.KernelDecide
open Dask.Names Dask.Lemmas.Names
open Dask.Generated.NameTables

/-! ### (1) name determines denotation -/

theorem C06_name_determines_den {σ κ : Type} (T S : Nat → List Nat)
    (sem : Nat → List (Option (Val σ)) → σ) (proj : σ → κ)
    (hcov : ∀ cls, ∀ i, i ∈ S cls → i ∈ T cls)
    (a b : Node) (h : name T a = name T b) :
    den S sem a = den S sem b ∧ chunks proj S sem a = chunks proj S sem b := by
  have hd := name_determines_den T S sem (fun _ => false) (fun c _ => hcov c)
    (fun a b hp => by simp at hp) a b h
  exact ⟨hd, by unfold chunks; rw [hd]⟩

/-- with pinned / hand-named classes: they are covered by the registry hypothesis `hpin`, all others by the table -/
theorem C06_name_determines_den_pinned {σ κ : Type} (T S : Nat → List Nat)
    (sem : Nat → List (Option (Val σ)) → σ) (proj : σ → κ) (pinned : Nat → Bool)
    (hcov : ∀ cls, pinned cls = false → ∀ i, i ∈ S cls → i ∈ T cls)
    (hpin : ∀ a b : Node, pinned a.cls = true → name T a = name T b → den S sem a = den S sem b)
    (a b : Node) (h : name T a = name T b) :
    den S sem a = den S sem b ∧ chunks proj S sem a = chunks proj S sem b := by
  have hd := name_determines_den T S sem pinned hcov hpin a b h
  exact ⟨hd, by unfold chunks; rw [hd]⟩

/-- the `Node := mk cls operands` view used in the statement is faithful -/
theorem C06_node_view (c : Nat) (l : List Operand) (n : Node) :
    (Node.mk c l).cls = c ∧ (Node.mk c l).operands = l ∧ Node.mk n.cls n.operands = n :=
  ⟨Node.cls_mk c l, Node.operands_mk c l, Node.mk_cls_operands n⟩

/-! ### (2) de-duplication by name (singleton registry, `_LOWER_CACHE`, merged graphs) -/

theorem C06_cache_sound {κ ν σ : Type} [DecidableEq κ] (nm : ν → κ) (dn : ν → σ) (lower : ν → ν)
    (hnd : ∀ a b, nm a = nm b → dn a = dn b)          -- equal names denote equal arrays (1)
    (hlow : ∀ n, dn (lower n) = dn n)                  -- what is inserted denotes the requested node
    (history : List ν) :
    CacheSound nm dn (cacheRun nm lower [] history).1 ∧
    ∀ p, p ∈ (cacheRun nm lower [] history).2 → dn p.2 = dn p.1 :=
  run_sound nm dn lower hnd hlow history [] (empty_sound nm dn)

/-- one step from ANY sound cache (the invariant is inductive) -/
theorem C06_cache_step_sound {κ ν σ : Type} [DecidableEq κ] (nm : ν → κ) (dn : ν → σ) (lower : ν → ν)
    (hnd : ∀ a b, nm a = nm b → dn a = dn b) (hlow : ∀ n, dn (lower n) = dn n)
    (cache : List (κ × ν)) (hs : CacheSound nm dn cache) (n : ν) :
    CacheSound nm dn (cacheStep nm lower cache n).1 ∧ dn (cacheStep nm lower cache n).2 = dn n :=
  step_sound nm dn lower hnd hlow cache hs n

/-! ### (3) the coverage premise, over the generated table -/

/-- Classes whose name is (or can be) PINNED / hand-built instead of derived from the operands.  They are outside
    the table obligation and covered by the run-time name→content registry of harness/props/C06.py. -/
def optOut : List String := [
  "RootAlias",       -- `_name = operand("name")`: the raw root's name pinned onto the optimized tree (never in the registries / lowering cache)
  "FromGraph",       -- `_name = operand("name")`: a persisted collection keeps its name (opts out of the registry and of `_LOWER_CACHE`)
  "MapBlocksOutput", -- `_name = operand("name")`: per-output view of a multi-output map_blocks; name minted by its builder from the shared call's token
  "GUfuncLeafExpr",  -- `_name = f"{name_prefix}_{i}-{<token of the gufunc call node>}"`: the other operands are derived from that call node
  "FromArray",       -- `_name_is_exact`: exact names minted by `_accept_slice` / `_with_chunks` / user `name=` (opts out of registry and lowering cache)
  "BroadcastTrick",  -- user `name=` is used verbatim (ones/zeros/empty/full)
  "Ones", "Zeros", "Empty", "Full",  -- ditto (inherit BroadcastTrick._name)
  "FromMap",         -- `_name_prefix` is used verbatim when given
  "FromDelayed",     -- `_name_prefix` is used verbatim when given
  -- hand-built `_info` name: tokenizes the per-block seeds SPAWNED from `rng` (a derived value, read through
  -- `rng._bit_generator` / `rng._numpy_state`), not the operand; covered by the random-array family of the registry
  "Random", "RandomNormal", "RandomPoisson"
]

/-- (class, operand) pairs the AST over-approximation lists as read by semantic members although they do not change
    shape / chunks / dtype / values (validated by the perturbation runs: changing them never changes the content). -/
def nonSemantic : List (String × String) := [
  -- `meta` is only a hint for the array TYPE of the reduced meta; the dtype comes from the `dtype` operand
  ("Reduction", "meta"), ("Sum", "meta"), ("Prod", "meta"), ("Min", "meta"), ("Max", "meta"), ("Any", "meta"),
  ("All", "meta"), ("Mean", "meta"), ("Var", "meta"), ("NanSum", "meta"), ("NanProd", "meta"), ("NanMin", "meta"),
  ("NanMax", "meta"), ("NanMean", "meta"), ("NanVar", "meta"),
  -- same hint one level down (dtype is the explicit `dtype` operand, which is tokenized)
  ("PartialReduce", "reduced_meta"),
  -- key-name PREFIX only (`_name = f"{name or token or funcname(func)}-{token}"`): never changes the array
  ("Blockwise", "name"), ("Blockwise", "token"), ("SlidingWindowView", "name"), ("SlidingWindowView", "token"),
  -- the name tokenizes `self.dtype`, the dtype of the EFFECTIVE meta; the `dtype` operand only feeds that meta when
  -- `_meta_provided` is None, so it can differ between two nodes only where it does not reach the array
  ("Blockwise", "dtype"), ("SlidingWindowView", "dtype")
]

/-- semantic operands of class `i`, minus the justified exceptions -/
def semEff (i : Nat) : List String :=
  (semantic.getD i []).filter (fun p => !(nonSemantic.contains (classes.getD i "", p)))

/-- class `i` is covered: every semantic operand is tokenized, or is a justified exception
    (the tokenized test comes first: it almost always succeeds, which keeps kernel evaluation cheap) -/
def covered (i : Nat) : Bool :=
  (semantic.getD i []).all (fun p => (tokenized.getD i []).contains p || nonSemantic.contains (classes.getD i "", p))

theorem covered_semEff (i : Nat) (h : covered i = true) : ∀ p, p ∈ semEff i → p ∈ tokenized.getD i [] := by
  intro p hp
  unfold semEff at hp
  rw [List.mem_filter] at hp
  unfold covered at h
  rw [List.all_eq_true] at h
  have h1 := h p hp.1
  have h2 := hp.2
  simp only [Bool.or_eq_true, Bool.not_eq_true'] at h1 h2
  rcases h1 with h1 | h1
  · rwa [List.contains_iff_mem] at h1
  · rw [h2] at h1; exact absurd h1 (by simp)

theorem C06_table_wellformed :
    params.length = classes.length ∧ tokenized.length = classes.length ∧ semantic.length = classes.length ∧
    (∀ c, c ∈ optOut → c ∈ classes) ∧ (∀ q, q ∈ nonSemantic → q.1 ∈ classes) := by
  kernel_decide

theorem C06_table_covers :
    ∀ i, i < classes.length → (covered i = true ∨ optOut.contains (classes.getD i "") = true) := by
  kernel_decide

/-- positions of class `i`'s tokenized / semantic operands and the pinned flag, as the model wants them -/
def tokenizedPos (i : Nat) : List Nat := posOf (params.getD i []) (tokenized.getD i [])
def semanticPos (i : Nat) : List Nat := posOf (params.getD i []) (semEff i)
def pinnedCls (i : Nat) : Bool := !(decide (i < classes.length)) || optOut.contains (classes.getD i "")

theorem C06_generated_premise :
    ∀ cls, pinnedCls cls = false → ∀ i, i ∈ semanticPos cls → i ∈ tokenizedPos cls := by
  intro cls hp
  unfold pinnedCls at hp
  simp only [Bool.or_eq_false_iff, Bool.not_eq_false', decide_eq_true_eq] at hp
  rcases C06_table_covers cls hp.1 with h | h
  · apply posOf_subset
    exact covered_semEff cls h
  · rw [hp.2] at h; exact absurd h (by simp)

/-- the theorem instantiated on the generated table: for every expression tree over the classes of this source tree,
    equal names denote equal arrays, provided the pinned classes satisfy the registry hypothesis -/
theorem C06_generated_sound {σ κ : Type} (sem : Nat → List (Option (Val σ)) → σ) (proj : σ → κ)
    (hpin : ∀ a b : Node, pinnedCls a.cls = true → name tokenizedPos a = name tokenizedPos b →
      den semanticPos sem a = den semanticPos sem b)
    (a b : Node) (h : name tokenizedPos a = name tokenizedPos b) :
    den semanticPos sem a = den semanticPos sem b ∧ chunks proj semanticPos sem a = chunks proj semanticPos sem b :=
  C06_name_determines_den_pinned tokenizedPos semanticPos sem proj pinnedCls C06_generated_premise hpin a b h

/-! ### non-vacuity -/

/-- two DIFFERENT nodes with the same name (they differ in an operand that is neither tokenized nor semantic) … -/
example :
    let T : Nat → List Nat := fun _ => [0]
    let a := Node.mk 0 [Operand.lit 1, Operand.lit 5]
    let b := Node.mk 0 [Operand.lit 1, Operand.lit 6]
    a ≠ b ∧ name T a = name T b := by
  refine ⟨?_, rfl⟩
  simp [Node.mk]

/-- … and the theorem applies to them -/
example (sem : Nat → List (Option (Val Nat)) → Nat) :
    den (fun _ => [0]) sem (Node.mk 0 [Operand.lit 1, Operand.lit 5])
      = den (fun _ => [0]) sem (Node.mk 0 [Operand.lit 1, Operand.lit 6]) :=
  (C06_name_determines_den (fun _ => [0]) (fun _ => [0]) sem id (fun _ _ h => h) _ _ rfl).1

/-- depth: a parent over children with equal names -/
example (sem : Nat → List (Option (Val Nat)) → Nat) :
    let T : Nat → List Nat := fun _ => [0]
    let c1 := Node.mk 0 [Operand.lit 1, Operand.lit 5]
    let c2 := Node.mk 0 [Operand.lit 1, Operand.lit 6]
    den T sem (Node.mk 7 [Operand.child c1]) = den T sem (Node.mk 7 [Operand.child c2]) :=
  (C06_name_determines_den (fun _ => [0]) (fun _ => [0]) sem id (fun _ _ h => h) _ _ rfl).1

/-- the premise is necessary: a tokenizer that omits a semantic operand (e.g. `axis`) gives two nodes with one
    name and different denotations -/
example :
    let T : Nat → List Nat := fun _ => []          -- tokenizes nothing
    let S : Nat → List Nat := fun _ => [0]         -- but operand 0 is semantic
    let sem : Nat → List (Option (Val Nat)) → Nat := fun _ l =>
      match l with
      | [some (Val.lit v)] => v
      | _ => 0
    let a := Node.mk 0 [Operand.lit 1]
    let b := Node.mk 0 [Operand.lit 2]
    name T a = name T b ∧ den S sem a ≠ den S sem b := by
  refine ⟨rfl, ?_⟩
  decide

/-- the table is not trivially covered: some class has a custom tokenizer that is a strict subset of its
    operands, and one (class, operand) exception is really used -/
example : customTokenizer.contains "Reduction" = true ∧ (semantic.getD (classes.idxOf "Reduction") []).contains "meta" = true ∧
    (tokenized.getD (classes.idxOf "Reduction") []).contains "meta" = false ∧
    (tokenized.getD (classes.idxOf "Reduction") []).contains "axis" = true := by
  kernel_decide

/-- cache: a history with a repeated name is answered from the cache -/
example :
    (cacheRun (fun n : Nat => n % 2) (fun n => n + 2) [] [1, 3]).2 = [(1, 3), (3, 3)] := by
  decide

end Dask.Props.C06
