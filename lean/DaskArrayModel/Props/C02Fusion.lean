/-
C02 (last clause) — "Blockwise fusion never changes which input block any output block is
computed from."  ONLY property theorems (one-liners from Lemmas/Fusion) and non-vacuity examples.

Model: Model/Fusion.lean.  A group is the member list of a `FusedBlockwise` (root first); members
are `Blockwise` / `Elemwise` / `Transpose` / `Random`-like nodes with their own `_task` and
`_input_block_id` rules.  UNFUSED: `Reach g r m b` (block `b` of member `m` is computed to produce
root block `r`, along some path), `ExtRead g r e c` (block `c` of external input `e` is read),
executable `pathsReads`.  FUSED: `computeBlockIds` (= `_compute_block_ids`, one block per member,
first assignment wins), `fusedReads` / `fusedInternalRefs` (the `TaskRef`s of the member tasks).
Hypotheses of the main theorem, for groups of ANY size, depth, rank and block counts:
`WF g` (what lowering and `_is_blockwise_fusable` guarantee), `Ordered g` (the member order
`_fusion_pass` produces), `Accepted g` (`_remove_conflicting_exprs` records no conflict: every member
is reached under ONE symbolic mapping), `ValidBlock g r`.
-/
import DaskArrayModel.Lemmas.Fusion
namespace Dask.Props.C02Fusion
open Dask.Fusion

/-- For an accepted group and every block `r` of the root: `_compute_block_ids` succeeds and gives
every member exactly the block that the unfused graph computes along EVERY path; hence the fused
task reads exactly the (external input, block) pairs the unfused graph reads, and every internal
reference of a member task hits the member task generated for the assigned block. -/
theorem C02_fuse_block_ids (g : Group) (r : List Nat)
    (hwf : WF g) (hord : Ordered g) (hacc : Accepted g) (hr : ValidBlock g r) :
    ∃ ids, computeBlockIds g r = some ids ∧
      (∀ m, m < g.length → ∃ b, ids m = some b) ∧
      (∀ m b, Reach g r m b → ids m = some b) ∧
      (∀ m b, ids m = some b → Reach g r m b) ∧
      (∀ e c, (e, c) ∈ fusedReads g ids ↔ ExtRead g r e c) ∧
      (∀ j c, (j, c) ∈ fusedInternalRefs g ids → ids j = some c) := by
  obtain ⟨ids, h1, h2⟩ := ids_ok g r hwf hord hacc hr
  exact ⟨ids, h1, h2.total, h2.every_path, h2.reached, fusedReads_iff g r ids h2,
    fusedInternalRefs_resolve g r ids h2⟩

/-- the same with the executable path enumeration: whatever `pathsReads` finds (any depth) is read
by the fused task, and every read of the fused task is found at some depth -/
theorem C02_fuse_reads_paths (g : Group) (r : List Nat)
    (hwf : WF g) (hord : Ordered g) (hacc : Accepted g) (hr : ValidBlock g r) :
    ∃ ids, computeBlockIds g r = some ids ∧
      (∀ fuel x, x ∈ pathsReads g fuel 0 r → x ∈ fusedReads g ids) ∧
      (∀ x, x ∈ fusedReads g ids → ∃ fuel, x ∈ pathsReads g fuel 0 r) := by
  obtain ⟨ids, h1, h2⟩ := ids_ok g r hwf hord hacc hr
  refine ⟨ids, h1, fun fuel x hx => ?_, fun x hx => ?_⟩
  · exact (fusedReads_iff g r ids h2 x.1 x.2).mpr (pathsReads_sound g r fuel 0 r Reach.root x hx)
  · exact pathsReads_complete g r x.1 x.2 ((fusedReads_iff g r ids h2 x.1 x.2).mp hx)

/-- an accepted group is returned unchanged by `_remove_conflicting_exprs` -/
theorem C02_fuse_accepted_kept (g : Group) (h : Accepted g) : removeConflicting g = List.range g.length :=
  removeConflicting_of_accepted g h

/-- every block touched on the way (members and external inputs) exists in its array's grid -/
theorem C02_fuse_blocks_in_grid (g : Group) (r : List Nat)
    (hwf : WF g) (hord : Ordered g) (hacc : Accepted g) (hr : ValidBlock g r) :
    (∀ m b, Reach g r m b →
      b.length = (node g m).nb.length ∧ ∀ t, t < (node g m).nb.length → b.getD t 0 < (node g m).nb.getD t 1) ∧
    (∀ e c, ExtRead g r e c → ∃ i a, i < g.length ∧ a ∈ (node g i).args ∧ a.src = .ext e ∧
      c.length = a.nb.length ∧ ∀ t, t < a.nb.length → c.getD t 0 < a.nb.getD t 1) :=
  ⟨reach_in_grid g r hwf (sym_ok g hwf hord hacc) hr, extRead_in_grid g r hwf (sym_ok g hwf hord hacc) hr⟩

/-- `_compute_block_id`'s `% numblocks` rule: whatever the output block and whatever the index map,
the dependency block id is inside the dependency's grid, and 0 on every single-block (broadcast)
axis — also for operands of lower rank (`ind` shorter than the output's indices) -/
theorem C02_broadcast_rule (ind : List Nat) (m : Nat → Option Nat) (nb : List Nat)
    (hl : ind.length = nb.length) (hpos : ∀ n ∈ nb, 0 < n) :
    (computeBlockId ind m nb).length = nb.length ∧
    (∀ t, t < nb.length → (computeBlockId ind m nb).getD t 0 < nb.getD t 1) ∧
    (∀ t, t < nb.length → nb.getD t 1 = 1 → (computeBlockId ind m nb).getD t 0 = 0) :=
  ⟨by rw [computeBlockId_length, hl], computeBlockId_lt ind m nb hl hpos,
    fun t ht h1 => computeBlockId_single ind m nb t (by omega) h1⟩

/-- `_broadcast_block_id` (Elemwise): for a right-aligned operand of rank ≤ the output's whose axes
have one block or as many as the output, the block id is inside the operand's grid -/
theorem C02_broadcast_rule_elemwise (nb b nbOut : List Nat) (hl : nb.length ≤ b.length)
    (hv : ∀ p, p < b.length → b.getD p 0 < nbOut.getD p 1)
    (hal : ∀ t, t < nb.length → nb.getD t 1 = 1 ∨ nb.getD t 1 = nbOut.getD (b.length - nb.length + t) 1) :
    (broadcastBlockId nb b).length = nb.length ∧
    ∀ t, t < nb.length → (broadcastBlockId nb b).getD t 0 < nb.getD t 1 :=
  ⟨broadcastBlockId_length nb b, broadcastBlockId_lt nb b nbOut hl hv hal⟩

/-! ### the conflict witness: `a + a.T` -/

/-- `m = x.map_blocks(f)` (2×2 blocks), root `m + m.T`: member 2 is read directly and through the
transpose (member 1) -/
def gAT : Group :=
  [ ⟨.elemwise, [1, 0], [], [⟨.mem 2, [1, 0], [2, 2]⟩, ⟨.mem 1, [1, 0], [2, 2]⟩], [2, 2]⟩,
    ⟨.transpose, [1, 0], [], [⟨.mem 2, [0, 1], [2, 2]⟩], [2, 2]⟩,
    ⟨.blockwise, [0, 1], [], [⟨.ext 0, [0, 1], [2, 2]⟩], [2, 2]⟩ ]

/-- WITHOUT conflict removal the group `m + m.T` is well-formed and ordered but not accepted;
`_remove_conflicting_exprs` drops `m`; fusing it anyway gives `m` the block `[0, 1]` for root block
`[0, 1]` while the path through the transpose computes block `[1, 0]` of `m`: the fused task never
reads block `[1, 0]` of the input, which the unfused graph reads, and its transpose task references
a member task `(m, 1, 0)` that is not generated. -/
theorem C02_fuse_conflict_witness :
    WF gAT ∧ Ordered gAT ∧ ValidBlock gAT [0, 1] ∧ conflictsOf gAT = [2] ∧ removeConflicting gAT = [0, 1] ∧
    ∃ ids, computeBlockIds gAT [0, 1] = some ids ∧ ids 2 = some [0, 1] ∧
      Reach gAT [0, 1] 2 [1, 0] ∧
      ExtRead gAT [0, 1] 0 [1, 0] ∧ (0, [1, 0]) ∉ fusedReads gAT ids ∧
      (2, [1, 0]) ∈ fusedInternalRefs gAT ids ∧ ids 2 ≠ some [1, 0] := by
  have h1 : Reach gAT [0, 1] 1 [0, 1] :=
    Reach.step (i := 0) (j := 1) (a := ⟨.mem 1, [1, 0], [2, 2]⟩) Reach.root (by decide) (by decide) rfl
  have h2 : Reach gAT [0, 1] 2 [1, 0] :=
    Reach.step (i := 1) (j := 2) (a := ⟨.mem 2, [0, 1], [2, 2]⟩) h1 (by decide) (by decide) rfl
  refine ⟨by decide, by decide, by decide, by decide, by decide, _, rfl, by decide, h2, ?_, by decide, by decide, by decide⟩
  exact ⟨2, [1, 0], ⟨.ext 0, [0, 1], [2, 2]⟩, h2, by decide, by decide, rfl, by decide⟩

/-! ### non-vacuity -/

/-- broadcasting group: root `map_blocks(f, A, B, C)` with `A` 2×3 blocks, `B` 1×3 blocks (broadcast
along axis 0), `C` of lower rank (3 blocks); `A = x + C` (Elemwise with a lower-rank operand), so `C`
is reached along two paths under the same mapping -/
def gB : Group :=
  [ ⟨.blockwise, [0, 1], [], [⟨.mem 1, [0, 1], [2, 3]⟩, ⟨.mem 2, [0, 1], [1, 3]⟩, ⟨.mem 3, [1], [3]⟩], [2, 3]⟩,
    ⟨.elemwise, [1, 0], [], [⟨.ext 0, [1, 0], [2, 3]⟩, ⟨.mem 3, [0], [3]⟩], [2, 3]⟩,
    ⟨.blockwise, [0, 1], [], [⟨.ext 1, [0, 1], [1, 3]⟩], [1, 3]⟩,
    ⟨.blockwise, [0], [], [⟨.ext 2, [0], [3]⟩, ⟨.ext 3, [0], [1]⟩], [3]⟩ ]

example : WF gB ∧ Ordered gB ∧ Accepted gB ∧ ∀ r ∈ grid [2, 3], ValidBlock gB r := by decide
example : (computeBlockIds gB [1, 2]).map (fun ids => (List.range 4).map ids)
    = some [some [1, 2], some [1, 2], some [0, 2], some [2]] := by decide
example : (computeBlockIds gB [1, 2]).map (fusedReads gB)
    = some [(0, [1, 2]), (1, [0, 2]), (2, [2]), (3, [0])] := by decide
example : pathsReads gB 4 0 [1, 2] = [(0, [1, 2]), (2, [2]), (3, [0]), (1, [0, 2]), (2, [2]), (3, [0])] := by decide

/-- rank-3 transposes with a non-involutive permutation: `t1 = m.transpose(1,2,0)`, `u = t1.map_blocks(f)`,
`t2 = u.transpose(2,0,1)`, root `t2 + m`; `m` (member 4, grid 2×3×4) is reached directly and through
both transposes, under the same symbolic mapping -/
def gT3 : Group :=
  [ ⟨.elemwise, [2, 1, 0], [], [⟨.mem 1, [2, 1, 0], [2, 3, 4]⟩, ⟨.mem 4, [2, 1, 0], [2, 3, 4]⟩], [2, 3, 4]⟩,
    ⟨.transpose, [2, 0, 1], [], [⟨.mem 2, [0, 1, 2], [3, 4, 2]⟩], [2, 3, 4]⟩,
    ⟨.blockwise, [0, 1, 2], [], [⟨.mem 3, [0, 1, 2], [3, 4, 2]⟩], [3, 4, 2]⟩,
    ⟨.transpose, [1, 2, 0], [], [⟨.mem 4, [0, 1, 2], [2, 3, 4]⟩], [3, 4, 2]⟩,
    ⟨.blockwise, [0, 1, 2], [], [⟨.ext 0, [0, 1, 2], [2, 3, 4]⟩], [2, 3, 4]⟩ ]

example : WF gT3 ∧ Ordered gT3 ∧ Accepted gT3 ∧ ValidBlock gT3 [1, 2, 3] := by decide
example : (computeBlockIds gT3 [1, 2, 3]).map (fun ids => (List.range 5).map ids)
    = some [some [1, 2, 3], some [1, 2, 3], some [2, 3, 1], some [2, 3, 1], some [1, 2, 3]] := by decide
example : pathsReads gT3 5 0 [1, 2, 3] = [(0, [1, 2, 3]), (0, [1, 2, 3])] := by decide
/-- … while reading `m` through `m.transpose(1,2,0)` once more instead (two DIFFERENT maps to `m`) is a conflict -/
def gT3c : Group :=
  gT3.set 0 ⟨.elemwise, [2, 1, 0], [], [⟨.mem 1, [2, 1, 0], [2, 3, 4]⟩, ⟨.mem 3, [2, 1, 0], [3, 4, 2]⟩], [2, 3, 4]⟩
example : conflictsOf gT3c ≠ [] := by decide

/-- the `% numblocks` rule has teeth: operand with grid 3×1 (broadcast along its second axis) of a
node whose output block is (2, 1): with the rule block (2, 0); without it (2, 1), outside the grid -/
example : computeBlockId [0, 1] (idxToBlock ⟨.blockwise, [0, 1], [], [], [3, 2]⟩ [2, 1]) [3, 1] = [2, 0] := by decide
example : computeBlockIdNoMod [0, 1] (idxToBlock ⟨.blockwise, [0, 1], [], [], [3, 2]⟩ [2, 1]) = [2, 1] := by decide
/-- a new axis of the output never selects a block of an operand; a contracted single-block axis reads block 0 -/
example : computeBlockId [0, 7] (idxToBlock ⟨.blockwise, [0, 5], [5], [], [3, 2]⟩ [2, 1]) [3, 1] = [2, 0] := by decide
/-- Elemwise: lower-rank operand (grid [3]) and single-block axis under a 2×3 output -/
example : broadcastBlockId [3] [1, 2] = [2] ∧ broadcastBlockId [1, 3] [1, 2] = [0, 2] := by decide

end Dask.Props.C02Fusion
