/-
C14 — rechunking yields the requested chunks with unchanged values.

Values: the task-rechunk graph builds new block `j` by concatenating, in order, the slices
`old_block[idx][s:e]` listed by the crosswalk (`_compute_rechunk` / `intersect_chunks`).  Read on
data (Model/RechunkPlan.lean: `blockOf`, `pieceData`, `assembleBlock`, `rechunkStep`,
`rechunkChain`) this gives exactly the elements at positions `[newStart j, newEnd j)`, for ALL
chunkings incl. zero-width chunks, and so does any chain of stages (any plan).  One axis; the
n-d layer is the cartesian product of the per-axis crosswalks (`intersectChunks`), compared with
`intersect_chunks` / `TasksRechunk._layer` on every run (harness/props/C14.py), not proved.
Chunks: the per-axis resolution of explicit specs (None / -1 / int / tuple) and `balance=True`
give chunkings of the same axis length.  `'auto'` / byte-limit specs are C16's
(`normalize_chunks`); here they are compared with `normalize_chunks` called independently.
-/
import DaskArrayModel.Lemmas.RechunkPlan
namespace Dask.Props.C14
open Dask.Py Dask.Rechunk Dask.RechunkPlan
open Dask.Lemmas.RechunkPlan (Chunking)

/-- one stage, one new block: assembling block `j` of `new` from the crosswalk pieces of the blocks
of `old` gives `(xs.drop newStart_j).take new[j]` -/
theorem rechunk_values {α : Type} (old new : List Int) (xs : List α)
    (ho : ∀ c ∈ old, 0 ≤ c) (hn : ∀ c ∈ new, 0 ≤ c) (hsum : isum old = isum new)
    (hone : old ≠ []) (hnne : new ≠ []) (hlen : (xs.length : Int) = isum old)
    (j : Nat) (hj : j < new.length) :
    assembleBlock old new (blocks old xs) j = blockOf new xs j :=
  Dask.Lemmas.RechunkPlan.rechunk_values old new xs ho hn hsum hone hnne hlen j hj

/-- one stage, all blocks -/
theorem rechunkStep_blocks {α : Type} (old new : List Int) (xs : List α)
    (ho : ∀ c ∈ old, 0 ≤ c) (hn : ∀ c ∈ new, 0 ≤ c) (hsum : isum old = isum new)
    (hone : old ≠ []) (hnne : new ≠ []) (hlen : (xs.length : Int) = isum old) :
    rechunkStep old new (blocks old xs) = blocks new xs :=
  Dask.Lemmas.RechunkPlan.rechunkStep_blocks old new xs ho hn hsum hone hnne hlen

/-- any plan (any list of intermediate chunkings of the axis) preserves the data -/
theorem rechunkChain_blocks {α : Type} (xs : List α) (chain : List (List Int)) (old : List Int)
    (ho : Chunking xs.length old) (hc : ∀ c ∈ chain, Chunking xs.length c) :
    rechunkChain old chain (blocks old xs) = blocks ((old :: chain).getLast (by simp)) xs :=
  Dask.Lemmas.RechunkPlan.rechunkChain_blocks xs chain old ho hc

/-- equal blocks mean equal values: the blocks of a chunking concatenate back to the data -/
theorem blocks_flatten {α : Type} (c : List Int) (xs : List α) (h : Chunking xs.length c) :
    (blocks c xs).flatten = xs :=
  Dask.Lemmas.RechunkPlan.blocks_flatten c xs h

/-- explicit spec kinds resolve to a chunking of the same axis length -/
theorem resolveAxis_sum (oldc : List Int) (sp : AxisSpec) (ho : ∀ c ∈ oldc, 0 ≤ c)
    (hsp : match sp with
      | .size k => 1 ≤ k
      | .explicit l => isum l = isum oldc
      | _ => True) :
    isum (resolveAxis oldc sp) = isum oldc :=
  Dask.Lemmas.RechunkPlan.resolveAxis_sum oldc sp ho hsp

/-- `balance=True` keeps the axis length -/
theorem balanceChunksizes_sum (chunks : List Int) (hne : chunks ≠ []) (h : ∀ x ∈ chunks, 0 ≤ x) :
    isum (balanceChunksizes chunks) = isum chunks :=
  Dask.Lemmas.RechunkPlan.balanceChunksizes_sum chunks hne h

/-! ### non-vacuity -/

/-- data 0..9 in blocks (4,4,2) → blocks (5,5) -/
example : rechunkStep [4, 4, 2] [5, 5] (blocks [4, 4, 2] [0, 1, 2, 3, 4, 5, 6, 7, 8, 9]) =
    [[0, 1, 2, 3, 4], [5, 6, 7, 8, 9]] := by
  unfold rechunkStep assembleBlock
  rw [Dask.Lemmas.RechunkPlan.ex_o2n]
  decide

example : blocks [5, 5] [0, 1, 2, 3, 4, 5, 6, 7, 8, 9] = [[0, 1, 2, 3, 4], [5, 6, 7, 8, 9]] := by decide

example : rechunkStep [4, 4, 2] [5, 5] (blocks [4, 4, 2] [10, 11, 12, 13, 14, 15, 16, 17, 18, 19]) =
    blocks [5, 5] [10, 11, 12, 13, 14, 15, 16, 17, 18, 19] :=
  rechunkStep_blocks [4, 4, 2] [5, 5] _ (by decide) (by decide) (by decide) (by decide) (by decide) (by decide)

example : Chunking ([1, 2, 3].length : Nat) [2, 0, 1] := ⟨by decide, by decide, by decide⟩

example : resolveAxis [4, 4, 2] (.size 3) = [3, 3, 3, 1] := by decide
example : resolveAxis [4, 4, 2] .full = [10] := by decide
example : getChunks 1000 500 = [500, 500] := by decide

end Dask.Props.C14
