/-
C02 (extension, package `prm`) — the axis-permutation rules of `dask_array/manipulation/_transpose.py` preserve values.
ONLY property theorems (restated; proofs are one-liners from Lemmas/Perm*.lean) and non-vacuity examples.

Model: Model/Perm.lean (line-by-line mirror of `Transpose._simplify_down`, `_pushdown_through_elemwise`,
`_inverse_axes`, `_input_block_id`, `_task`, `_accept_shuffle`, `Array.transpose`, `swapaxes`, `moveaxis`, `rollaxis`).
Denotation: the one of Model/Expr.lean — `den env (.transpose e p) = transposeArr (den env e) p` (`rfl`), i.e.
`out[i] = in[unperm p i]` with `unperm p i [a] = i[p.index(a)]`; `takeArr` is the denotation of `Expr2.take` (`rfl`).
`isPerm p n` (Model/Expr.lean) is the decidable validity predicate; `Preserves` is phase 2's (Props/C02.lean).

  C02p_transpose_transpose            (x.transpose(p)).transpose(q) = x.transpose(tuple(p[i] for i in q)), on `Expr`
  C02p_transpose_transpose_arr        the same for every array (no expression language)
  C02p_transpose_transpose_order_witness   the opposite composition order is wrong for a 3-cycle (equal for p = q)
  C02p_identity / C02p_identity_arr   identity removal
  C02p_inverse_roundtrip              `_inverse_axes` is the inverse permutation (valid, involutive, both compositions
                                      are the identity, transposing back gives the array)
  C02p_take_through_transpose         take along axis k of x.transpose(p) = (take along p[k] of x).transpose(p)
  C02p_take_through_transpose_expr    the same on the `Expr2.take` denotation
  C02p_take_inverse_witness           `_inverse_axes[k]` instead of `axes[k]` is wrong for a 3-cycle
  C02p_block_key / _valid / _block    block-key map `_input_block_id` + per-block `np.transpose` assemble to the transposed
                                      array, for every chunking; the key is a valid input block; each block is right
  C02p_builders_swapaxes / _moveaxis / _moveaxis_one / _rollaxis / _T   builders give valid permutations with NumPy's index map
  C02p_elemwise_split_fires_iff / _axes / _sound / C02p_elemwise_rule_map / _zip / _decline_witness
NOT covered here: `Transpose._accept_slice` (all-slice indices: `C02_rule_sound_sliceThroughTranspose` in Props/C02.lean;
integer indices through `sliceSplitInts`), `_rechunk_pushdown` (`C02_rule_sound_rechunkThroughTranspose`).
-/
import DaskArrayModel.Lemmas.PermRules
import DaskArrayModel.Lemmas.PermMoveaxis
import DaskArrayModel.Props.C02
namespace Dask.Props.C02Perm
open Dask.Py Dask.ND Dask.Perm Dask.Props.C02

/-! ### double transpose -/

/-- `Transpose(Transpose(x, p), q)` → `Transpose(x, tuple(p[i] for i in q))`: for every well-formed expression (so: all
valid `p`, `q` of the rank of `x`), every environment, the single transpose is well-formed, has the same shape and
denotes the same array. -/
theorem C02p_transpose_transpose (env : Env) (e : Expr) (p q : List Nat)
    (hw : WF (.transpose (.transpose e p) q)) :
    Preserves env (.transpose e (composeAsCode p q)) (.transpose (.transpose e p) q) :=
  preserves_of (transposeTranspose_sound env _ _ hw rfl)

/-- the rule as the optimizer applies it -/
theorem C02p_rule_sound_transposeTranspose (env : Env) (e e' : Expr) (hw : WF e)
    (h : transposeTranspose e = some e') : Preserves env e' e :=
  preserves_of (transposeTranspose_sound env e e' hw h)

/-- the same statement for arbitrary arrays, with the validity predicate explicit; the composed permutation is valid -/
theorem C02p_transpose_transpose_arr (n : Nat) (p q : List Nat) (hp : isPerm p n = true) (hq : isPerm q n = true)
    (a : Arr Int) :
    isPerm (composeAsCode p q) n = true ∧
      Arr.Equiv (transposeArr (transposeArr a p) q) (transposeArr a (composeAsCode p q)) :=
  ⟨isPerm_of_ok (composeAsCode_ok (isPerm_ok hp) (isPerm_ok hq)),
   transposeArr_transposeArr (isPerm_ok hp) (isPerm_ok hq) a⟩

/-- the 3-cycle array used by the witnesses: shape (2,3,4), element = its C-order position -/
def wArr : Arr Int := ⟨[2, 3, 4], fun i => (flatIndex [2, 3, 4] i : Nat)⟩

/-- composing in the opposite order gives another permutation and another array for a 3-cycle followed by a swap;
for `p = q` (and so for every involution applied twice) both orders coincide, which is why 2-d tests cannot see it -/
theorem C02p_transpose_transpose_order_witness :
    composeAsCode [1, 2, 0] [1, 0, 2] = [2, 1, 0] ∧ composeWrong [1, 2, 0] [1, 0, 2] = [0, 2, 1] ∧
    (transposeArr (transposeArr wArr [1, 2, 0]) [1, 0, 2]).toList
      = (transposeArr wArr (composeAsCode [1, 2, 0] [1, 0, 2])).toList ∧
    (transposeArr (transposeArr wArr [1, 2, 0]) [1, 0, 2]).toList
      ≠ (transposeArr wArr (composeWrong [1, 2, 0] [1, 0, 2])).toList ∧
    (∀ p : List Nat, composeAsCode p p = composeWrong p p) := by
  refine ⟨by decide, by decide, by decide +kernel, by decide +kernel, fun _ => rfl⟩

/-! ### identity, inverse -/

theorem C02p_identity (env : Env) (e e' : Expr) (hw : WF e) (h : transposeIdentity e = some e') :
    Preserves env e' e :=
  preserves_of (transposeIdentity_sound env e e' hw h)

theorem C02p_identity_arr (a : Arr Int) : Arr.Equiv (transposeArr a (List.range a.shape.length)) a :=
  transposeArr_identity a

/-- `_inverse_axes` (the `inv[a] = i` loop) of a valid permutation: no IndexError, a valid permutation, its own inverse
is the original, both compositions are the identity, and transposing with it undoes the transpose -/
theorem C02p_inverse_roundtrip (n : Nat) (p : List Nat) (hp : isPerm p n = true) :
    inverseE p = .ok (inverse p) ∧ isPerm (inverse p) n = true ∧ inverse (inverse p) = p ∧
    composeAsCode p (inverse p) = List.range n ∧ composeAsCode (inverse p) p = List.range n ∧
    (∀ k, k < n → (inverse p).getD (p.getD k 0) 0 = k) ∧
    (∀ a : Arr Int, a.shape.length = n → Arr.Equiv (transposeArr (transposeArr a p) (inverse p)) a) := by
  have hp' := isPerm_ok hp
  refine ⟨inverseE_ok hp', isPerm_of_ok (inverse_ok hp'), inverse_inverse hp', compose_inverse_right hp',
    compose_inverse_left hp', ?_, ?_⟩
  · intro k hk
    rw [inverse_getD hp' (hp'.getD_lt hk), hp'.idxOf_getD hk]
  · intro a ha
    have h1 := transposeArr_transposeArr hp' (inverse_ok hp') a
    rw [compose_inverse_right hp', ← ha] at h1
    exact h1.trans (transposeArr_identity a)

/-! ### take through transpose (`_accept_shuffle`) -/

/-- a take along OUTPUT axis `k` of `x.transpose(p)` is the transpose of the take along INPUT axis `p[k]` -/
theorem C02p_take_through_transpose (n : Nat) (p : List Nat) (hp : isPerm p n = true) (a : Arr Int)
    (ha : a.shape.length = n) (k : Nat) (hk : k < n) (idx : List Int) :
    Arr.Equiv (takeArr (transposeArr a p) k idx) (transposeArr (takeArr a (p.getD k 0) idx) p) :=
  take_through_transpose (isPerm_ok hp) a ha hk idx

/-- the same on the expression denotations (`Expr2.take` over `Expr.transpose`) -/
theorem C02p_take_through_transpose_expr (env : Env) (e : Expr) (p : List Nat) (k : Nat) (idx : List Int)
    (hw : WF (.transpose e p)) (hk : k < (shape e).length) :
    Arr.Equiv (den2 env (.take (.base (.transpose e p)) k idx))
      (transposeArr (den2 env (.take (.base e) (shuffleAxis p k) idx)) p) := by
  simp only [WF, wf, Bool.and_eq_true] at hw
  exact take_through_transpose (isPerm_ok hw.2) (den env e) rfl hk idx

/-- with the inverse permutation the pushed take acts on the wrong axis: for the 3-cycle (1,2,0) and output axis 0 the
code's axis is 1, the inverse gives 2, and already the shapes differ -/
theorem C02p_take_inverse_witness :
    shuffleAxis [1, 2, 0] 0 = 1 ∧ shuffleAxisWrong [1, 2, 0] 0 = 2 ∧
    (takeArr (transposeArr wArr [1, 2, 0]) 0 [2, 0]).toList
      = (transposeArr (takeArr wArr (shuffleAxis [1, 2, 0] 0) [2, 0]) [1, 2, 0]).toList ∧
    (takeArr (transposeArr wArr [1, 2, 0]) 0 [2, 0]).shape
      ≠ (transposeArr (takeArr wArr (shuffleAxisWrong [1, 2, 0] 0) [2, 0]) [1, 2, 0]).shape ∧
    (∀ k, shuffleAxis [1, 0] k = shuffleAxisWrong [1, 0] k ∨ 2 ≤ k) := by
  refine ⟨by decide, by decide, by decide +kernel, by decide, ?_⟩
  intro k
  match k with
  | 0 => exact .inl (by decide)
  | 1 => exact .inl (by decide)
  | k + 2 => exact .inr (by omega)

/-! ### the layer: block-key map and per-block transposition -/

/-- for every array, every chunking `cl` of it, every grid `blocks` holding the array's blocks: the tasks of the
transpose layer (output block `bid` = `np.transpose(blocks[_input_block_id(bid)], axes)`) assemble, under the permuted
chunks, to the transposed array -/
theorem C02p_block_key (n : Nat) (p : List Nat) (hp : isPerm p n = true) (a : Arr Int) (cl : Layout)
    (hl : wfLayout a.shape cl = true) (hn : a.shape.length = n) (blocks : List Nat → Arr Int)
    (hB : ∀ b, validBid cl b → Arr.Equiv (blocks b) (restrict a (extent cl b))) :
    Arr.Equiv (assemble (transposeChunks p cl) (transposeBlock p blocks)) (transposeArr a p) :=
  transposeLayer_assemble (isPerm_ok hp) a cl hl hn blocks hB

/-- the key names an existing input block, and it is the un-permutation used by the denotation:
`in_id[a] = out_id[p.index(a)]`, equivalently `in_id[p[k]] = out_id[k]` -/
theorem C02p_block_key_valid (n : Nat) (p : List Nat) (hp : isPerm p n = true) (cl : Layout) (hc : cl.length = n)
    (bid : List Nat) (hb : validBid (transposeChunks p cl) bid) :
    validBid cl (inputBlockId p bid) ∧ inputBlockId p bid = unperm p bid ∧
      (∀ k, k < n → (inputBlockId p bid).getD (p.getD k 0) 0 = bid.getD k 0) := by
  have hp' := isPerm_ok hp
  have hbl : bid.length = n := by rw [hb.length_eq]; simp [transposeChunks, permute, hp'.len]
  have he := inputBlockId_eq hp' bid hbl
  refine ⟨he ▸ validBid_unperm hp' cl hc bid hb, he, ?_⟩
  intro k hk
  rw [he, unperm_getD _ _ _ (by rw [hp'.len]; exact hp'.getD_lt hk), hp'.idxOf_getD hk]

/-- each task produces exactly the block of the transposed array on the advertised extent -/
theorem C02p_block_key_block (n : Nat) (p : List Nat) (hp : isPerm p n = true) (a : Arr Int) (cl : Layout)
    (hl : wfLayout a.shape cl = true) (hn : a.shape.length = n) (bid : List Nat)
    (hb : validBid (transposeChunks p cl) bid) :
    Arr.Equiv (transposeBlock p (blocksOf a cl) bid)
      (restrict (transposeArr a p) (extent (transposeChunks p cl) bid)) :=
  transposeBlock_correct (isPerm_ok hp) a cl hl hn _ (fun _ _ => Arr.Equiv.refl _) bid hb

/-! ### builders -/

/-- `swapaxes(a, a1, a2)` for axes NumPy accepts (`-n ≤ a < n`): a valid permutation exchanging the two normalised axes -/
theorem C02p_builders_swapaxes (n : Nat) (a1 a2 : Int) (h1 : AxisOK n a1) (h2 : AxisOK n a2) :
    ∃ p, swapaxesPerm n a1 a2 = .ok p ∧ isPerm p n = true ∧ IsSwapaxes n (normI n a1) (normI n a2) p :=
  let h := swapaxes_correct n a1 a2 h1 h2
  ⟨_, h.1, isPerm_of_ok h.2.1, h.2.2⟩

/-- `moveaxis(a, source, destination)` for sequences NumPy accepts (axes in `[-n, n)`, no repeats, equal lengths): a valid
permutation `p` with `p[destination[j]] = source[j]` for every `j` (normalised axes) and the remaining axes in increasing
order on the remaining positions — NumPy's meaning, which determines `p` -/
theorem C02p_builders_moveaxis (n : Nat) (src dst : List Int) (hs : AxesOK n src) (hd : AxesOK n dst)
    (hlen : src.length = dst.length) :
    ∃ p, moveaxisPermN n src dst = .ok p ∧ isPerm p n = true ∧
      (∀ j, j < src.length → p.getD ((dst.map (normI n)).getD j 0) 0 = (src.map (normI n)).getD j 0) ∧
      (∀ i j, i < j → j < n → i ∉ dst.map (normI n) → j ∉ dst.map (normI n) → p.getD i 0 < p.getD j 0) := by
  obtain ⟨p, h1, h2, h3, h4⟩ := moveaxisN_correct n src dst hs.1 hd.1 hs.2 hd.2 hlen
  exact ⟨p, h1, isPerm_of_ok h2, h3, h4⟩

/-- one axis: output axis `d` is input axis `s`, and deleting it leaves the other axes in order -/
theorem C02p_builders_moveaxis_one (n : Nat) (s d : Int) (hs : AxisOK n s) (hd : AxisOK n d) :
    ∃ p, moveaxisPermN n [s] [d] = .ok p ∧ isPerm p n = true ∧ IsMoveaxis n (normI n s) (normI n d) p :=
  let h := moveaxis1_correct n s d hs hd
  ⟨_, h.1, isPerm_of_ok h.2.1, h.2.2⟩

/-- `rollaxis(a, axis, start)` for arguments NumPy accepts (`-n ≤ axis < n`, `-n ≤ start ≤ n`): NumPy's
`moveaxis(a, axis, start - (axis < start))` -/
theorem C02p_builders_rollaxis (n : Nat) (axis start : Int) (ha : AxisOK n axis) (hs : StartOK n start) :
    ∃ p, rollaxisPerm n axis start = .ok p ∧ isPerm p n = true ∧
      IsMoveaxis n (normI n axis) (rollDest n axis start) p := by
  obtain ⟨p, h1, h2, h3⟩ := rollaxis_correct n axis start ha hs
  exact ⟨p, h1, isPerm_of_ok h2, h3⟩

/-- `.T` / `transpose()`: the reversal -/
theorem C02p_builders_T (n : Nat) :
    isPerm (reversePerm n) n = true ∧ ∀ k, k < n → (reversePerm n).getD k 0 = n - 1 - k :=
  ⟨isPerm_of_ok (reversePerm_ok n), fun _ hk => reversePerm_getD hk⟩

/-! ### transpose through elemwise -/

/-- the rule fires exactly when every array argument, `where=` and `out=` have the rank of the output
(a lower-rank broadcasting operand — a 0-d dask array included — makes it decline) -/
theorem C02p_elemwise_split_fires_iff (axes : List Nat) (args : List Opnd) (whr out : Option Nat) :
    (elemwiseSplit axes args whr out).isSome = true ↔
      (∀ k, Opnd.arr k ∈ args → k = axes.length) ∧ (∀ k, whr = some k → k = axes.length) ∧
        (∀ k, out = some k → k = axes.length) :=
  elemwiseSplit_isSome_iff axes args whr out

/-- when it fires, every array argument and `where=` / `out=` get the WHOLE permutation; scalars pass unchanged -/
theorem C02p_elemwise_split_axes (axes : List Nat) (args : List Opnd) (whr out : Option Nat) (s : Split)
    (h : elemwiseSplit axes args whr out = some s) :
    s.args = args.map (fun a => match a with | .scalar => none | .arr _ => some axes) ∧
      s.whr = whr.map (fun _ => axes) ∧ s.out = out.map (fun _ => axes) :=
  elemwiseSplit_some axes args whr out s h

/-- soundness when it fires, for any number of same-shape array operands (`where=` mask and `out=` array are operands of
the pointwise function `f`, scalars are part of `f`) -/
theorem C02p_elemwise_split_sound (f : List Int → Int) (ops : List (Arr Int)) (p : List Nat) (hne : ops ≠ []) :
    Arr.Equiv (transposeArr (pointwiseArr f ops) p) (pointwiseArr f (ops.map (fun a => transposeArr a p))) :=
  pointwise_transpose f ops p hne

theorem C02p_elemwise_rule_map (env : Env) (e e' : Expr) (hw : WF e) (h : transposeThroughMap e = some e') :
    Preserves env e' e :=
  preserves_of (transposeThroughMap_sound env e e' hw h)

theorem C02p_elemwise_rule_zip (env : Env) (e e' : Expr) (hw : WF e) (h : transposeThroughZip e = some e') :
    Preserves env e' e :=
  preserves_of (transposeThroughZip_sound env e e' hw h)

/-- why the rule declines for a lower-rank operand: handing it the same axes is not a permutation of its rank -/
theorem C02p_elemwise_decline_witness :
    elemwiseSplit [1, 2, 0] [.arr 3, .arr 2] none none = none ∧
    elemwiseSplit [1, 2, 0] [.arr 3, .scalar] (some 2) none = none ∧
    elemwiseSplit [1, 2, 0] [.arr 3, .arr 0] none none = none ∧
    isPerm [1, 2, 0] 2 = false ∧
    elemwiseSplit [1, 2, 0] [.arr 3, .scalar] (some 3) (some 3)
      = some ⟨[some [1, 2, 0], none], some [1, 2, 0], some [1, 2, 0]⟩ := by
  decide

/-! ### non-vacuity -/

def xSrc3 : Expr := .src 0 [2, 3, 4] [[1, 1], [2, 1], [3, 1]]

example : WF (.transpose (.transpose xSrc3 [1, 2, 0]) [1, 0, 2]) := by decide
example : transposeTranspose (.transpose (.transpose xSrc3 [1, 2, 0]) [1, 0, 2]) = some (.transpose xSrc3 [2, 1, 0]) := by
  decide
example : WF (.transpose xSrc3 [0, 1, 2]) ∧ transposeIdentity (.transpose xSrc3 [0, 1, 2]) = some xSrc3 := by decide
example : isPerm [1, 2, 0] 3 = true ∧ inverse [1, 2, 0] = [2, 0, 1] ∧ inverseE [1, 5, 0] = .error "IndexError" :=
  ⟨by decide, by decide, by rfl⟩
example : isPerm [3, 1, 0, 2] 4 = true ∧ inputBlockId [3, 1, 0, 2] [5, 6, 7, 8] = [7, 6, 8, 5] := by decide
example : wfLayout [2, 3, 4] [[1, 1], [2, 1], [3, 1]] = true ∧
    validBid (transposeChunks [1, 2, 0] [[1, 1], [2, 1], [3, 1]]) [1, 0, 1] := by decide
example : AxisOK 3 (-3) ∧ AxisOK 3 2 ∧ ¬ AxisOK 3 3 ∧ StartOK 3 3 ∧ ¬ StartOK 3 4 := by decide
example : AxesOK 4 [0, -3, 2] ∧ AxesOK 4 [-1, 0, 1] ∧ ¬ AxesOK 4 [1, -3] ∧ ¬ AxesOK 4 [4] := by decide
example : swapaxesPerm 4 (-1) 1 = .ok [0, 3, 2, 1] ∧ swapaxesPerm 3 (-5) 0 = .ok [1, 0, 2]
    ∧ swapaxesPerm 3 3 0 = .error "IndexError" ∧ swapaxesPerm 3 7 7 = .ok [0, 1, 2] :=
  ⟨by rfl, by rfl, by rfl, by rfl⟩
example : moveaxisPermN 4 [0] [-1] = .ok [1, 2, 3, 0] ∧ moveaxisPermN 4 [0, 1] [-1, -2] = .ok [2, 3, 1, 0]
    ∧ moveaxisPermN 4 [0, 0] [1, 2] = .error "ValueError" ∧ moveaxisPermN 4 [4] [0] = .error "AxisError" :=
  ⟨by rfl, by rfl, by rfl, by rfl⟩
example : rollaxisPerm 4 3 1 = .ok [0, 3, 1, 2] ∧ rollaxisPerm 4 1 4 = .ok [0, 2, 3, 1] ∧ rollaxisPerm 4 1 2 = .ok [0, 1, 2, 3]
    ∧ rollaxisPerm 4 1 5 = .error "ValueError" ∧ rollDest 4 1 4 = 3 :=
  ⟨by rfl, by rfl, by rfl, by rfl, by decide⟩
example : WF (.transpose (.zip 0 xSrc3 xSrc3) [1, 2, 0]) ∧
    transposeThroughZip (.transpose (.zip 0 xSrc3 xSrc3) [1, 2, 0])
      = some (.zip 0 (.transpose xSrc3 [1, 2, 0]) (.transpose xSrc3 [1, 2, 0])) := by decide
example : WF2 (.take (.base (.transpose xSrc3 [1, 2, 0])) 0 [2, 0]) := by decide

end Dask.Props.C02Perm
