/-
C02 (extension "generic blockwise pushdown gates") — "Every fired rewrite preserves values": the slice and
integer-list take pushdowns through a GENERIC `Blockwise` (`Blockwise._accept_slice`, exact multi-operand
path, and `Blockwise._accept_shuffle`; dask_array/_blockwise.py).  ONLY property theorems (one-liners from
Lemmas/BlockwiseGate*.lean) and non-vacuity examples.

Model: Model/BlockwiseGate.lean.  `BW` = a blockwise node over index labels (operands with label lists,
literals, non-array block arguments, `new_axes`, `adjust_chunks`, `align_arrays`, `concatenate`) whose block
function is abstracted by its meaning `f`; `den U bw` = what `compute()` assembles from the tasks
(`_lower`'s chunk alignment with the unified chunks `U` as an oracle parameter, `_compute_block_id`'s
`% numblocks`, contracted labels passed whole); `gate U bw idx` / `push U bw idx` = the Python conditions
branch by branch and the rewritten node; `applyIndex` = NumPy's meaning of the index.

The theorem's hypotheses, all explicit:
  * `bw.wfS` (decidable): distinct output labels, ranks agree, array operands only, single-chunk new axes that
    no operand carries, every output label carried, every axis carrying an output label has the label's
    length or length 1, no `adjust_chunks` (the node is then handled by the coarse path or by C01's
    contraction model — see `C02g_push_sound` below for what is NOT covered);
  * `layoutOK U bw` (decidable): the chunks in force after `_lower` are consistent — for `align_arrays=True`
    a condition on the oracle `U` (C17's theorem), for `align_arrays=False` a condition on the operands' own
    chunks;
  * `indexOK` (decidable): what `normalize_index` / `take` hand over;
  * `LabelLocal bw.sig bw.f`: the block function commutes with every re-indexing of the output labels.  THIS is
    the hypothesis the code does not and cannot check (`C02g_nonlocal_witness`).

NOT covered (search only, harness/props_ext/c02_gate.py): the intended statement without the restrictions in `wfS` is

    ∀ bw idx p, LabelLocal bw.sig bw.f → push U bw idx = some p → [consistent layouts] →
      Arr.Equiv (denPushed U' p) (applyIndex _ (den U bw) idx)

for nodes WITH `adjust_chunks` labels (the index on other labels; e.g. the product node under `a @ b`) and with
non-array operands that do not carry the indexed label (`_accept_shuffle` lets those through).  Missing for it: the
meaning of such a node is blockwise along the adjusted labels (`den_eq_whole` has no whole-array form), the proof
needs the semi-blocked analogue of `den_eq_whole` plus "the rewrite leaves the chunks of the adjusted labels alone"
(for `align_arrays=True` a property of `unify_chunks` that C17 does not state).  The coarse path
(`_accept_slice_coarse`, an index ON an adjusted label) is not modelled.  For `align_arrays=False` the consistency of
the rewritten node's own chunks (`layoutOK U' p.bw`) is a decidable hypothesis; `C02g_unaligned_pairing` proves its
core (all operands get one chunking per indexed label), the "most blocks wins" bookkeeping of `Blockwise.chunks` on
top of it is left to the hypothesis.
-/
import DaskArrayModel.Lemmas.BlockwiseGateWitness
namespace Dask.Props.C02Gate
open Dask.Py Dask.ND Dask.BWG

/-- **Pushdown through a generic blockwise is sound.**  For every node whose block function is label-local,
every index (slices of any sign and step, integers, integer-list takes) on which the gate fires, every chunk
layout `U` of the node and `U'` of the rewritten node: the rewritten node is well-formed and computes NumPy's
index of what the node computes — in particular it has the advertised shape. -/
theorem C02g_push_sound (U U' : Nat → List Nat) (bw : BW) (idx : Index) (p : Pushed)
    (hwf : bw.wfS = true) (hlay : layoutOK U bw = true) (hf : LabelLocal bw.sig bw.f)
    (hidx : indexOK (outShape U bw) idx = true)
    (hgate : push U bw idx = some p) (hlay' : layoutOK U' p.bw = true) :
    p.bw.wfS = true ∧
    Arr.Equiv (denPushed U' p) (applyIndex bw.outInd.length (den U bw) idx) ∧
    (denPushed U' p).shape = (applyIndex bw.outInd.length (den U bw) idx).shape := by
  have hS := (wfS_iff bw).mp hwf
  have hL := (layoutOK_iff U bw).mp hlay
  cases idx with
  | basic index =>
    have h := push_sound_basic U U' bw hS hL hf index hidx p hgate ((layoutOK_iff U' p.bw).mp hlay')
    exact ⟨(wfS_iff p.bw).mpr h.1, h.2, h.2.1⟩
  | take axis indexer =>
    have h := push_sound_take U U' bw hS hL hf axis indexer hidx p hgate ((layoutOK_iff U' p.bw).mp hlay')
    exact ⟨(wfS_iff p.bw).mpr h.1, h.2, h.2.1⟩

/-- `gate` is "the rewrite fires" -/
theorem C02g_gate_iff (U : Nat → List Nat) (bw : BW) (idx : Index) :
    gate U bw idx = true ↔ ∃ p, push U bw idx = some p := by
  unfold gate; exact Option.isSome_iff_exists

/-- **Blocks assemble to the function of the whole operands**: for a label-local block function
`map_blocks(f, x, y, …)` / `blockwise(f, …)` is `f(x, y, …)`, whatever the (admissible) chunking. -/
theorem C02g_blocks_assemble (U : Nat → List Nat) (bw : BW)
    (hwf : bw.wfS = true) (hlay : layoutOK U bw = true) (hf : LabelLocal bw.sig bw.f) :
    Arr.Equiv (den U bw) (bw.f bw.wholes) :=
  den_eq_whole U bw ((wfS_iff bw).mp hwf) ((layoutOK_iff U bw).mp hlay) hf

/-- the class is inhabited: every elementwise function with NumPy broadcasting over labels (any arity, any
label pattern: ufuncs, `x + y.T`, outer products) is label-local -/
theorem C02g_elementwise_labelLocal (outInd : List Nat) (inds : List (List Nat)) (g : List Int → Int)
    (hsub : ∀ ind ∈ inds, ∀ l ∈ ind, l ∈ outInd) :
    LabelLocal ⟨outInd, inds, [], []⟩ (pwFn outInd inds g) :=
  pwFn_labelLocal outInd inds g hsub

/-- … and functions that FOLD a contracted label: the row sum `'ik' -> 'i'` (the task receives every block along
`k`) -/
theorem C02g_contracted_labelLocal : LabelLocal ⟨[0], [[0, 1]], [], []⟩ rowSumFn := rowSum_labelLocal

/-- **What the `align_arrays=False` gate buys** (45dd3ba): when the rewrite fires on an unaligned node, every
operand axis that carries an indexed label gets ONE and the same new chunking (the slice / regrouping of the node's
own chunks of that label), so blocks are still paired by position. -/
theorem C02g_unaligned_pairing (U : Nat → List Nat) (bw : BW) (idx : Index) (p : Pushed)
    (hwf : bw.wfS = true) (hlay : layoutOK U bw = true) (hidx : indexOK (outShape U bw) idx = true)
    (halign : bw.align = false) (hgate : push U bw idx = some p) (l : Nat) (hl : l ∈ indexedLabels bw idx) :
    ∃ c, ∀ o ∈ p.bw.ops, ∀ k, k < o.labels.length → o.labels.getD k 0 = l → o.chunks.getD k [] = c := by
  have hS := (wfS_iff bw).mp hwf
  cases idx with
  | basic index => exact slice_pairing_all U bw hS index p halign hgate l hl
  | take axis indexer =>
    exact take_pairing_all U bw hS ((layoutOK_iff U bw).mp hlay) axis indexer hidx p halign hgate l hl

/-- the gate of 5146f35: `a + b` with `b` of length 1, `z[1:2]`.  The code declines; without the shape test
the rewritten node denotes the EMPTY array instead of `[12]`. -/
theorem C02g_gate_necessary_broadcast :
    Wit.bwB.wfS = true ∧ layoutOK Wit.UB Wit.bwB = true ∧ indexOK (outShape Wit.UB Wit.bwB) Wit.idx12 = true ∧
    gate Wit.UB Wit.bwB Wit.idx12 = false ∧
    Wit.meaningList { broadcast := false } Wit.UB Wit.bwB Wit.idx12 = some ([0], []) ∧
    Wit.wantList Wit.UB Wit.bwB Wit.idx12 = ([1], [12]) := Wit.broadcast_slice

/-- the gate of eb4658a: the same node, `z[[1, 0]]`: the broadcast operand would be read out of range -/
theorem C02g_gate_necessary_broadcast_take :
    indexOK (outShape Wit.UB Wit.bwB) Wit.take10 = true ∧ gate Wit.UB Wit.bwB Wit.take10 = false ∧
    Wit.meaningList { broadcast := false } Wit.UB Wit.bwB Wit.take10 = some ([2], [2, 11]) ∧
    Wit.wantList Wit.UB Wit.bwB Wit.take10 = ([2], [12, 11]) := Wit.broadcast_take

/-- the gate of 45dd3ba: `map_blocks(lambda p, q: p + q.sum(), a, b)`, chunks `(1, 2)` vs `(2, 1)`, `z[1:]`.
Without the chunk test the operands become `(2,)` and `(1, 1)`: the node advertises chunks `(1, 1)` and both
blocks have length 2. -/
theorem C02g_gate_necessary_unaligned :
    gate Wit.U0 Wit.bwU Wit.idx1_ = false ∧
    (pushG { unaligned := false } Wit.U0 Wit.bwU Wit.idx1_).map (fun p =>
      (p.bw.ops.map (·.chunks), outChunks Wit.U0 p.bw,
        (blockOf Wit.U0 p.bw [0]).shape, (blockOf Wit.U0 p.bw [1]).shape)) =
      some ([[[2]], [[1, 1]]], [[1, 1]], [2], [2]) := Wit.unaligned_slice

/-- the gate of 3422420: `store(…, return_stored=True)[1:]`.  Python raises when it indexes the
`ArraySliceDep`; even a block-argument re-created for the sliced chunks reads the target at other offsets. -/
theorem C02g_gate_necessary_nonarray :
    gate Wit.U0 Wit.bwN Wit.idx1_ = false ∧
    ((den Wit.U0 Wit.bwN).shape, (den Wit.U0 Wit.bwN).toList) = ([4], [100, 101, 102, 103]) ∧
    Wit.wantList Wit.U0 Wit.bwN Wit.idx1_ = ([3], [101, 102, 103]) ∧
    Wit.resList { nonArray := false } Wit.U0 Wit.U0 Wit.bwN Wit.idx1_ = some ([3], [100, 101, 102]) :=
  Wit.nonarray_slice

/-- the gate of 1a99595: `blockwise(diagonal, 'i', a, 'ii')[[1, 0]]`: one of the two axes is shuffled.  The
slice path indexes every axis that carries the label and needs no such gate. -/
theorem C02g_gate_necessary_repeated_label :
    gate Wit.U0 Wit.bwD Wit.take10 = false ∧
    Wit.wantList Wit.U0 Wit.bwD Wit.take10 = ([2], [3, 0]) ∧
    Wit.resList { repeated := false } Wit.U0 Wit.U0 Wit.bwD Wit.take10 = some ([2], [2, 1]) ∧
    gate Wit.U0 Wit.bwD Wit.idx12 = true ∧
    Wit.resList {} Wit.U0 Wit.U0 Wit.bwD Wit.idx12 = some (Wit.wantList Wit.U0 Wit.bwD Wit.idx12) :=
  Wit.repeated_take

/-- the gate of de6ba02: the per-chunk pieces of `x[dask_int_array]` advertise two labels and have one
axis; without the gate they are indexed with two items ("too many indices for array") -/
theorem C02g_gate_necessary_concat :
    gate Wit.U0 Wit.bwC Wit.idx12 = false ∧
    Wit.tooManyIndices { concat := false } Wit.U0 Wit.bwC [some (.slc ⟨some 1, some 2, none⟩)] = true :=
  Wit.concat_slice

/-- **The hypothesis the code does not check** (known finding `slice-through-generic-blockwise`):
`x.map_blocks(np.cumsum)[1:3]` on `ones(4)` with chunks `(2, 2)`.  Every gate passes, every decidable
hypothesis of `C02g_push_sound` holds before and after, and the rewritten node computes `[1, 1]` where
`[2, 1]` is due. -/
theorem C02g_nonlocal_witness :
    Wit.bwCum.wfS = true ∧ layoutOK Wit.U0 Wit.bwCum = true ∧
    indexOK (outShape Wit.U0 Wit.bwCum) Wit.idx13 = true ∧
    gate Wit.U0 Wit.bwCum Wit.idx13 = true ∧
    (pushG {} Wit.U0 Wit.bwCum Wit.idx13).map (fun p => (p.bw.wfS, layoutOK Wit.U0 p.bw)) = some (true, true) ∧
    Wit.resList {} Wit.U0 Wit.U0 Wit.bwCum Wit.idx13 = some ([2], [1, 1]) ∧
    Wit.wantList Wit.U0 Wit.bwCum Wit.idx13 = ([2], [2, 1]) := Wit.cumsum_slice

/-- … hence the per-block `cumsum` is not label-local: `LabelLocal` is exactly what separates it -/
theorem C02g_cumsum_not_labelLocal : ¬ LabelLocal Wit.bwCum.sig Wit.bwCum.f := by
  intro hf
  obtain ⟨h1, h2, h3, h4, h5, h6, h7⟩ := Wit.cumsum_slice
  obtain ⟨p, hp⟩ := (C02g_gate_iff _ _ _).mp h4
  have hp' : pushG {} Wit.U0 Wit.bwCum Wit.idx13 = some p := hp
  rw [hp'] at h5
  simp only [Option.map_some, Option.some.injEq, Prod.mk.injEq] at h5
  have hE := (C02g_push_sound Wit.U0 Wit.U0 Wit.bwCum Wit.idx13 p h1 h2 hf h3 hp h5.2).2.1
  have hl := Arr.Equiv.toList_eq hE
  simp only [Wit.resList, hp', Option.map_some, Option.some.injEq, Prod.mk.injEq] at h6
  simp only [Wit.wantList, Prod.mk.injEq] at h7
  rw [h6.2, h7.2] at hl
  exact absurd hl (by decide)

/-! ### non-vacuity -/

/-- the hypotheses of `C02g_push_sound` hold together on a concrete two-operand node with a broadcast operand
(`a[2,3] + b[3]`, labels `ij` / `j`), a negative-step slice with an integer, and the gate fires -/
example :
    let bw : BW :=
      { f := pwFn [0, 1] [[0, 1], [1]] Wit.addG
        outInd := [0, 1]
        ops := [{ arr := Wit.arr2 [[1, 2, 3], [4, 5, 6]], chunks := [[1, 1], [2, 1]], ind := some [0, 1] },
                { arr := Wit.arr1 [10, 20, 30], chunks := [[3]], ind := some [1] }] }
    let U : Nat → List Nat := fun l => if l = 0 then [1, 1] else [2, 1]
    let idx : Index := .basic [some (.int 1), some (.slc ⟨none, none, some (-1)⟩)]
    bw.wfS = true ∧ layoutOK U bw = true ∧ indexOK (outShape U bw) idx = true ∧ gate U bw idx = true ∧
    Wit.wantList U bw idx = ([3], [36, 25, 14]) ∧
    Wit.resList {} U (fun _ => [1, 2]) bw idx = some ([3], [36, 25, 14]) := by decide

example : LabelLocal Wit.bwB.sig Wit.bwB.f := Wit.bwB_labelLocal

/-- a node with a CONTRACTED label over several blocks (`'ik' -> 'i'`, `concatenate` falsy): the gate fires for a
stepped slice and the rewritten node computes the NumPy value -/
example :
    let bw : BW :=
      { f := rowSumFn
        outInd := [0]
        align := false
        ops := [{ arr := Wit.arr2 [[1, 2, 3], [4, 5, 6], [7, 8, 9]], chunks := [[2, 1], [1, 2]], ind := some [0, 1] }] }
    let idx : Index := .basic [some (.slc ⟨none, none, some 2⟩)]
    bw.wfS = true ∧ layoutOK Wit.U0 bw = true ∧ indexOK (outShape Wit.U0 bw) idx = true ∧ gate Wit.U0 bw idx = true ∧
    (pushG {} Wit.U0 bw idx).map (fun p => layoutOK Wit.U0 p.bw) = some true ∧
    Wit.wantList Wit.U0 bw idx = ([2], [6, 24]) ∧
    Wit.resList {} Wit.U0 Wit.U0 bw idx = some ([2], [6, 24]) := by decide


/-- a take on an unaligned node (`align_arrays=False`, equal chunks): the gate fires -/
example :
    let bw : BW :=
      { f := pwFn [0] [[0], [0]] Wit.addG
        outInd := [0]
        align := false
        ops := [{ arr := Wit.arr1 [1, 2, 3], chunks := [[2, 1]], ind := some [0] },
                { arr := Wit.arr1 [10, 20, 30], chunks := [[2, 1]], ind := some [0] }] }
    let idx : Index := .take 0 [[2, 0], [2]]
    bw.wfS = true ∧ layoutOK Wit.U0 bw = true ∧ indexOK (outShape Wit.U0 bw) idx = true ∧
    gate Wit.U0 bw idx = true ∧
    (pushG {} Wit.U0 bw idx).map (fun p => layoutOK Wit.U0 p.bw) = some true ∧
    Wit.resList {} Wit.U0 Wit.U0 bw idx = some (Wit.wantList Wit.U0 bw idx) := by decide

end Dask.Props.C02Gate
