/-
C24 — Source reads return exactly the requested elements.  ONLY property theorems (restated;
proofs are one-liners from Lemmas/SourceIO) and non-vacuity examples.  Per axis (the code is a
`zip` over axes; NumPy basic indexing is a per-axis product); every statement is for ALL
source lengths, ALL chunkings (zero-length chunks included), ALL chains of pushed index
entries and ALL read chunkings.

Vocabulary (Model/SourceIO.lean): `Axis = (dim, region, chunks)` one axis of a `FromArray`;
`acceptSliceAxis`/`acceptChain` = `_accept_slice` (returns `none` where the code declines);
`layerSlices ax` = the `(start, stop)` slices `_layer` emits per block;
`readPositions ax` = the source positions those slices read, block after block;
`npChain xs idxs` = what NumPy returns for applying the chain to `xs`.
-/
import DaskArrayModel.Lemmas.SourceIO
namespace Dask.Props.C24
open Dask.Py Dask.Py.PySlice Dask.Slicing Dask.SourceIO

/-- `slices_from_chunks`: the block slices `[start_b, start_b + c_b)` tile `[0, sum c)` in order. -/
theorem slicesFromChunks_partition (chunks : List Int) (hc : ∀ c ∈ chunks, 0 ≤ c) :
    slicesPositions (slicesFromChunks chunks) = rangeList 0 (isum chunks) 1 :=
  Dask.Lemmas.SourceIO.slicesFromChunks_partition chunks hc

/-- For any chain of accepted index entries pushed into a source axis, the positions read by
the emitted per-block slices, concatenated in block order, are exactly NumPy's positions for
applying the chain to `range(dim)`. -/
theorem C24_region_read (dim : Int) (chunks : List Int) (idxs : List Idx) (ax : Axis)
    (hd : 0 ≤ dim) (hc : ∀ c ∈ chunks, 0 ≤ c) (hsum : isum chunks = dim)
    (hv : ValidChain (rangeList 0 dim 1) idxs)
    (ha : acceptChain ⟨dim, none, chunks⟩ idxs = some ax) :
    readPositions ax = npChain (rangeList 0 dim 1) idxs :=
  Dask.Lemmas.SourceIO.region_read dim chunks idxs ax hd hc hsum hv ha

/-- every emitted read slice `[a, b)` stays inside the source: `0 ≤ a ≤ b ≤ dim`. -/
theorem C24_in_bounds (dim : Int) (chunks : List Int) (idxs : List Idx) (ax : Axis)
    (hd : 0 ≤ dim) (hc : ∀ c ∈ chunks, 0 ≤ c) (hsum : isum chunks = dim)
    (hv : ValidChain (rangeList 0 dim 1) idxs)
    (ha : acceptChain ⟨dim, none, chunks⟩ idxs = some ax) :
    ∀ p ∈ layerSlices ax, 0 ≤ p.1 ∧ p.1 ≤ p.2 ∧ p.2 ≤ dim :=
  Dask.Lemmas.SourceIO.in_bounds dim chunks idxs ax hd hc hsum hv ha

/-- the advertised chunks of the new node are non-negative and sum to the length of the result -/
theorem C24_chunks_advertised (dim : Int) (chunks : List Int) (idxs : List Idx) (ax : Axis)
    (hd : 0 ≤ dim) (hc : ∀ c ∈ chunks, 0 ≤ c) (hsum : isum chunks = dim)
    (hv : ValidChain (rangeList 0 dim 1) idxs)
    (ha : acceptChain ⟨dim, none, chunks⟩ idxs = some ax) :
    (∀ c ∈ ax.chunks, 0 ≤ c) ∧ isum ax.chunks = ((npChain (rangeList 0 dim 1) idxs).length : Int) :=
  Dask.Lemmas.SourceIO.chunks_advertised dim chunks idxs ax hd hc hsum hv ha

/-- `_accept_slice` declines exactly: `None`, fancy entries, and slices whose step is neither
`None` nor `1` (so negative / non-unit steps are never pushed into the read). -/
theorem C24_accept_iff (ax : Axis) (idx : Idx) :
    (∃ ax', acceptSliceAxis ax idx = some ax') ↔
      (match idx with
       | .int _ => True
       | .slc s => s.step = none ∨ s.step = some 1
       | _ => False) :=
  Dask.Lemmas.SourceIO.accept_iff ax idx

/-- `_compute_sliced_chunks` for a unit-step slice: sums to the selection length, entries
non-negative, and (non-empty selection) exactly the overlap lengths of the chunks with the
selected interval. -/
theorem computeSlicedChunks_spec (chunks : List Int) (s : PySlice) (n : Int)
    (hn : 0 ≤ n) (hc : ∀ c ∈ chunks, 0 ≤ c) (hsum : isum chunks = n) (hs : s.stp = 1) :
    isum (computeSlicedChunks chunks s n) = ((sel s n).length : Int) ∧
    (∀ c ∈ computeSlicedChunks chunks s n, 0 ≤ c) ∧
    (s ≠ colon → s.istart n < s.istop n →
      computeSlicedChunks chunks s n = overlapSpec (s.istart n) (s.istop n) (slicesFromChunks chunks)) :=
  Dask.Lemmas.SourceIO.computeSlicedChunks_spec chunks s n hn hc hsum hs

/-- Reading the same region with ANY other read chunking (non-negative, summing to the region
length — what `_with_chunks(read_chunks)` installs) reads the same positions, in bounds. -/
theorem C24_rechunk_read (dim : Int) (chunks : List Int) (idxs : List Idx) (ax : Axis)
    (read : List Int)
    (hd : 0 ≤ dim) (hc : ∀ c ∈ chunks, 0 ≤ c) (hsum : isum chunks = dim)
    (hv : ValidChain (rangeList 0 dim 1) idxs)
    (ha : acceptChain ⟨dim, none, chunks⟩ idxs = some ax)
    (hr : ∀ c ∈ read, 0 ≤ c) (hrs : isum read = effLen ax.region ax.dim) :
    readPositions ⟨ax.dim, ax.region, read⟩ = npChain (rangeList 0 dim 1) idxs ∧
    ∀ p ∈ layerSlices ⟨ax.dim, ax.region, read⟩, 0 ≤ p.1 ∧ p.1 ≤ p.2 ∧ p.2 ≤ dim :=
  Dask.Lemmas.SourceIO.rechunk_read dim chunks idxs ax read hd hc hsum hv ha hr hrs

/-- The read chunks `_accept_rechunk` chooses on an axis with a unit-step region
`start ≤ stop` (region branch: the target chunks, or boundaries at the storage multiples
inside the region) are such a chunking: non-negative, `sum = stop - start`. -/
theorem C24_storage_read_chunks (target : List Int) (storage : Int) (region : PySlice) (dim : Int)
    (read : List Int) (hs : 0 < storage) (hu : region.stp = 1)
    (hord : region.istart dim ≤ region.istop dim)
    (ht : ∀ c ∈ target, 0 ≤ c) (htsum : isum target = effLen (some region) dim)
    (h : readChunksAxis target storage region dim = some read) :
    (∀ c ∈ read, 0 ≤ c) ∧ isum read = effLen (some region) dim :=
  Dask.Lemmas.SourceIO.readChunksAxis_valid target storage region dim read hs hu hord ht htsum h

/-- … and `start ≤ stop` is kept by every accepted push whose own index is ordered
(`normalize_index` hands over slices with `start ≤ stop`, integers `0 ≤ i`). -/
theorem C24_region_ordered (ax ax' : Axis) (idx : Idx) (h : Dask.Lemmas.SourceIO.Inv ax)
    (ha : acceptSliceAxis ax idx = some ax')
    (hord : (regionIndex idx).istart (effLen ax.region ax.dim) ≤ (regionIndex idx).istop (effLen ax.region ax.dim)) :
    ∀ r, ax'.region = some r → r.istart ax'.dim ≤ r.istop ax'.dim :=
  Dask.Lemmas.SourceIO.accept_step_ordered ax ax' idx h ha hord

/-- no-region branch: the coarse storage-multiple read chunks are a chunking of the axis. -/
theorem C24_coarse_read_chunks (target : List Int) (storage dim : Int) (hs : 0 < storage) (hd : 0 ≤ dim) :
    (∀ c ∈ uniformChunks (coarseReadSize target storage) dim, 0 ≤ c) ∧
    isum (uniformChunks (coarseReadSize target storage) dim) = dim :=
  ⟨(Dask.Lemmas.SourceIO.uniformChunks_valid _ dim (Dask.Lemmas.SourceIO.coarseReadSize_pos target storage hs) hd).1,
   (Dask.Lemmas.SourceIO.uniformChunks_valid _ dim (Dask.Lemmas.SourceIO.coarseReadSize_pos target storage hs) hd).2.1⟩

/-! non-vacuity: concrete, non-trivial instances (hypotheses satisfiable, both sides non-empty) -/
example : slicesPositions (slicesFromChunks [2, 0, 3]) = [0, 1, 2, 3, 4] := by decide
example :
    let idxs := [Idx.slc ⟨some 2, some 11, none⟩, Idx.slc ⟨some 1, some (-2), some 1⟩, Idx.int 3]
    (acceptChain ⟨12, none, [5, 4, 3]⟩ idxs).map (fun ax => (ax.region, ax.chunks, layerSlices ax, readPositions ax))
      = some (some ⟨some 6, some 7, none⟩, [1], [(6, 7)], [6]) ∧
    npChain (rangeList 0 12 1) idxs = [6] := by decide
example :
    let idxs := [Idx.slc ⟨some 2, some 11, none⟩, Idx.slc ⟨some 1, some (-2), some 1⟩]
    (acceptChain ⟨12, none, [5, 4, 3]⟩ idxs).map (fun ax => (ax.chunks, layerSlices ax))
      = some ([2, 4], [(3, 5), (5, 9)]) ∧
    npChain (rangeList 0 12 1) idxs = [3, 4, 5, 6, 7, 8] := by decide
example : acceptSliceAxis ⟨12, none, [5, 4, 3]⟩ (Idx.slc ⟨none, none, some (-1)⟩) = none := by decide
example : computeSlicedChunks [5, 4, 3] ⟨some 3, some 10, none⟩ 12 = [2, 4, 1] := by decide
example : readChunksAxis [3, 4] 4 ⟨some 2, some 9, none⟩ 10 = some [2, 4, 1] := by decide
example : readPositions ⟨10, some ⟨some 2, some 9, none⟩, [2, 4, 1]⟩ = readPositions ⟨10, some ⟨some 2, some 9, none⟩, [3, 4]⟩ := by decide
/-- `start ≤ stop` in `C24_storage_read_chunks` is needed: a reversed unit-step region (never
produced from normalized indices, see `C24_region_ordered`) would give a negative read chunk. -/
example : readChunksAxis [0] 4 ⟨some 5, some 2, none⟩ 10 = some [-3] := by decide

end Dask.Props.C24
