/-
C07 (extension) — a collection updated IN PLACE (`__setitem__`, ufunc / reduction `out=`, `compute_chunk_sizes`,
the `_chunks` setter: all go through `Array._replace_expr`) advertises the name / keys / graph of its NEW expression
whatever had been read before the update, and pickles like a collection freshly built on that expression.

Model: `replaceExpr` on `CollState` (Lemmas/NamesInplace.lean).  Tie to the source tree (generated table,
harness/translate/names.py): `_replace_expr` assigns `_expr` and removes EVERY `cached_property` of `Array` from
`__dict__`; the model has a field for each of them; `__getstate__` removes only such derived entries.
The harness (props_ext/c07_sources.py, in-place stream) runs the same orders of calls on the real code.
-/
import DaskArrayModel.Lemmas.NamesInplace
import DaskArrayModel.Generated.NameTables
import DaskArrayModel.Lemmas.KernelDecide
namespace Dask.Props.C07Inplace
open Dask.KernelDecide
open Dask.Names Dask.Lemmas.Names
open Dask.Generated.NameTables

/-- after the swap nothing of the old state is left: the collection IS a fresh collection on the new expression -/
theorem C07_replace_expr_is_fresh {ε γ κ : Type} (s : CollState ε γ κ) (e' : ε) :
    replaceExpr s e' = freshColl e' :=
  replaceExpr_eq_fresh s e'

/-- reads before the update (any populated cache in `s`) do not show afterwards: expression, graph and keys are
    those of the new expression, and the cache invariant holds again -/
theorem C07_replace_expr_observe {ε γ κ : Type} (materialize : ε → Bool → γ) (keysOf : ε → κ) (dflt : Bool)
    (s : CollState ε γ κ) (e' : ε) :
    CacheInv materialize keysOf dflt (replaceExpr s e') ∧
    observe materialize keysOf dflt (replaceExpr s e') = (e', materialize e' dflt, keysOf e') :=
  ⟨replaceExpr_inv materialize keysOf dflt s e', replaceExpr_observe materialize keysOf dflt s e'⟩

/-- read → update → pickle: the round trip changes nothing observable -/
theorem C07_replace_expr_then_pickle {ε γ κ : Type} (materialize : ε → Bool → γ) (keysOf : ε → κ) (dflt : Bool)
    (s : CollState ε γ κ) (e' : ε) :
    observe materialize keysOf dflt (setstate (getstate (replaceExpr s e'))) =
      observe materialize keysOf dflt (replaceExpr s e') :=
  replaceExpr_pickle materialize keysOf dflt s e'

/-! ### tie to the source tree (generated table) -/

/-- the `__dict__` entries the model has a field for (`lowered`, `keys`, `optimizeFlag`) -/
def modelledCaches : List String := ["_lowered_expr", "_cached_dask_keys", "_lowered_expr_optimize_graph"]

/-- `_replace_expr` assigns `_expr` and pops every `cached_property` of `Array`; each of them is a field of the model;
    `__getstate__` pops only such derived entries -/
theorem C07_replace_expr_drops_every_cache :
    replaceExprSetsExpr = true ∧
    (∀ k, k ∈ arrayCachedProperties → k ∈ replaceExprDropped) ∧
    (∀ k, k ∈ arrayCachedProperties → k ∈ modelledCaches) ∧
    (∀ k, k ∈ getstateDropped → k ∈ arrayCachedProperties) := by
  kernel_decide

/-! ### non-vacuity: the hypotheses are needed -/

/-- a swap that keeps the key cache (an invalidation list naming the cache wrongly): keys were read (`some 8` for
    expression 4), the expression becomes 5 — the collection still advertises 8, a rebuild advertises 10 … -/
example :
    let s : CollState Nat Nat Nat := { expr := 4, lowered := none, keys := some 8, optimizeFlag := none }
    (observe (fun e _ => e + 1) (fun e => 2 * e) true (replaceExprWith true false true s 5)).2.2 = 8 ∧
    (observe (fun e _ => e + 1) (fun e => 2 * e) true (replaceExpr s 5)).2.2 = 10 := by
  constructor <;> rfl

/-- … its pickle round trip changes the keys … -/
example :
    let s : CollState Nat Nat Nat := { expr := 4, lowered := none, keys := some 8, optimizeFlag := none }
    (observe (fun e _ => e + 1) (fun e => 2 * e) true (setstate (getstate (replaceExprWith true false true s 5)))).2.2 = 10 := by
  rfl

/-- … and the cache invariant is broken -/
example :
    let s : CollState Nat Nat Nat := { expr := 4, lowered := none, keys := some 8, optimizeFlag := none }
    ¬ CacheInv (fun e _ => e + 1) (fun e => 2 * e) true (replaceExprWith true false true s 5) := by
  intro s h
  have := h.2 8 rfl
  exact absurd this (by decide)

/-- a swap that keeps the lowered graph serves the OLD graph -/
example :
    let s : CollState Nat Nat Nat := { expr := 4, lowered := some 5, keys := none, optimizeFlag := none }
    (observe (fun e _ => e + 1) (fun e => 2 * e) true (replaceExprWith false true true s 7)).2.1 = 5 ∧
    (observe (fun e _ => e + 1) (fun e => 2 * e) true (replaceExpr s 7)).2.1 = 8 := by
  constructor <;> rfl

/-- the tables are not empty -/
example : arrayCachedProperties.length > 0 ∧ replaceExprDropped.length > 0 := by kernel_decide

end Dask.Props.C07Inplace
