/-
C19 (extension "gradient / diff block plan") — `gradient` (dask_array/routines/_gradient.py) and `diff`
(routines/_diff.py).  ONLY property theorems (one-liners from Lemmas/Gradient.lean, Lemmas/GradientDiff.lean) and
non-vacuity examples.

Model: Model/Gradient.lean — per axis `gradient` is `map_overlap(kernel, depth 1, boundary 'none')`
(`pipelineBlocks .none 1 1` of Model/OverlapPipe.lean); for a coordinate-array spacing block `b`'s kernel call
receives `coord[array_locs[0][b] : array_locs[1][b]]` (`arrayLocs`, `coordSlice`: the NumPy arithmetic on the chunk
sizes and Python's slice semantics) next to the extended block of values (`blockInput`).  `np.gradient` is any `K` of
the class `EdgeLocal m K` (`m = edge_order + 1`): central entries read the sample and its two neighbours, the first /
last entry reads the first / last `m` samples.  Model/Diff.lean — `diff` as the code does it (two slices, n rounds).

What the theorems say
  * `C19g_array_locs`, `C19g_coord_slice` — for EVERY chunking with positive chunks (ragged or not) the slice block `b`
    takes of the coordinate vector is exactly `coords[lo_b - (b>0) : lo_b + c_b + (b<last)]` (`slab`), and
    `C19g_block_inputs`: that is position by position what `overlap` puts into the block of values, so the kernel call
    sees the samples `(f_i, x_i)` of `slab`.
  * `C19g_blocks_eq_global` / `C19g_gradient_eq_global` / `C19g_gradient_coords_eq_global` — for every `EdgeLocal m`
    kernel, every chunking with all chunks `≥ m` (the guard the code enforces with `ValueError`), the trimmed blocks are
    the blocks of the kernel applied to the WHOLE axis; `C19g_chunking_independent`.
  * `C19g_kernel_class` — NumPy's `edge_order` 1 and 2 formulas (`npGradient`, over ℚ) are in the class with
    `m = edge_order + 1`; `C19g_guard_suffices` puts the pieces together for the code's own guard `chunkGuard`, incl.
    that `overlap`'s rechunk leaves such chunks alone (so `array_locs`, computed BEFORE `map_overlap`, talks about the
    blocks that are actually cut).
  * `C19g_uniform_witness` — the seeded regression (`start_b = b * first_chunk - 1`): equal to `array_locs` on uniform
    chunks `(4,4,4)`, but on `(3,5,4)` block 2 gets `coords[5:10]` for the values at positions `7..11`.
  * `C19g_min_chunk_witness` — below the guard (chunks `(1,5)`, three-point ends) the first block's call has too few
    samples and the result is not the global one; `(2,4)` shows the guard is sufficient, not tight.
  * `C19g_diff_step`, `C19g_diff_n`, `C19g_diff_second` — the loop step `r[1:] - r[:-1]` is the first difference, `diff`
    of order `n` is the n-fold first difference of `prepend ++ a ++ append` (`n = 0`: `a` itself, untouched by
    prepend / append, as in NumPy; `n < 0`: `ValueError`), of length `len - n` (0 when `n > len`); order 2 over ℤ is
    `x[i+2] - 2 x[i+1] + x[i]`.

Hypotheses, all decidable: `cs ≠ []`, `cs.sum = length`, `∀ c ∈ cs, m ≤ c`, `1 ≤ m`; `EdgeLocal` is a property of
the kernel (proved for the canonical `edgeKernel` and NumPy's formulas).  The guard is sufficient, not tight (with
several blocks the first / last block could be one shorter).
NOT modelled: n-D (gradient acts on one axis; the other axes have depth 0 and `C19o_pipeline_eq_global_nd` covers the
product), the float arithmetic of `np.gradient` and its per-call switch between uniform / non-uniform formulas (equal
over ℚ), the dtype promotion, `axis` / varargs validation (search only).
-/
import DaskArrayModel.Lemmas.Gradient
import DaskArrayModel.Lemmas.GradientDiff
namespace Dask.Props.C19Gradient
open Dask.OverlapSlice Dask.OverlapPipe Dask.Gradient Dask.Diff Dask.Lemmas.Gradient Dask.Lemmas.Diff

variable {α β γ V C : Type}

/-- **`array_locs`, entry by entry**: `start_b = 0` for the first block, `cumsum_b + 1 - c_b - 2` otherwise;
`stop_b = cumsum_b + 1`, minus 1 for the last block. -/
theorem C19g_array_locs (cs : List Nat) (hne : cs ≠ []) :
    ∃ st sp, arrayLocs (cs.map Int.ofNat) = some (st, sp) ∧
      ∀ b, b < cs.length →
        st[b]? = some (if b = 0 then 0 else ((lo cs (b + 1) : Nat) : Int) + 1 - (cs.getD b 0 : Nat) - 2) ∧
        sp[b]? = some (((lo cs (b + 1) : Nat) : Int) + 1 - (if b + 1 = cs.length then 1 else 0)) :=
  arrayLocs_spec cs hne

/-- **The coordinate slice of block `b`** is `coords[lo_b - (b>0) : lo_b + c_b + (b<last)]`, for every chunking with
positive chunks and every coordinate vector (Python's clamping included). -/
theorem C19g_coord_slice (cs : List Nat) (coords : List C) (hpos : ∀ c ∈ cs, 1 ≤ c) (b : Nat) (hb : b < cs.length) :
    coordSlice cs coords b = some (slab cs coords b) :=
  coordSlice_eq cs coords hpos b hb

/-- **What block `b`'s `np.gradient` call receives**: the values are the same positions `slab` of `f`, and zipped
with the coordinate slice they are the extended block of the samples `(f_i, x_i)`. -/
theorem C19g_block_inputs (cs : List Nat) (f : List V) (coords : List C) (hne : cs ≠ []) (hsum : cs.sum = f.length)
    (hpos : ∀ c ∈ cs, 1 ≤ c) (hc : coords.length = f.length) (b : Nat) (hb : b < cs.length) :
    blockValues cs f b = slab cs f b ∧
    blockInput cs f coords b = some ((slab cs f b).zip (slab cs coords b)) ∧
    blockInput cs f coords b = some (extBlock 1 1 (cut cs (f.zip coords)) b) := by
  have hG : Guard 1 1 cs f.length := guard_of_min (Nat.le_refl 1) cs f.length hne hsum hpos
  have hGz : Guard 1 1 cs (f.zip coords).length := by
    rw [List.length_zip, hc, Nat.min_self]; exact hG
  refine ⟨extBlock_slab cs f hG b hb, ?_, blockInput_eq cs f coords hG hc b hb⟩
  rw [blockInput_eq cs f coords hG hc b hb, extBlock_slab cs _ hGz b hb, slab_zip]

/-- **The trimmed blocks are the blocks of the global gradient.** -/
theorem C19g_blocks_eq_global (m : Nat) (K : List γ → List β) (hK : EdgeLocal m K) (hm1 : 1 ≤ m)
    (cs : List Nat) (x : List γ) (hne : cs ≠ []) (hsum : cs.sum = x.length) (hmin : ∀ c ∈ cs, m ≤ c) :
    gradientBlocks cs K x = cut cs (K x) :=
  gradientBlocks_eq_cut hK hm1 cs x hne hsum hmin

/-- **The chunked gradient along an axis is the kernel applied to the whole axis** (scalar spacing; any sample type). -/
theorem C19g_gradient_eq_global (m : Nat) (K : List γ → List β) (hK : EdgeLocal m K) (hm1 : 1 ≤ m)
    (cs : List Nat) (x : List γ) (hne : cs ≠ []) (hsum : cs.sum = x.length) (hmin : ∀ c ∈ cs, m ≤ c) :
    gradientAxis cs K x = K x :=
  gradientAxis_eq hK hm1 cs x hne hsum hmin

/-- **Coordinate-array spacing**: every block's call succeeds and the result is the kernel on the samples
`(f_i, x_i)` of the whole axis. -/
theorem C19g_gradient_coords_eq_global (m : Nat) (K : List (V × C) → List β) (hK : EdgeLocal m K) (hm1 : 1 ≤ m)
    (cs : List Nat) (f : List V) (coords : List C) (hne : cs ≠ []) (hsum : cs.sum = f.length)
    (hc : coords.length = f.length) (hmin : ∀ c ∈ cs, m ≤ c) :
    gradientCoordAxis cs K f coords = some (K (f.zip coords)) :=
  gradientCoordAxis_eq hK hm1 cs f coords hne hsum hc hmin

/-- hence the result does not depend on the chunking -/
theorem C19g_chunking_independent (m : Nat) (K : List (V × C) → List β) (hK : EdgeLocal m K) (hm1 : 1 ≤ m)
    (cs cs' : List Nat) (f : List V) (coords : List C) (hc : coords.length = f.length)
    (hne : cs ≠ []) (hsum : cs.sum = f.length) (hmin : ∀ c ∈ cs, m ≤ c)
    (hne' : cs' ≠ []) (hsum' : cs'.sum = f.length) (hmin' : ∀ c ∈ cs', m ≤ c) :
    gradientCoordAxis cs K f coords = gradientCoordAxis cs' K f coords := by
  rw [gradientCoordAxis_eq hK hm1 cs f coords hne hsum hc hmin,
    gradientCoordAxis_eq hK hm1 cs' f coords hne' hsum' hc hmin']

/-- **The kernel class contains NumPy's formulas**: the canonical kernel for every `m ≥ 2`, and `np.gradient` with
`edge_order` 1 (two-point one-sided ends) and 2 (three-point ends) with `m = edge_order + 1`. -/
theorem C19g_kernel_class :
    (∀ (m : Nat) (c : γ → γ → γ → β) (L R : List γ → β), 2 ≤ m → EdgeLocal m (edgeKernel m c L R)) ∧
    EdgeLocal 2 (npGradient 1) ∧ EdgeLocal 3 (npGradient 2) :=
  ⟨fun m c L R hm => edgeKernel_edgeLocal m c L R hm,
   edgeKernel_edgeLocal 2 _ _ _ (by omega), edgeKernel_edgeLocal 3 _ _ _ (by omega)⟩

/-- **The guard the code enforces suffices.**  When `gradient`'s own check passes (`edge_order` 1 or 2): `overlap`'s
rechunk leaves the chunks alone, and the chunked result is `np.gradient` of the whole axis. -/
theorem C19g_guard_suffices (eo : Nat) (heo : eo = 1 ∨ eo = 2) (cs : List Nat) (f coords : List Rat)
    (hne : cs ≠ []) (hsum : cs.sum = f.length) (hc : coords.length = f.length)
    (hguard : chunkGuard eo (cs.map Int.ofNat) = true) :
    Dask.Window.overlapRechunkedChunks (cs.map Int.ofNat) 1 1 true = some (cs.map Int.ofNat) ∧
    gradientCoordAxis cs (npGradient eo) f coords = some (npGradient eo (f.zip coords)) := by
  have hmin := (chunkGuard_iff eo cs).mp hguard
  constructor
  · apply rechunk_noop
    · intro h; exact hne (List.map_eq_nil_iff.mp h)
    · intro c hcm
      obtain ⟨n, hn, rfl⟩ := List.mem_map.mp hcm
      have := hmin n hn
      have : 2 ≤ n := by omega
      exact Int.ofNat_le.mpr this
  · have hK : EdgeLocal (eo + 1) (npGradient eo) := edgeKernel_edgeLocal (eo + 1) _ _ _ (by omega)
    exact gradientCoordAxis_eq hK (by omega) cs f coords hne hsum hc hmin

/-- **The seeded regression.**  `start_b = b * first_chunk - 1` agrees with `array_locs` on uniform chunks, but on
`(3, 5, 4)` block 2 — values at positions `7..11` — is handed `coords[5:10]`. -/
theorem C19g_uniform_witness :
    arrayLocs [3, 5, 4] = some ([0, 2, 7], [4, 9, 12]) ∧
    arrayLocsUniformBug [3, 5, 4] = some ([0, 2, 5], [4, 9, 10]) ∧
    arrayLocsUniformBug [4, 4, 4] = arrayLocs [4, 4, 4] ∧
    coordSliceWith (arrayLocs [3, 5, 4]) pos12 2 = some [7, 8, 9, 10, 11] ∧
    coordSliceWith (arrayLocsUniformBug [3, 5, 4]) pos12 2 = some [5, 6, 7, 8, 9] ∧
    blockValues [3, 5, 4] pos12 2 = [7, 8, 9, 10, 11] :=
  ⟨witness_locs.1, witness_locs.2.1, witness_locs.2.2, witness_slices.1, witness_slices.2.1, witness_slices.2.2⟩

/-- **The guard matters, and is not tight.**  Three-point ends (`edge_order = 2`): with chunks `(1, 5)` the first
extended block has two samples — NumPy refuses it (the model kernel returns nothing) and the assembled result is not
the global one; with chunks `(2, 4)`, which the code also refuses, the first extended block has the three samples the
end formula needs and the result would be right. -/
theorem C19g_min_chunk_witness :
    chunkGuard 2 [1, 5] = false ∧ gradientBlocks [1, 5] kInt sq6 = [[], [4, 8, 12, 16, -50]] ∧
    gradientAxis [1, 5] kInt sq6 ≠ kInt sq6 ∧
    chunkGuard 2 [2, 4] = false ∧ gradientAxis [2, 4] kInt sq6 = kInt sq6 :=
  witness_min_chunk

/-! ### diff -/

/-- the loop step `r[sl_1] - r[sl_2]` is the first difference: one entry less, `out[i] = r[i+1] - r[i]` -/
theorem C19g_diff_step [Sub α] (r : List α) :
    diffStep r = firstDiff r ∧ (firstDiff r).length = r.length - 1 ∧
    ∀ i, (firstDiff r)[i]? = match r[i + 1]?, r[i]? with
      | some b, some a => some (b - a)
      | _, _ => none :=
  ⟨diffStep_eq r, firstDiff_length r, firstDiff_getElem? r⟩

/-- **`diff` of order `n`** is the n-fold first difference of `prepend ++ a ++ append`, of length
`max (len - n) 0`; `n = 0` returns `a`; `n < 0` raises. -/
theorem C19g_diff_n [Sub α] (n : Int) (a : List α) (pre app : Option (List α)) :
    diff n a pre app =
      (if n = 0 then some a else if n < 0 then none
       else some (nthDiff n.toNat ((pre.getD []) ++ a ++ (app.getD [])))) ∧
    ∀ k x, (nthDiff k x : List α).length = x.length - k :=
  ⟨diff_eq n a pre app, nthDiff_length⟩

/-- order 2 over ℤ: `x[i+2] - 2 x[i+1] + x[i]` -/
theorem C19g_diff_second (x : List Int) (i : Nat) (hi : i + 2 < x.length) :
    (nthDiff 2 x)[i]? = some (x[i + 2]! - 2 * x[i + 1]! + x[i]!) :=
  nthDiff_two x i hi

/-! ### non-vacuity -/

-- the hypotheses on ragged chunkings: first chunk smaller / larger, chunks AT the minimum
example : ([3, 5, 4] : List Nat) ≠ [] ∧ ([3, 5, 4] : List Nat).sum = pos12.length ∧ ∀ c ∈ ([3, 5, 4] : List Nat), 3 ≤ c := by
  decide
example : ∀ c ∈ ([5, 2, 2, 3] : List Nat), 2 ≤ c := by decide
example : chunkGuard 2 [3, 5, 4] = true ∧ chunkGuard 2 [3, 2, 4] = false ∧ chunkGuard 1 [2, 2] = true := by decide
-- the slabs on (3,5,4): one-element halo on interior sides only
example : slab [3, 5, 4] pos12 0 = [0, 1, 2, 3] ∧ slab [3, 5, 4] pos12 1 = [2, 3, 4, 5, 6, 7, 8] ∧
    slab [3, 5, 4] pos12 2 = [7, 8, 9, 10, 11] := by decide
example : coordSlice [3, 5, 4] pos12 1 = some [2, 3, 4, 5, 6, 7, 8] := by decide
-- a coordinate vector longer than the axis is sliced all the same (the code does not check its length)
example : coordSlice [3, 5, 4] (pos12 ++ [12, 13]) 2 = some [7, 8, 9, 10, 11] := by decide
-- the chunked pipeline on a concrete integer kernel of the class (3-point ends), ragged chunks at the minimum
example : gradientAxis [3, 5, 4] (edgeKernel 3 (fun a _ c => c - a) (fun l => l.sum) (fun l => 0 - l.sum)) pos12 =
    edgeKernel 3 (fun a _ c => c - a) (fun l => l.sum) (fun l => 0 - l.sum) pos12 :=
  C19g_gradient_eq_global 3 _ (C19g_kernel_class.1 3 _ _ _ (by omega)) (by omega) [3, 5, 4] pos12 (by decide) (by decide)
    (by decide)
example : gradientBlocks [3, 5, 4] (edgeKernel 3 (fun a _ c => c - a) (fun l => l.sum) (fun l => 0 - l.sum)) pos12 =
    [[3, 2, 2], [2, 2, 2, 2, 2], [2, 2, 2, -30]] := by decide
-- NumPy's formulas over ℚ on non-uniform coordinates, and the guard theorem instantiated (edge_order 2, chunks (3,4))
#guard npGradient 2 ([0, 1, 4, 9, 16, 25, 36].zip [0, 1, 2, 4, 5, 6, 8]) == [0, 2, 17/6, 11/2, 8, 47/6, 19/6]
#guard npGradient 1 ([0, 1, 4, 9].zip [0, 1, 2, 4]) == [1, 2, 17/6, 5/2]
#guard gradientCoordBlocks [3, 4] (npGradient 2) [0, 1, 4, 9, 16, 25, 36] [0, 1, 2, 4, 5, 6, 8] ==
  some [[0, 2, 17/6], [11/2, 8, 47/6, 19/6]]
example : gradientCoordAxis [3, 4] (npGradient 2) [0, 1, 4, 9, 16, 25, 36] [0, 1, 2, 4, 5, 6, 8] =
    some (npGradient 2 ([0, 1, 4, 9, 16, 25, 36].zip [0, 1, 2, 4, 5, 6, 8])) :=
  (C19g_guard_suffices 2 (Or.inr rfl) [3, 4] _ _ (by decide) (by decide) (by decide) (by decide)).2
-- diff
example : diff 2 [1, 4, 9, 16] (some [0]) none = some [2, 2, 2] := by decide
example : diff 0 [1, 4, 9] (some [0]) (some [7]) = some [1, 4, 9] := by decide
example : diff (-1) [1, 4, 9] none none = none := by decide
example : diff 5 [1, 4, 9] none none = some [] := by decide

end Dask.Props.C19Gradient
