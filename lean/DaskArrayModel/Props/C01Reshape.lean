/-
C01 (reshape) — "reshape computes what NumPy computes, whatever the chunking": the rechunk-then-blockwise
plan of `dask_array/manipulation/_reshape.py`.  ONLY property theorems (one-liners from
Lemmas/ReshapeCorrect.lean, Lemmas/ReshapePlan.lean) and non-vacuity examples.

Model (Model/Reshape.lean): `plan inshape outshape inchunks` is `reshape_rechunk(...)[:2]`, mirrored line by
line with Python's own list semantics (`Int` running indices, negative-index wrap-around, `IndexError`,
slice clamping, `reduce(mul, ())` raising `TypeError`), with `expand_tuple`, `contract_tuple`,
`_smooth_chunks`, `_cal_max_chunk_size`, `_calc_lower_dimension_chunks`.  `planBlock a ic oc bid` is the task
`ReshapeLowered._layer` emits for output block `bid`: `M.reshape(block k of the rechunked input, shape_k)`
where `k` is the row-major number of `bid` (`zip(out_keys, in_keys, shapes)`, all three in
`itertools.product` order); `planArr` concatenates the blocks along the advertised chunks.
Spec: `npReshape a shape` (element at output multi-index `i` = element of `a` with the same flat C-order
position), `flatIndex`, `unflat`.

Hypotheses of every theorem (all decidable, all inputs, no size bound):
  `WFIn inshape inchunks`   `inchunks` is a chunking of `inshape` with normalised tuples (all chunks positive,
                            or `(0,)` for a zero-length axis);
  `Pos inshape`             no zero-length axis;
  `prodL inshape = prodL outshape`   what `reshape()` checks before building the expression;
  `plan … = .ok (ic, oc)`   the planner accepted (it refuses uneven regroupings with `NotImplementedError`).
`Pos` cannot be dropped: `C01r_zero_size_witness` is an accepted plan on a zero-size array whose two block
grids do not even have the same number of blocks (the `while ii >= 0 or oi >= 0` loop keeps reading
`inshape[-1]` after the input side is exhausted); the harness reproduces it on the real code
(signature `reshape-zero-size:missing-dependency`).  Positive chunks cannot be dropped either
(`C01r_zero_width_witness`, signature `resolved-zero-chunk:reshape`).  Not proved: that a well-formed input is
either accepted or refused with `NotImplementedError` — it is not (`C01r_unit_operand_witness`); which
inputs are refused is compared with the implementation by the correspondence only.
-/
import DaskArrayModel.Lemmas.ReshapeCorrect
namespace Dask.Props.C01Reshape
open Dask.ND Dask.Reshape

/-- **Structure.** An accepted plan pairs the input axes (with the rechunked input chunks) and the output
axes (with the output chunks) in groups from the right: equal axes, length-1 axes on either side, several
input axes merged into one output axis, one input axis split into several output axes — merged / split
groups in pivot form, the single axis chunked by the block sizes of the group. -/
theorem C01r_plan_grouped (inshape outshape : List Nat) (inchunks ic oc : List Chunks)
    (hwf : WFIn inshape inchunks) (hpos : Pos inshape) (hprod : prodL inshape = prodL outshape)
    (h : plan inshape outshape inchunks = .ok (ic, oc)) :
    ic.length = inshape.length ∧ oc.length = outshape.length ∧
      Grouped (List.zip inshape ic) (List.zip outshape oc) :=
  plan_grouped hwf hpos hprod h

/-- **Validity.** Both results are chunkings of their shapes: one non-empty tuple per axis, summing to the
axis length. -/
theorem C01r_plan_valid (inshape outshape : List Nat) (inchunks ic oc : List Chunks)
    (hwf : WFIn inshape inchunks) (hpos : Pos inshape) (hprod : prodL inshape = prodL outshape)
    (h : plan inshape outshape inchunks = .ok (ic, oc)) :
    IsLayout ic inshape ∧ IsLayout oc outshape :=
  plan_valid hwf hpos hprod h

/-- **Block bijection.** The two block grids, enumerated row-major (the order of `_layer`), have the same
list of block sizes: same number of blocks, and block `k` of the rechunked input has as many elements as
block `k` of the output. -/
theorem C01r_block_sizes (inshape outshape : List Nat) (inchunks ic oc : List Chunks)
    (hwf : WFIn inshape inchunks) (hpos : Pos inshape) (hprod : prodL inshape = prodL outshape)
    (h : plan inshape outshape inchunks = .ok (ic, oc)) :
    blockSizes ic = blockSizes oc :=
  plan_blockSizes hwf hpos hprod h

/-- the same per block index: the input block paired with output block `bid` exists and has the same
number of elements -/
theorem C01r_block_bijection (inshape outshape : List Nat) (inchunks ic oc : List Chunks)
    (hwf : WFIn inshape inchunks) (hpos : Pos inshape) (hprod : prodL inshape = prodL outshape)
    (h : plan inshape outshape inchunks = .ok (ic, oc)) :
    prodL (numblocks ic) = prodL (numblocks oc) ∧
    ∀ bid, validBid oc bid →
      validBid ic (unflat (numblocks ic) (flatIndex (numblocks oc) bid)) ∧
      prodL (blockShape ic (unflat (numblocks ic) (flatIndex (numblocks oc) bid))) =
        prodL (blockShape oc bid) :=
  plan_blocks hwf hpos hprod h

/-- **Central theorem, index form.** For EVERY output multi-index `i`: locate its block and its position in
the block, take the input block with the same row-major number, read it row-major at the same flat
position (`planIndex`); the input element found has the same flat C-order position as `i` — it is the
element `np.reshape` puts at `i`. -/
theorem C01r_plan_index (inshape outshape : List Nat) (inchunks ic oc : List Chunks)
    (hwf : WFIn inshape inchunks) (hpos : Pos inshape) (hprod : prodL inshape = prodL outshape)
    (h : plan inshape outshape inchunks = .ok (ic, oc)) (i : List Nat) (hi : InB i outshape) :
    InB (planIndex ic oc i) inshape ∧ flatIndex inshape (planIndex ic oc i) = flatIndex outshape i :=
  plan_index hwf hpos hprod h i hi

/-- **Central theorem, array form.** For every array `a` of shape `inshape` (any element type): reshaping
block `k` of `a` rechunked to `ic` to the shape of output block `k`, for every `k`, and concatenating along
`oc` is `np.reshape(a, outshape)`. -/
theorem C01r_compute_eq_reshape {α : Type} (inshape outshape : List Nat) (inchunks ic oc : List Chunks)
    (hwf : WFIn inshape inchunks) (hpos : Pos inshape) (hprod : prodL inshape = prodL outshape)
    (h : plan inshape outshape inchunks = .ok (ic, oc)) (a : Arr α) (ha : a.shape = inshape) :
    Arr.Equiv (planArr a ic oc) (npReshape a outshape) :=
  plan_compute hwf hpos hprod h a ha

/-- `np.reshape` itself: `unflat` / `flatIndex` are inverse on in-bounds indices (the spec is well defined) -/
theorem C01r_unflat_flatIndex (shape i : List Nat) (h : InB i shape) : unflat shape (flatIndex shape i) = i :=
  unflat_flatIndex shape i h

theorem C01r_flatIndex_unflat (shape : List Nat) (g : Nat) (h : g < prodL shape) :
    InB (unflat shape g) shape ∧ flatIndex shape (unflat shape g) = g :=
  flatIndex_unflat shape g h

/-- **`Pos` is necessary.** A zero-size array, well-formed chunks, equal sizes, an ACCEPTED plan — whose input
grid has 2 blocks and whose output grid has 4 (the model follows the implementation's wrap-around read of
`inshape[-1]`; on the real code the graph then has missing dependencies). -/
theorem C01r_zero_size_witness :
    WFIn [0, 6] [[0], [2, 4]] ∧ prodL [0, 6] = prodL [2, 3, 0, 6] ∧
      plan [0, 6] [2, 3, 0, 6] [[0], [2, 4]] = .ok ([[0], [3, 3]], [[1, 1], [3], [0], [2, 4]]) ∧
      (blockSizes [[0], [3, 3]]).length = 2 ∧ (blockSizes [[1, 1], [3], [0], [2, 4]]).length = 4 := by
  refine ⟨by decide, by rfl, by rfl, by rfl, by rfl⟩

/-- **Positive chunks are necessary.** With a zero-width chunk the "moving around blocks" shortcut takes
`len(chunks) == shape` for "chunked into single elements": the accepted plan pairs a 6-element block with a
3-element one. -/
theorem C01r_zero_width_witness :
    Pos [2, 3] ∧ prodL [2, 3] = prodL [6] ∧
      plan [2, 3] [6] [[2, 0], [3]] = .ok ([[2, 0], [3]], [[3, 3]]) ∧
      blockSizes [[2, 0], [3]] = [6, 0] ∧ blockSizes [[3, 3]] = [3, 3] := by
  refine ⟨by decide, by rfl, by rfl, by rfl, by rfl⟩

/-- **Acceptance is a hypothesis, not a conclusion.** On an operand whose axes all have length 1 and more than
twice as many output axes the planner neither accepts nor refuses with `NotImplementedError`: it raises
`IndexError` (the wrapped read `inshape[-2]`).  `reshape()` never gets there (one-block fast path), slice
pushdown through a reshape does (signature `reshape-slice-pushdown:unit-operand:IndexError`). -/
theorem C01r_unit_operand_witness :
    WFIn [1] [[1]] ∧ Pos [1] ∧ prodL [1] = prodL [1, 1, 1] ∧
      plan [1] [1, 1, 1] [[1]] = .error .indexError := by
  refine ⟨by decide, by decide, by rfl, by rfl⟩

/-! ### non-vacuity: the hypotheses hold together on concrete, non-trivial inputs -/

/-- merge with an intermediate rechunk: `(6, 5, 4) → (30, 4)` -/
example : WFIn [6, 5, 4] [[3, 3], [2, 3], [2, 2]] ∧ Pos [6, 5, 4] ∧ prodL [6, 5, 4] = prodL [30, 4] ∧
    plan [6, 5, 4] [30, 4] [[3, 3], [2, 3], [2, 2]] =
      .ok ([[1, 1, 1, 1, 1, 1], [5], [2, 2]], [[5, 5, 5, 5, 5, 5], [2, 2]]) :=
  ⟨by decide, by decide, by rfl, by rfl⟩

/-- split: `(6, 5, 4) → (3, 2, 5, 4)` -/
example : WFIn [6, 5, 4] [[3, 3], [2, 3], [2, 2]] ∧ Pos [6, 5, 4] ∧ prodL [6, 5, 4] = prodL [3, 2, 5, 4] ∧
    plan [6, 5, 4] [3, 2, 5, 4] [[3, 3], [2, 3], [2, 2]] =
      .ok ([[2, 2, 2], [2, 3], [2, 2]], [[1, 1, 1], [2], [2, 3], [2, 2]]) :=
  ⟨by decide, by decide, by rfl, by rfl⟩

/-- merge where `expand_tuple` cuts the left axis into single rows and `_smooth_chunks` then splits the
whole-axis chunk of the right axis again; the leading length-1 output axis is reached after the input side
is exhausted (`ii = -1`, the loop reads `inshape[-1]`) -/
example : WFIn [4, 30] [[2, 2], [10, 10, 10]] ∧ Pos [4, 30] ∧ prodL [4, 30] = prodL [1, 120] ∧
    plan [4, 30] [1, 120] [[2, 2], [10, 10, 10]] =
      .ok ([[1, 1, 1, 1], [15, 15]], [[1], [15, 15, 15, 15, 15, 15, 15, 15]]) :=
  ⟨by decide, by decide, by rfl, by rfl⟩

/-- the element map on a concrete index: output `(17, 3)` of the first example is input `(3, 2, 3)` -/
example : planIndex [[1, 1, 1, 1, 1, 1], [5], [2, 2]] [[5, 5, 5, 5, 5, 5], [2, 2]] [17, 3] = [3, 2, 3] ∧
    flatIndex [6, 5, 4] [3, 2, 3] = flatIndex [30, 4] [17, 3] := ⟨by rfl, by rfl⟩

/-- a refusal: existing dimensions split unevenly -/
example : plan [6, 5, 4] [4, 5, 6] [[3, 3], [2, 3], [2, 2]] = .error .notImplemented := by rfl

end Dask.Props.C01Reshape
