/-
C02 (phase 3) — Every fired rewrite preserves values, for three rewrites that phase 2 listed as not
modelled: slice through `broadcast_to` (`BroadcastTo._accept_slice`), rechunk through concatenate
(`Rechunk._pushdown_through_concatenate`: per-part redistribution of the target, residual seam rechunk)
and the rechunk∘slice composition (`Rechunk._pushdown_through_slice`).  Model: Model/Rules2.lean; proofs:
Lemmas/Rules2.lean.  ONLY property theorems (restated) and non-vacuity examples.

`Preserves` is phase 2's (Props/C02.lean): the product is well-formed, has the same NumPy shape and
denotes the same array.  With the generic step / congruence theorems of phase 2 the rules of both phases
may be mixed in any order anywhere in a tree (`C02x_any_sequence`), and with phase 1 the blocks computed
by the rewritten expression assemble to the NumPy meaning of the original (`C02x_any_sequence_compute`).

Measure (phase 2's `mu`): slice-through-broadcast decreases it; rechunk-through-concatenate decreases
it exactly when no residual rechunk stays above the concatenate (`C02x_rechunkThroughConcat_facts`; with a
residual it does NOT decrease — example below — the real rule terminates because it declines on its
own product: every part already holds its slice of the target); rechunk∘slice keeps it equal
(`C02x_rechunkThroughSlice_mu`; the real rule runs once, at lowering).  So these rules are NOT added to
the fixpoint `optimize` of phase 2; soundness does not depend on termination.
-/
import DaskArrayModel.Lemmas.Rules2
import DaskArrayModel.Props.C02
namespace Dask.Props.C02Ext
open Dask.Py Dask.ND Dask.Props.C02

/-! ### every rule -/

theorem C02x_rule_sound_sliceThroughBroadcast (env : Env) (e e' : Expr) (hw : WF e)
    (h : sliceThroughBroadcast e = some e') : Preserves env e' e :=
  preserves_of (sliceThroughBroadcast_sound env e e' hw h)

theorem C02x_rule_sound_rechunkThroughConcat (env : Env) (e e' : Expr) (hw : WF e)
    (h : rechunkThroughConcat e = some e') : Preserves env e' e :=
  preserves_of (rechunkThroughConcat_sound env e e' hw h)

theorem C02x_rule_sound_rechunkThroughSlice (env : Env) (e e' : Expr) (hw : WF e)
    (h : rechunkThroughSlice e = some e') : Preserves env e' e :=
  preserves_of (rechunkThroughSlice_sound env e e' hw h)

/-! ### chunks and measure -/

/-- slice through broadcast decreases the termination measure of phase 2 -/
theorem C02x_sliceThroughBroadcast_decreases (e e' : Expr) (h : sliceThroughBroadcast e = some e') :
    mu e' < mu e :=
  sliceThroughBroadcast_dec e e' h

/-- rechunk through concatenate delivers exactly the requested chunks, and decreases the measure
unless a residual (seam-merging) rechunk to the requested chunks stays above the concatenate -/
theorem C02x_rechunkThroughConcat_facts (e e' : Expr) (h : rechunkThroughConcat e = some e') :
    chunks e' = chunks e ∧ (mu e' < mu e ∨ ∃ c, e' = Expr.rechunk c (chunks e)) :=
  rechunkThroughConcat_facts e e' h

/-- the redistribution loop: the per-part chunks add up to the target, each part gets at most its
extent, and exactly its extent when the target covers both parts (`perPart_concat = target`) -/
theorem C02x_redistribute_spec (nb room : Nat) (tgt pa pb : List Nat)
    (h : redistribute nb room tgt = some (pa, pb)) :
    pa.sum + pb.sum = tgt.sum ∧ pa.sum ≤ room ∧ pb.sum ≤ nb ∧
      (tgt.sum = room + nb → pa.sum = room ∧ pb.sum = nb) :=
  let s := redistribute_spec nb room tgt pa pb h
  ⟨s.1, s.2.1, s.2.2.1, fun hs => redistribute_exact nb room tgt pa pb h hs⟩

/-- the rechunk∘slice composition delivers exactly the requested chunks … -/
theorem C02x_rechunkThroughSlice_chunks (e e' : Expr) (h : rechunkThroughSlice e = some e') :
    chunks e' = chunks e :=
  rechunkThroughSlice_chunks e e' h

/-- … and keeps the measure -/
theorem C02x_rechunkThroughSlice_mu (e e' : Expr) (h : rechunkThroughSlice e = some e') : mu e' = mu e :=
  rechunkThroughSlice_mu e e' h

/-! ### sequences mixing the rules of phases 2 and 3 -/

/-- every sequence of single-rule steps (any rules of phase 2 or 3, in any order, anywhere in the tree) -/
theorem C02x_any_sequence (env : Env) (henv : EnvOK env) (e e' : Expr) (hw : WF e)
    (h : Rewrites2 e e') : Preserves env e' e :=
  preserves_of (rewrites2_refines env henv h hw)

/-- … and with phase 1: the blocks computed by the rewritten expression assemble to the NumPy meaning
of the original expression -/
theorem C02x_any_sequence_compute (env : Env) (henv : EnvOK env) (e e' : Expr) (hw : WF e)
    (h : Rewrites2 e e') : Arr.Equiv (compute env e') (den env e) :=
  let r := rewrites2_refines env henv h hw
  (compute_eq_den env henv e' r.isWF).trans r.equiv

/-! ### non-vacuity: every rule fires on a concrete well-formed tree and CHANGES it -/

def xEnv : Env :=
  { src := fun id => if id = 0 then ⟨[4, 5], fun i => (flatIndex [4, 5] i : Int)⟩
      else ⟨[3, 5], fun i => (100 + flatIndex [3, 5] i : Int)⟩
    un := fun _ x => -x
    bin := fun _ x y => x + y }
def xSrc : Expr := .src 0 [4, 5] [[2, 2], [3, 2]]
def ySrc : Expr := .src 1 [3, 5] [[1, 2], [3, 2]]
def sl (a b c : Option Int) : Ix := .slc ⟨a, b, c⟩

-- broadcast_to(x, (3,4,5))[1:, 1:3, :4]: the new axis only changes shape/chunks, the real axes are pushed
def bc : Expr := .broadcastTo xSrc [3, 4, 5] [[2, 1], [2, 2], [3, 2]]
def bcS : Expr := .slice bc [sl (some 1) none none, sl (some 1) (some 3) none, sl none (some 4) none]
def bcS' : Expr :=
  .broadcastTo (.slice xSrc [sl (some 1) (some 3) none, sl none (some 4) none]) [2, 2, 4] [[1, 1], [1, 1], [3, 1]]
example : WF bcS := by decide
#guard sliceThroughBroadcast bcS == some bcS'
#guard (den xEnv bcS).toList == (den xEnv bcS').toList && (den xEnv bcS').toList.take 4 == [5, 6, 7, 8]
-- an axis broadcast from length 1 keeps the full slice below, only the output chunks are cut (`_slice_chunks`)
def col : Expr := .src 0 [4, 1] [[2, 2], [1]]
#guard sliceThroughBroadcast (.slice (.broadcastTo col [4, 6] [[2, 2], [4, 2]]) [colonIx, sl (some 3) (some 5) none])
    == some (.broadcastTo (.slice col [colonIx, colonIx]) [4, 2] [[2, 2], [1, 1]])
#guard bcSliceChunks [4, 2] 3 2 == [1, 1] && bcSliceChunks [4, 2] 0 0 == [0]
-- declined for a stepped slice (as the real rule)
#guard sliceThroughBroadcast (.slice bc [colonIx, sl none none (some 2), colonIx]) == none

-- rechunk(concatenate([x (4 rows, chunks 2,2), y (3 rows, chunks 1,2)]), rows (4,3)): no seam is crossed
def cc : Expr := .concat xSrc ySrc 0
example : WF cc ∧ chunks cc = [[2, 2, 1, 2], [3, 2]] := by decide
#guard rechunkThroughConcat (.rechunk cc [[4, 3], [5]])
    == some (.concat (.rechunk xSrc [[4], [5]]) (.rechunk ySrc [[3], [5]]) 0)
-- rows (3,4): the second target chunk straddles the seam: parts get (3,1) and (3,), a residual rechunk merges
#guard redistribute 3 4 [3, 4] == some ([3, 1], [3])
#guard rechunkThroughConcat (.rechunk cc [[3, 4], [5]])
    == some (.rechunk (.concat (.rechunk xSrc [[3, 1], [5]]) (.rechunk ySrc [[3], [5]]) 0) [[3, 4], [5]])
-- … and then the measure does not decrease (6 → 10); the rule declines on its own product
#guard mu (.rechunk cc [[3, 4], [5]]) == 6 &&
    mu (.rechunk (.concat (.rechunk xSrc [[3, 1], [5]]) (.rechunk ySrc [[3], [5]]) 0) [[3, 4], [5]]) == 10
#guard rechunkThroughConcat
    (.rechunk (.concat (.rechunk xSrc [[3, 1], [5]]) (.rechunk ySrc [[3], [5]]) 0) [[3, 4], [5]]) == none
-- off-axis change only: each part is rechunked, own axis chunks kept
#guard rechunkThroughConcat (.rechunk cc [[2, 2, 1, 2], [5]])
    == some (.concat (.rechunk xSrc [[2, 2], [5]]) (.rechunk ySrc [[1, 2], [5]]) 0)
-- a target that disagrees with the part extents is declined
#guard redistribute 3 4 [3, 5] == none

-- rechunk(x[1:4, :], rows (3,)): x is cut to (1,3) so that the kept range is one block
#guard rechunkThroughSlice (.rechunk (.slice xSrc [sl (some 1) (some 4) none, colonIx]) [[3], [5]])
    == some (.slice (.rechunk xSrc [[1, 3], [5]]) [sl (some 1) (some 4) none, colonIx])
-- integers keep x's grid; declined when the slice is already aligned to x's grid
#guard rechunkThroughSlice (.rechunk (.slice xSrc [.int 1, sl (some 1) (some 4) none]) [[1, 2]])
    == some (.slice (.rechunk xSrc [[2, 2], [1, 1, 2, 1]]) [.int 1, sl (some 1) (some 4) none])
#guard rechunkThroughSlice (.rechunk (.slice xSrc [sl (some 2) (some 4) none, colonIx]) [[1, 1], [5]]) == none
#guard (den xEnv (.rechunk (.slice xSrc [sl (some 1) (some 4) none, colonIx]) [[3], [5]])).toList
    == (den xEnv (.slice (.rechunk xSrc [[1, 3], [5]]) [sl (some 1) (some 4) none, colonIx])).toList

/-- the statements have teeth: pushing the slice of a broadcast axis (length 1 below) to the input —
forgetting the `in_size == 1` case — changes the array -/
def badPush : Expr := .broadcastTo (.slice col [colonIx, sl (some 3) (some 5) none]) [4, 2] [[2, 2], [1, 1]]
example : ¬ WF badPush := by decide   -- the input slice is empty: a (4,0) array cannot broadcast to (4,2)

end Dask.Props.C02Ext
