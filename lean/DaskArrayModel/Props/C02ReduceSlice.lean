/-
C02 (extension) — slice pushdown through reductions (`_accept_slice_impl`, dask_array/reductions/_reduction.py,
shared by `Reduction._accept_slice` and `PartialReduce._accept_slice`) preserves values, for every rank, every set
of reduced axes, keepdims both ways and every `output_size` (sum: 1; topk / argtopk: |k|).
Model: Model/ReduceSlice.lean (see its header for the Python ↔ Lean table); proofs: Lemmas/ReduceSlice.lean.
ONLY property theorems (restated, one-line proofs) and non-vacuity examples.
-/
import DaskArrayModel.Lemmas.ReduceSlice
namespace Dask.Props.C02ReduceSlice
open Dask.Py Dask.Py.PySlice Dask.Slicing Dask.ND Dask.RedSlice

/-- **Soundness.**  For every element types, every lane function `r` (what the reduction computes from the values
along the reduced axes: nothing is assumed about it, not even the length of its result), every `output_size`, every
input array (any rank), every set of reduced axes, keepdims both ways and every index on which the rule fires
(`splitIndex … = some sp`; ints of either sign, slices of any sign / step, short indices):
`(reduce x)[index] = (reduce (x[input_index]))[final_index]` (same shape, same value at every position).
Only hypothesis: the index has at most one item per output axis (NumPy refuses longer ones). -/
theorem C02r_split_sound {α β : Type} [Inhabited β] (r : List α → List β) (osz : Nat) (x : Arr α)
    (axes : List Nat) (kd : Bool) (obj : Bool) (index : List RIx) (sp : Split)
    (h : splitIndex x.shape axes kd obj index = some sp)
    (hlen : index.length ≤ outNdim (mask x.shape.length axes) kd) :
    Arr.Equiv (pushed r osz kd (mask x.shape.length axes) x sp)
      (original r osz kd (mask x.shape.length axes) x (index.filterMap RIx.toIx?)) :=
  split_sound r osz x axes kd obj index sp h hlen

/-- **The item on a kept reduced axis is re-applied unchanged** (keepdims; the axis has length `output_size`, which
is |k| for topk / argtopk): whatever was requested there — an integer, zero or not, or a slice — is the item of
`final_index`, and the input receives `slice(None)` on that axis. -/
theorem C02r_kept_axis_index_preserved (sh : List Nat) (axes : List Nat) (obj : Bool) (index : List RIx) (sp : Split)
    (h : splitIndex sh axes true obj index = some sp) (ax : Nat) (hax : ax < sh.length) (hred : axes.contains ax = true)
    (d : Ix) :
    sp.out.getD ax d = (fullIndex (mask sh.length axes) true (index.filterMap RIx.toIx?)).getD ax d ∧
    sp.inp.getD ax colon = colon :=
  kept_axis_index_preserved sh axes obj index sp h ax hax hred d

/-- On a kept (non-reduced) axis with keepdims the input receives the item (an integer `k` as `k : k + 1`) and the
output keeps only the extraction (`0` for an integer, `slice(None)` for a slice). -/
theorem C02r_kept_input_axis (sh : List Nat) (axes : List Nat) (obj : Bool) (index : List RIx) (sp : Split)
    (h : splitIndex sh axes true obj index = some sp) (hlen : index.length ≤ sh.length)
    (ax : Nat) (hax : ax < sh.length) (hkept : axes.contains ax = false) :
    sp.inp.getD ax colon
      = ((fullIndex (mask sh.length axes) true (index.filterMap RIx.toIx?)).map intToSlice).getD ax colon ∧
    sp.out.getD ax (Ix.slc colon)
      = extract ((fullIndex (mask sh.length axes) true (index.filterMap RIx.toIx?)).getD ax (Ix.slc colon)) :=
  kept_input_axis sh axes obj index sp h hlen ax hax hkept

/-- **Indices never reach a reduced axis of the input** (keepdims both ways): the input index is `slice(None)` there
(forwarding it would reduce a subset of the data). -/
theorem C02r_reduced_axis_full (sh : List Nat) (axes : List Nat) (kd : Bool) (obj : Bool) (index : List RIx) (sp : Split)
    (h : splitIndex sh axes kd obj index = some sp) (ax : Nat) (hax : ax < sh.length) (hred : axes.contains ax = true) :
    sp.inp.getD ax colon = colon :=
  reduced_axis_full sh axes kd obj index sp h ax hax hred

/-- **Axis renumbering, keepdims=False**: output axis `j` is the `j`-th non-reduced input axis `a`
(`outAxis … = some a`: `a` is in range, not reduced, exactly `j` non-reduced axes precede it), and the item requested
on output axis `j` (an integer as a size-1 slice) is what the input receives on axis `a`. -/
theorem C02r_axis_renumbering (sh : List Nat) (axes : List Nat) (obj : Bool) (index : List RIx) (sp : Split)
    (h : splitIndex sh axes false obj index = some sp) (j a : Nat)
    (hj : outAxis (mask sh.length axes) 0 j = some a) :
    a < sh.length ∧ axes.contains a = false ∧
    (((mask sh.length axes).take a).filter (fun m => !m)).length = j ∧
    sp.inp.getD a colon
      = ((fullIndex (mask sh.length axes) false (index.filterMap RIx.toIx?)).map intToSlice).getD j colon :=
  axis_renumbering sh axes obj index sp h j a hj

/-- **When the rule declines**: a `None` item; an input of dtype object (its blocks need not be arrays: argtopk
reduces (values, indices) pairs — fix e9b96e9); nothing would be pushed (every item of the input index is
`slice(None)`: only reduced axes are indexed); or the sliced input would be empty along a kept axis
(also `slice(-1, 0)` from the raw integer `-1`).  (The sharing / no-cull gates of `ArrayExpr._slice_pushdown`
run before `_accept_slice` and only decline.) -/
theorem C02r_decline_iff (sh : List Nat) (axes : List Nat) (kd : Bool) (obj : Bool) (index : List RIx) :
    splitIndex sh axes kd obj index = none ↔
      (index.any RIx.isNone = true ∨ obj = true ∨
       (inputIndex (mask sh.length axes) kd
          (fullIndex (mask sh.length axes) kd (index.filterMap RIx.toIx?))).all (fun s => s == colon) = true ∨
       emptyKept (mask sh.length axes) (sliceShape sh ((inputIndex (mask sh.length axes) kd
          (fullIndex (mask sh.length axes) kd (index.filterMap RIx.toIx?))).map Ix.slc)) = true) :=
  decline_iff sh axes kd obj index

/-! ### the seeded regression: a non-zero integer on the topk axis replaced by 0 -/

/-- rows `[1, 5, 3]` and `[4, 2, 6]` -/
def exX : Arr Int := ⟨[2, 3], fun i => [1, 5, 3, 4, 2, 6].getD (flatIndex [2, 3] i) 0⟩

/-- `topk(x, 2, axis=1)[1:2, 1]`: the second largest of the second row -/
def exIndex : List RIx := [.slc ⟨some 1, some 2, none⟩, .int 1]

/-- the rule fires with `input_index = (1:2, :)` and `final_index = (:, 1)`; the pushed form and the original give
`[4]`; with the item on the topk axis replaced by `0` the pushed form gives `[6]`. -/
theorem C02r_kept_axis_zero_witness :
    splitIndex [2, 3] [1] true false exIndex
      = some ⟨[⟨some 1, some 2, none⟩, colon], [.slc colon, .int 1], true⟩ ∧
    (original (topkLane 2) 2 true (mask 2 [1]) exX (exIndex.filterMap RIx.toIx?)).toList = [4] ∧
    (pushed (topkLane 2) 2 true (mask 2 [1]) exX
      ⟨[⟨some 1, some 2, none⟩, colon], [.slc colon, .int 1], true⟩).toList = [4] ∧
    (pushed (topkLane 2) 2 true (mask 2 [1]) exX
      ⟨[⟨some 1, some 2, none⟩, colon], [.slc colon, .int 0], true⟩).toList = [6] := by
  decide

/-! ### non-vacuity -/

/-- rank 3, two reduced axes (0 and 2), keepdims, output_size 3: an integer and a slice on the kept reduced axes, a
block-dropping slice on the kept axis -/
example : splitIndex [4, 5, 6] [0, 2] true false [.int 2, .slc ⟨some 2, some 5, none⟩, .slc ⟨none, none, some (-1)⟩]
    = some ⟨[colon, ⟨some 2, some 5, none⟩, colon],
            [.int 2, .slc colon, .slc ⟨none, none, some (-1)⟩], true⟩ := by decide

/-- the same reduction without keepdims: the index has one item (the only kept axis), a raw negative integer -/
example : splitIndex [4, 5, 6] [0, 2] false false [.int (-2)]
    = some ⟨[colon, ⟨some (-2), some (-1), none⟩, colon], [.int 0], true⟩ := by decide

/-- no outer slice when only slices are pushed -/
example : splitIndex [4, 5, 6] [0, 2] false false [.slc ⟨some 1, none, some 2⟩]
    = some ⟨[colon, ⟨some 1, none, some 2⟩, colon], [.slc colon], false⟩ := by decide

/-- the hypotheses of `C02r_split_sound` hold on them -/
example : [RIx.int 2, .slc ⟨some 2, some 5, none⟩, .slc ⟨none, none, some (-1)⟩].length
    ≤ outNdim (mask 3 [0, 2]) true ∧ [RIx.int (-2)].length ≤ outNdim (mask 3 [0, 2]) false := by decide

/-- evaluated: rank 3 input `[2, 3, 2]`, reduced over axes 0 and 2, output_size 3 (the 3 × 3 box of a keepdims
result is filled from the 9 largest of the lane), `[2, 1:3, 0:2]` (beyond the 4 values of a lane: the default) and `[0, 1:3, 1:3]`; and the maximum without keepdims -/
def exY : Arr Int := ⟨[2, 3, 2], fun i => [7, 1, 4, 9, 2, 8, 3, 6, 5, 0, 11, 10].getD (flatIndex [2, 3, 2] i) 0⟩

example :
    (splitIndex [2, 3, 2] [0, 2] true false [.int 2, .slc ⟨some 1, some 3, none⟩, .slc ⟨some 0, some 2, none⟩]).map
      (fun sp => (pushed (topkLane 9) 3 true (mask 3 [0, 2]) exY sp).toList)
      = some [0, 0, 0, 0] ∧
    (original (topkLane 9) 3 true (mask 3 [0, 2]) exY
      [.int 2, .slc ⟨some 1, some 3, none⟩, .slc ⟨some 0, some 2, none⟩]).toList = [0, 0, 0, 0] ∧
    (splitIndex [2, 3, 2] [0, 2] true false [.int 0, .slc ⟨some 1, some 3, none⟩, .slc ⟨some 1, some 3, none⟩]).map
      (fun sp => (pushed (topkLane 9) 3 true (mask 3 [0, 2]) exY sp).toList)
      = some [5, 4, 10, 8] ∧
    (splitIndex [2, 3, 2] [0, 2] false false [.slc ⟨some 2, none, some (-1)⟩]).map
      (fun sp => (pushed (topkLane 1) 1 false (mask 3 [0, 2]) exY sp).toList)
      = some [11, 9, 7] := by decide

/-- declines: an input of dtype object (`argtopk`) -/
example : splitIndex [2, 3] [0] true true [.slc colon, .int 2] = none ∧
    (splitIndex [2, 3] [0] true false [.slc colon, .int 2]).isSome = true := by decide

/-- declines: `None`; only reduced axes indexed; the raw integer `-1` (`slice(-1, 0)` is empty); an empty slice -/
example : splitIndex [4, 5, 6] [0, 2] true false [.none, .int 0] = none ∧
    splitIndex [4, 5, 6] [0, 2] true false [.int 1, .slc colon, .slc ⟨some 0, some 2, none⟩] = none ∧
    splitIndex [4, 5, 6] [0, 2] false false [.int (-1)] = none ∧
    splitIndex [4, 5, 6] [0, 2] false false [.slc ⟨some 3, some 3, none⟩] = none := by decide

/-- keepdims=False renumbering on a rank-4 input reduced over axes 0 and 2: output axes 0, 1 are input axes 1, 3 -/
example : outAxis (mask 4 [0, 2]) 0 0 = some 1 ∧ outAxis (mask 4 [0, 2]) 0 1 = some 3 ∧
    outAxis (mask 4 [0, 2]) 0 2 = none := by decide

end Dask.Props.C02ReduceSlice
