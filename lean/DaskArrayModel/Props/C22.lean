/-
C22 — native Rust layers vs Python layers (PARTIAL: pure planning kernels only).

The extension `dask_array._rust` cannot be built offline (pyo3 missing), so the expansion code
inside `#[pymethods]` and the `to_records_chunk` encoding are NOT executed by any check.
What is tied: the std-only planning kernels of crates/dask-array-python/src/*.rs
(`rechunk.rs: cum, breakpoints, intersect_1d`; `reduction.rs: partition_all`;
`shuffle.rs: searchsorted_right`), extracted from the current source on every run, compiled with
`rustc -O` and compared three-way (Rust vs this Lean model vs the Python original) by
harness/props/C22.py.  ONE model serves Python and Rust:
  cum ↦ `cum0`, breakpoints ↦ `mergeBreaks`/`breakpoints`, intersect_1d ↦ `intersect1d`,
  partition_all(size, n) ↦ `partitionAll size (List.range n)`, searchsorted_right ↦ `bisectRight`.
So the theorems below are the SAME theorems as for the Python helpers.
-/
import DaskArrayModel.Lemmas.Crosswalk
import DaskArrayModel.Lemmas.Reduce
namespace Dask.Props.C22
open Dask.Py Dask.Rechunk

set_option linter.unusedVariables false in
/-- `intersect_1d(breakpoints(cum(old), cum(new)))`: each new block is covered exactly once, in
order, by contiguous in-bounds pieces of old blocks (all chunkings incl. zero-width) -/
theorem rust_crosswalk_exact (old new : List Int)
    (ho : ∀ c ∈ old, 0 ≤ c) (hn : ∀ c ∈ new, 0 ≤ c)
    (hsum : isum old = isum new) (hone : old ≠ []) (hnne : new ≠ []) :
    (intersect1d (mergeBreaks (cum0 old) (cum0 new))).length = new.length ∧
    ∀ j (hj : j < new.length),
      (∀ p ∈ (intersect1d (mergeBreaks (cum0 old) (cum0 new))).getD j [], PieceOK old p) ∧
      (intersect1d (mergeBreaks (cum0 old) (cum0 new))).getD j [] ≠ [] ∧
      piecesPositions old ((intersect1d (mergeBreaks (cum0 old) (cum0 new))).getD j []) =
        newBlockPositions new j :=
  Dask.Lemmas.Crosswalk.crosswalk_exact old new ho hn hsum hone hnne

/-- `partition_all(size, n)`: the runs concatenate to `0..n` -/
theorem rust_partitionAll_flatten (size n : Nat) (hk : 0 < size) :
    (partitionAll size (List.range n)).flatten = List.range n :=
  Dask.Lemmas.Reduce.partitionAll_flatten hk (List.range n)

/-- every run is non-empty and at most `size` long -/
theorem rust_partitionAll_parts (size n : Nat) (hk : 0 < size) :
    ∀ p ∈ partitionAll size (List.range n), p ≠ [] ∧ p.length ≤ size :=
  Dask.Lemmas.Reduce.partitionAll_parts hk (List.range n)

/-! ### non-vacuity -/

example : intersect1d (mergeBreaks (cum0 [2, 0, 1]) (cum0 [0, 3])) = [[⟨0, 0, 0⟩], [⟨0, 0, 2⟩, ⟨2, 0, 1⟩]] := by
  simp [cum0, cumsum, cumsumFrom, mergeBreaks, intersect1d, iloop, istep]

example : (partitionAll 2 (List.range 5)).flatten = List.range 5 := rust_partitionAll_flatten 2 5 (by decide)

example : partitionAll 2 (List.range 5) = [[0, 1], [2, 3], [4]] := by
  simp [partitionAll, List.range, List.range.loop]

end Dask.Props.C22
