/-
C25 (extension) — `store` in n dimensions and the npy-stack round trip.  ONLY property theorems
(proofs are short compositions of Lemmas/StoreND*) and non-vacuity examples.

Vocabulary (Model/StoreND.lean): `blockIds chunks` = every block multi-index; `blockWrite tshape region
chunks src bid` = the `load_store_chunk` call of block `bid` (fuse the block's `ArraySliceDep` index with
the region — `storeIndex`, Model/SourceIO.lean —, the `x.size != 0` guard, NumPy's `out[index] = x` with
its IndexError / broadcast check) as a partial function target position ↦ value written;
`storeEvalOrder … order tgt` = the target after the block writes were executed in `order`;
`regionSel tshape region` = what `target[region]` names, `locate G q` = the multi-index INSIDE that
selection of target position `q` (`none`: not selected).
`accepted tshape region chunks` (decidable): chunks ≥ 0 (zero-length chunks allowed); no region (`None`
or `()`) and target shape = source shape, or a region tuple with one entry per target axis: integers in
range (wrap-around allowed), slices with start, stop ≥ 0 and step ≥ 1 (everything else is refused by
`fuse_slice`: `C25_store_refusal`) selecting exactly as many positions as the source axis is long.
-/
import DaskArrayModel.Lemmas.StoreNDMulti
import DaskArrayModel.Lemmas.NpyStack
namespace Dask.Props.C25n
open Dask.Py Dask.Py.PySlice Dask.Slicing Dask.SourceIO Dask.StoreND Dask.NpyStack Dask.Lemmas.StoreND

/-- every block write succeeds, and the sets of target positions the blocks write are pairwise
disjoint and their union is exactly the set of positions the region selects -/
theorem C25n_writes_partition (tshape : List Int) (region : Option (List RIdx))
    (chunks : List (List Int)) (src : Pos → Int) (h : accepted tshape region chunks = true) :
    ∃ G, regionSel tshape region = .ok G ∧
    ∃ ws : List Nat → Write Pos,
      (∀ bid ∈ blockIds chunks, blockWrite tshape region chunks src bid = .ok (ws bid)) ∧
      ∀ q : Pos,
        ((∃ bid ∈ blockIds chunks, (ws bid q).isSome) ↔ (locate G q).isSome) ∧
        (∀ bid ∈ blockIds chunks, ∀ bid' ∈ blockIds chunks,
          (ws bid q).isSome → (ws bid' q).isSome → bid = bid') := by
  obtain ⟨hc, G, hg⟩ := glue_of_accepted tshape region chunks h
  refine ⟨G, hg.sel, blockSpec G chunks src, fun bid hb => blockWrite_eq tshape region chunks G src hc hg bid hb, ?_⟩
  intro q
  have hp := writes_partition G chunks src hc hg.shape q
  constructor
  · constructor
    · rintro ⟨bid, _, hs⟩
      cases hl : locate G q with
      | none => rw [hp.2 hl bid] at hs; cases hs
      | some g => rfl
    · intro hs
      cases hl : locate G q with
      | none => rw [hl] at hs; cases hs
      | some g =>
        obtain ⟨bid, hb, hv, _⟩ := hp.1 g hl
        exact ⟨bid, hb, by rw [hv]; rfl⟩
  · intro bid hb bid' hb' h1 h2
    by_cases hne : bid = bid'
    · exact hne
    · rcases blockSpec_disjoint G chunks src hc bid bid' hb hb' hne q with h' | h'
      · rw [h'] at h1; cases h1
      · rw [h'] at h2; cases h2

/-- after the store — the blocks executed in ANY order — target position `q` holds `src[p]` when `q`
is the `p`-th position of `target[region]`, and its old value when the region does not select it -/
theorem C25n_store_correct (tshape : List Int) (region : Option (List RIdx))
    (chunks : List (List Int)) (src tgt : Pos → Int) (h : accepted tshape region chunks = true) :
    ∃ G, regionSel tshape region = .ok G ∧ selShape G = srcShape chunks ∧
    ∀ order : List (List Nat), order.Perm (blockIds chunks) →
      ∃ tgt', storeEvalOrder tshape region chunks src order tgt = .ok tgt' ∧
        ∀ q : Pos, (∀ p, locate G q = some p → tgt' q = src p) ∧ (locate G q = none → tgt' q = tgt q) := by
  obtain ⟨hc, G, hg⟩ := glue_of_accepted tshape region chunks h
  refine ⟨G, hg.sel, hg.shape, ?_⟩
  intro order hp
  refine ⟨specTarget G src tgt, store_correct tshape region chunks G src tgt hc hg order hp, ?_⟩
  intro q
  constructor
  · intro p hl; simp [specTarget, hl]
  · intro hl; simp [specTarget, hl]

/-- any two orders of the block writes give the same target -/
theorem C25n_order_independent (tshape : List Int) (region : Option (List RIdx))
    (chunks : List (List Int)) (src tgt : Pos → Int) (h : accepted tshape region chunks = true)
    (o1 o2 : List (List Nat)) (h1 : o1.Perm (blockIds chunks)) (h2 : o2.Perm (blockIds chunks)) :
    storeEvalOrder tshape region chunks src o1 tgt = storeEvalOrder tshape region chunks src o2 tgt ∧
    ∃ t, storeEvalOrder tshape region chunks src o1 tgt = .ok t := by
  obtain ⟨hc, G, hg⟩ := glue_of_accepted tshape region chunks h
  rw [store_correct tshape region chunks G src tgt hc hg o1 h1,
    store_correct tshape region chunks G src tgt hc hg o2 h2]
  exact ⟨rfl, _, rfl⟩

/-! non-vacuity: a 2-d source with chunks (2,1) × (1,0,2) into a 6 × 9 target, stepped region with an
integer entry in between (3-d target) -/
example : accepted [6, 4, 9] (some [RIdx.slc ⟨some 1, some 6, some 2⟩, RIdx.int (-1), RIdx.slc ⟨some 2, some 8, some 2⟩])
    [[2, 1], [1, 0, 2]] = true := by decide
example : accepted [3, 3] none [[2, 1], [1, 0, 2]] = true := by decide
example : accepted [4] (some [RIdx.slc ⟨some 3, some 0, some (-1)⟩]) [[2, 1]] = false := by decide
example : (blockIds [[2, 1], [1, 0, 2]]).length = 6 := by decide

/-- several (source, target, region) triples whose targets are pairwise different objects (`tid`), every
triple accepted; ALL block tasks of all triples executed in ANY interleaving (`sched` = a permutation of
`allTasks jobs`): the store succeeds, the target of every triple ends exactly as `C25n_store_correct` says
for that triple alone (`specTarget`: source values on the region's selection, old values elsewhere), and
a target of no triple is untouched. -/
theorem C25n_multi (jobs : List Job)
    (hd : ∀ (k k' : Nat) (j j' : Job), jobs[k]? = some j → jobs[k']? = some j' → k ≠ k' → j.tid ≠ j'.tid)
    (hacc : ∀ j ∈ jobs, accepted j.tshape j.region j.chunks = true)
    (sched : List (Nat × List Nat)) (hp : sched.Perm (allTasks jobs)) (heap : Nat × Pos → Int) :
    ∃ heap', storeMultiOrder jobs sched heap = .ok heap' ∧
      (∀ j ∈ jobs, ∃ G, regionSel j.tshape j.region = .ok G ∧
        ∀ q, heap' (j.tid, q) = specTarget G j.src (fun q => heap (j.tid, q)) q) ∧
      (∀ tid, (∀ j ∈ jobs, j.tid ≠ tid) → ∀ q, heap' (tid, q) = heap (tid, q)) := by
  obtain ⟨heap', h1, h2, h3⟩ := store_multi jobs hd hacc sched hp heap
  refine ⟨heap', h1, ?_, h3⟩
  intro j hj
  obtain ⟨_, G, hg⟩ := glue_of_accepted j.tshape j.region j.chunks (hacc j hj)
  refine ⟨G, hg.sel, ?_⟩
  have : selOf j = G := by simp [selOf, hg.sel]
  intro q
  rw [← this]
  exact h2 j hj q

/-- FULL statement asked for: "`store` refuses (raises) exactly when `target[region].shape ≠ source.shape`".
It is FALSE for the code that exists: `store` has no shape check of its own, the only check is NumPy's
broadcast check inside each block's `out[index] = x`, after `fuse_slice` has clipped the block's slice to
the region (`min(a.stop, …)`).  A source SMALLER than the region's selection is written into the leading
part of the region without error, and a LARGER source is refused only if some block keeps an extent ≠ 1
on the short axis (a one-element block is broadcast into the empty selection): see the three evaluations
below, which the correspondence check reproduces on the real code.  Proved part: an accepted call (shapes
equal, supported region form) is never refused, for any order of the blocks. -/
theorem C25n_refusal_partial (tshape : List Int) (region : Option (List RIdx))
    (chunks : List (List Int)) (src tgt : Pos → Int) (h : accepted tshape region chunks = true)
    (order : List (List Nat)) (hp : order.Perm (blockIds chunks)) :
    ∃ t, storeEvalOrder tshape region chunks src order tgt = .ok t := by
  obtain ⟨hc, G, hg⟩ := glue_of_accepted tshape region chunks h
  exact ⟨_, store_correct tshape region chunks G src tgt hc hg order hp⟩

/-- `to_npy_stack(dir, x, axis)` then `from_npy_stack(dir)` for `0 ≤ axis < ndim` and any chunking
(zero-length blocks included): reading succeeds, advertises the info record's chunks — the source's
chunks along `axis`, the same shape — and every position of the array reads back the source value. -/
theorem C25n_stack_roundtrip (chunks : List (List Int)) (axis : Nat) (x : Pos → Int)
    (hc : ∀ c ∈ chunks, ∀ v ∈ c, 0 ≤ v) (ha : axis < chunks.length) :
    ∃ f, fromStack (toStack axis chunks x).1 (toStack axis chunks x).2 =
        .ok ((toStack axis chunks x).2.chunks, f) ∧
      (toStack axis chunks x).2.chunks[axis]? = chunks[axis]? ∧
      srcShape (toStack axis chunks x).2.chunks = srcShape chunks ∧
      ∀ q, InRange chunks q → f q = some (x q) :=
  Dask.Lemmas.NpyStack.stack_roundtrip chunks axis x hc ha

/-! non-vacuity / the evaluations quoted above (target of length 5 pre-filled with -1, source 10, 11, 12) -/
example : show5 (storeEval [5] (some [RIdx.slc ⟨some 1, some 4, none⟩]) [[2, 1]] (fun p => 10 + p.headD 0) (fun _ => -1))
    = some [-1, 10, 11, 12, -1] := by decide
-- region selects 4 positions, source has 3: accepted silently, prefix written
example : show5 (storeEval [5] (some [RIdx.slc ⟨some 0, some 4, none⟩]) [[2, 1]] (fun p => 10 + p.headD 0) (fun _ => -1))
    = some [10, 11, 12, -1, -1] := by decide
-- region selects 2 positions, source has 3 in blocks (2, 1): accepted silently, last element dropped
example : show5 (storeEval [5] (some [RIdx.slc ⟨some 0, some 2, none⟩]) [[2, 1]] (fun p => 10 + p.headD 0) (fun _ => -1))
    = some [10, 11, -1, -1, -1] := by decide
-- same with one block of 3: NumPy's broadcast check refuses
example : show5 (storeEval [5] (some [RIdx.slc ⟨some 0, some 2, none⟩]) [[3]] (fun p => 10 + p.headD 0) (fun _ => -1))
    = none := by decide
example : (allTasks [⟨0, [4], none, [[2, 2]], fun _ => 0⟩, ⟨1, [5], some [RIdx.slc ⟨some 1, some 5, none⟩], [[1, 3]], fun _ => 0⟩]).length = 4 := by
  decide
example : (toStack 0 [[2, 0, 1], [2, 2]] (fun _ => 0)).2 = ⟨[[2, 0, 1], [4]], 0⟩ ∧
    (toStack 0 [[2, 0, 1], [2, 2]] (fun _ => 0)).1.map (·.shape) = [[2, 4], [0, 4], [1, 4]] := by decide
example : InRange [[2, 0, 1], [2, 2]] [2, 3] := ⟨by decide, by decide, by decide, by decide, trivial⟩

end Dask.Props.C25n
