/-
C01 (extension "contraction") — `matmul` / `@`, `tensordot`, `dot`, `einsum` compute what NumPy
computes, whatever the chunking of the operands, the fan-in (`split_every`) and the depth of the
reduction tree.  ONLY property theorems (one-liners from Lemmas/Contract*.lean) and non-vacuity
examples.  Model: Model/Contract.lean (read its header for the Python ↔ Lean table), tied to
dask_array/linalg/_tensordot.py, dask_array/_einsum.py, `Blockwise`, `Reduction._lower` /
`PartialReduce` by harness/props_ext/c01_contract.py (driver family `ctr.*`, Drv/Contract.lean).

Reading guide.  A `Plan` is what the code builds: operands (value, chunks AFTER alignment, position
of every operand axis in the blockwise index tuple `out_ind`), the label chunks `full` per position
of `out_ind`, `split` (`split_every` at the contracted positions, 0 elsewhere), `depth` (number of
`PartialReduce` layers), `direct` (matmul's squeeze shortcut).
  `contractDen P`   the NumPy meaning: `out[j] = Σ_c Π_operands operand[labels(j, c)]`
                    (size-1 axes broadcast) — chunks, fan-in, depth do not occur in it;
  `blockProd P bid` the task of the blockwise product: THE SAME NumPy contraction applied to one
                    block of every operand (`_compute_block_id`), contracted axes kept with length 1;
  `outBlock P ob`   the task for result block `ob`: per-block sums, the n-d `partition_all` cascade
                    over the contracted block axes, `keepdims=False`.
`P.WF` (decidable): lengths agree, every axis has a block, every operand axis has its label's chunks or
is a broadcast axis `(1,)`, every label is carried by some operand with its own chunks (the contracted
index has THE SAME chunks on all operands that carry it), fan-in ≥ 2 and `#blocks ≤ fan-in ^ depth` on
every contracted position (true for the depth the code computes: `C01c_planDepth_suffices`).
All theorems hold for every rank, every number of operands, every shape (0- and 1-length axes
included), every chunking (zero-length chunks included).  There is no `…_partial` theorem.
-/
import DaskArrayModel.Lemmas.Contract2D
namespace Dask.Props.C01Contract
open Dask.Py Dask.ND Dask.Reduce Dask.Contract Dask.Lemmas.Reduce

/-! ### the general theorem (any rank, any number of operands, any contracted index set) -/

/-- Refinement: every result block the plan computes is the block of the NumPy contraction on the
extent that the result's `.chunks` advertise. -/
theorem C01c_block_correct (P : Plan) (hwf : P.WF) (ob : List Nat) (hob : validBid (outChunks P) ob) :
    Arr.Equiv (outBlock P ob) (restrict (contractDen P) (extent (outChunks P) ob)) :=
  outBlock_correct P hwf ob hob

/-- `compute()`: the blocks assemble to the NumPy contraction. -/
theorem C01c_assemble (P : Plan) (hwf : P.WF) : Arr.Equiv (computeOut P) (contractDen P) :=
  computeOut_correct P (PlanOK.of_wf hwf)

/-- … hence the same flat data (C order) for every chunking / fan-in / depth of the same operation. -/
theorem C01c_compute_data (P : Plan) (hwf : P.WF) : (computeOut P).toList = (contractDen P).toList :=
  (computeOut_correct P (PlanOK.of_wf hwf)).toList_eq

/-- What one task of the blockwise product holds: the partial contraction over THAT block's stretch of
every contracted index, at the block's global position (`i` is a local index; its entries at the
contracted positions are ignored — those axes have length 1). -/
theorem C01c_blockProd_partial (P : Plan) (hwf : P.WF) (bid : List Nat) (hb : validBid P.full bid)
    (i : List Nat) (hi : InB i (blockProd P bid).shape) :
    (blockProd P bid).get i
      = isum ((allIdx (pick P.mask (blockShape P.full bid))).map (fun c =>
          npTerm (P.ops.map (fun o => (o.pos, o.arr)))
            (vadd (origin P.full bid) (merge P.mask (keep P.mask i) c)))) := by
  have hP := PlanOK.of_wf hwf
  have hfl : P.full.length = P.mask.length := by rw [mask_length, hP.slen]
  have hsl := blockShape_len_mask P hP bid hb
  rw [blockProd_shape P hP bid hb] at hi
  rw [blockProd_get P hP bid hb]
  apply lsum_congr
  intro c hc
  have hc' := (mem_allIdx _ _).mp hc
  apply npTerm_block P hP bid _ hb
  have hk : InB (keep P.mask i) (keep P.mask (blockShape P.full bid)) := by
    have := InB_keep P.mask i _ (setMasked_length _ _ _ hsl) hi
    rwa [setMasked_eq_merge _ _ _ hsl,
      keep_merge _ _ _ (keep_length _ _ hsl) (by rw [List.length_map]; exact pick_length _ _ hsl)] at this
  have := InB_merge P.mask _ _ _ _ (keep_length _ _ hsl) (pick_length _ _ hsl) hk hc'
  rwa [merge_keep_pick _ _ hsl] at this

/-- The cascade is independent of fan-in and depth: for ANY block grid `G` (all blocks of the
contracted grid of `ob` of one shape), any per-position fan-in ≥ 2 and any depth with
`#blocks ≤ fan-in ^ depth`, the single block left for `ob` is the pointwise sum of all blocks of the
contracted grid — each exactly once. -/
theorem C01c_tree_any_fanin (sp nb ob : List Nat) (d : Nat) (G : List Nat → Arr Int) (S : List Nat)
    (h : okOb sp nb ob) (hd : depthOK sp nb d)
    (hG : ∀ kb, InB kb (pick (maskOf sp) nb) → (G (merge (maskOf sp) ob kb)).shape = S) :
    (tree addBlocks sp d nb G (merge (maskOf sp) ob (zerosOf (maskOf sp)))).shape = S ∧
    ∀ i, (tree addBlocks sp d nb G (merge (maskOf sp) ob (zerosOf (maskOf sp)))).get i
      = isum ((allIdx (pick (maskOf sp) nb)).map (fun kb => (G (merge (maskOf sp) ob kb)).get i)) :=
  tree_blocks sp nb ob d G S h hd hG

/-- the depth `_build_tree_reduce_expr` computes (exact `max(1, ceil(log_k n))` per contracted
position, maximum over positions) is sufficient for one contracted position … -/
theorem C01c_planDepth_suffices {n k : Nat} (hk : 2 ≤ k) : n ≤ k ^ (max (depthOf n k) 1) :=
  depth_one_axis hk

/-- A zero-length contracted index: every entry of every result block is 0 (the empty sum). -/
theorem C01c_zero_contracted (P : Plan) (hwf : P.WF) (h0 : 0 ∈ pick P.mask (P.full.map List.sum))
    (ob : List Nat) (hob : validBid (outChunks P) ob) (j : List Nat) (hj : InB j (outBlock P ob).shape) :
    (outBlock P ob).get j = 0 := by
  have hE := outBlock_correct P hwf ob hob
  rw [hE.2 j hj]
  exact contractDen_zero P (PlanOK.of_wf hwf) h0 _

/-! ### C03 for contractions: advertised chunks are what the tasks produce -/

theorem C03c_block_shape (P : Plan) (hwf : P.WF) (ob : List Nat) (hob : validBid (outChunks P) ob) :
    (outBlock P ob).shape = blockShape (outChunks P) ob :=
  (outBlock_correct P hwf ob hob).1

/-- the blocks of the blockwise product have the shape its `.chunks` (`adjust_chunks → 1`) advertise -/
theorem C03c_prod_block_shape (P : Plan) (hwf : P.WF) (bid : List Nat) (hb : validBid P.full bid) :
    (blockProd P bid).shape = blockShape (prodChunks P) bid := by
  rw [blockProd_shape P (PlanOK.of_wf hwf) bid hb, prodChunks_blockShape P (PlanOK.of_wf hwf) bid hb]

/-- the result's chunks sum to the NumPy shape on every axis -/
theorem C03c_chunks_sum (P : Plan) (hwf : P.WF) : (outChunks P).map List.sum = (contractDen P).shape :=
  (contractDen_shape P (PlanOK.of_wf hwf)).symm

/-! ### the 2-d reading: `a @ b`, chunkings `ri` (rows), `ck` (contracted, THE SAME on both
operands after unification), `cj` (columns), fan-in `k` -/

/-- the plan's NumPy meaning is the textbook product `out[i,j] = Σ_k a[i,k] * b[k,j]` -/
theorem C01c_matmul_den (a b : Arr Int) (ri ck cj : List Nat) (k : Nat)
    (ha : a.shape = [ri.sum, ck.sum]) (hb : b.shape = [ck.sum, cj.sum])
    (hri : ri ≠ []) (hck : ck ≠ []) (hcj : cj ≠ []) (hk : 2 ≤ k) :
    Arr.Equiv (contractDen (matmulPlan a b ri ck cj k)) (matmulDen a b) :=
  matmulPlan_den a b ri ck cj k ha hb hri hck hcj hk

/-- every output block `(bi, bj)` of the plan is the block of `matmulDen a b`; output chunks `(ri, cj)` -/
theorem C01c_matmul_block (a b : Arr Int) (ri ck cj : List Nat) (k : Nat)
    (ha : a.shape = [ri.sum, ck.sum]) (hb : b.shape = [ck.sum, cj.sum])
    (hri : ri ≠ []) (hck : ck ≠ []) (hcj : cj ≠ []) (hk : 2 ≤ k)
    (bi bj : Nat) (hbi : bi < ri.length) (hbj : bj < cj.length) :
    Arr.Equiv (outBlock (matmulPlan a b ri ck cj k) [bi, bj])
      (restrict (matmulDen a b) (extent [ri, cj] [bi, bj])) := by
  have hP := matmulPlan_ok a b ri ck cj k ha hb hri hck hcj hk
  have hoc := matmulPlan_outChunks a b ri ck cj k hk
  have := block_vs_den _ hP _ (matmulPlan_den a b ri ck cj k ha hb hri hck hcj hk) [bi, bj]
    (by rw [hoc]; simp [validBid, numblocks, InB, hbi, hbj])
  rwa [hoc] at this

/-- the blocks assemble to `a @ b` -/
theorem C01c_matmul_assemble (a b : Arr Int) (ri ck cj : List Nat) (k : Nat)
    (ha : a.shape = [ri.sum, ck.sum]) (hb : b.shape = [ck.sum, cj.sum])
    (hri : ri ≠ []) (hck : ck ≠ []) (hcj : cj ≠ []) (hk : 2 ≤ k) :
    Arr.Equiv (computeOut (matmulPlan a b ri ck cj k)) (matmulDen a b) :=
  (computeOut_correct _ (matmulPlan_ok a b ri ck cj k ha hb hri hck hcj hk)).trans
    (matmulPlan_den a b ri ck cj k ha hb hri hck hcj hk)

/-- `K = 0`: `a @ b` is all zeros -/
theorem C01c_matmul_zero_K (a b : Arr Int) (ij : List Nat) (h : a.shape.getD 1 0 = 0) :
    (matmulDen a b).get ij = 0 := by
  show isum ((List.range (a.shape.getD 1 0)).map _) = 0
  rw [h]; rfl

/-! ### 1-d operands, as the code treats them -/

/-- `dot(a, b)` of two vectors (`tensordot(a, b, axes=((0,), (-1,)))`): a 0-d result, one block -/
theorem C01c_vdot_block (a b : Arr Int) (ck : List Nat) (k : Nat)
    (ha : a.shape = [ck.sum]) (hb : b.shape = [ck.sum]) (hck : ck ≠ []) (hk : 2 ≤ k) :
    Arr.Equiv (outBlock (vdotPlan a b ck k) []) (vdotDen a b) := by
  have hP := vdotPlan_ok a b ck k ha hb hck hk
  have hm : (vdotPlan a b ck k).mask = [true] := by
    have : (k != 0) = true := by simp; omega
    simp [vdotPlan, Plan.mask, this]
  have hoc : outChunks (vdotPlan a b ck k) = [] := by rw [outChunks, hm]; rfl
  have := block_vs_den _ hP _ (vdotPlan_den a b ck k ha hb hck hk) [] (by rw [hoc]; exact validBid_nil)
  rw [hoc] at this
  refine this.trans ⟨rfl, ?_⟩
  intro i hi
  match i, hi with
  | [], _ => rfl

/-- `dot(a, v)` matrix · vector (`tensordot(a, v, axes=((1,), (-1,)))`): `out[i] = Σ_k a[i,k] v[k]` -/
theorem C01c_matvec_block (a v : Arr Int) (ri ck : List Nat) (k : Nat)
    (ha : a.shape = [ri.sum, ck.sum]) (hv : v.shape = [ck.sum])
    (hri : ri ≠ []) (hck : ck ≠ []) (hk : 2 ≤ k) (bi : Nat) (hbi : bi < ri.length) :
    Arr.Equiv (outBlock (matvecPlan a v ri ck k) [bi]) (restrict (matvecDen a v) (extent [ri] [bi])) := by
  have hP := matvecPlan_ok a v ri ck k ha hv hri hck hk
  have hm : (matvecPlan a v ri ck k).mask = [false, true] := by
    have : (k != 0) = true := by simp; omega
    simp [matvecPlan, Plan.mask, this]
  have hoc : outChunks (matvecPlan a v ri ck k) = [ri] := by rw [outChunks, hm]; rfl
  have := block_vs_den _ hP _ (matvecPlan_den a v ri ck k ha hv hri hck hk) [bi]
    (by rw [hoc]; simp [validBid, numblocks, InB, hbi])
  rwa [hoc] at this

/-- `v @ b` through `matmul`: `v[newaxis, :]` (chunks `(1,)`), the 2-d plan, `squeeze(axis=-2)` -/
theorem C01c_matmul_vecmat (v b : Arr Int) (ck cj : List Nat) (k : Nat)
    (hv : v.shape = [ck.sum]) (hb : b.shape = [ck.sum, cj.sum])
    (hck : ck ≠ []) (hcj : cj ≠ []) (hk : 2 ≤ k) (bj : Nat) (hbj : bj < cj.length) :
    Arr.Equiv (squeezeAt 0 (outBlock (matmulPlan (expandFront v) b [1] ck cj k) [0, bj]))
      (restrict (vecmatDen v b) (extent [cj] [bj])) :=
  matmul_vecmat_block v b ck cj k hv hb hck hcj hk bj hbj

/-- `a @ v` through `matmul`: `v[:, newaxis]`, the 2-d plan, `squeeze(axis=-1)` -/
theorem C01c_matmul_matvec (a v : Arr Int) (ri ck : List Nat) (k : Nat)
    (ha : a.shape = [ri.sum, ck.sum]) (hv : v.shape = [ck.sum])
    (hri : ri ≠ []) (hck : ck ≠ []) (hk : 2 ≤ k) (bi : Nat) (hbi : bi < ri.length) :
    Arr.Equiv (squeezeAt 1 (outBlock (matmulPlan a (expandBack v) ri ck [1] k) [bi, 0]))
      (restrict (matvecDen a v) (extent [ri] [bi])) :=
  matmul_matvec_block a v ri ck k ha hv hri hck hk bi hbi

/-! ### non-vacuity -/

def exA : Arr Int := ⟨[4, 5], fun i => (flatIndex [4, 5] i : Int)⟩
def exB : Arr Int := ⟨[5, 6], fun i => (flatIndex [5, 6] i : Int) - 7⟩
/-- 4×5 @ 5×6, rows (2,2), contracted (3,2) [one operand had (2,2,1) before unification], columns (4,2) -/
def exMM : Plan := matmulPlan exA exB [2, 2] [3, 2] [4, 2] 16
/-- the same with five unit blocks on the contracted axis and fan-in 2: a three-layer tree -/
def exMM3 : Plan := matmulPlan exA exB [2, 2] [1, 1, 1, 1, 1] [4, 2] 2
/-- tensordot over two axes, rank 3 × rank 3, axes=([1,2],[1,0]): labels a=(0,1,2) b=(2,1,5),
out_ind=(0,1,2,5), per-axis fan-in 2 -/
def exT : Arr Int := ⟨[2, 3, 2], fun i => (flatIndex [2, 3, 2] i : Int) - 5⟩
def exU : Arr Int := ⟨[2, 3, 2], fun i => 2 * (flatIndex [2, 3, 2] i : Int) + 1⟩
def exTD : Plan :=
  { ops := [⟨exT, [[1, 1], [2, 1], [1, 1]], [0, 1, 2]⟩, ⟨exU, [[1, 1], [2, 1], [2]], [2, 1, 3]⟩]
    full := [[1, 1], [2, 1], [1, 1], [2]], split := [0, 2, 2, 0], depth := 1 }
/-- batched matmul with a broadcast batch axis: (1,2,3) @ (2,3,2), the first operand's batch axis is `(1,)` -/
def exBa : Arr Int := ⟨[1, 2, 3], fun i => (flatIndex [1, 2, 3] i : Int)⟩
def exBb : Arr Int := ⟨[2, 3, 2], fun i => (flatIndex [2, 3, 2] i : Int) - 3⟩
def exBM : Plan :=
  { ops := [⟨exBa, [[1], [1, 1], [2, 1]], [0, 1, 2]⟩, ⟨exBb, [[1, 1], [2, 1], [2]], [0, 2, 3]⟩]
    full := [[1, 1], [1, 1], [2, 1], [2]], split := [0, 0, 16, 0], depth := 1 }
/-- a zero-length contracted axis -/
def exZ : Plan := matmulPlan ⟨[2, 0], fun _ => 1⟩ ⟨[0, 3], fun _ => 1⟩ [1, 1] [0] [3] 16

example : exMM.WF ∧ exMM3.WF ∧ exTD.WF ∧ exBM.WF ∧ exZ.WF := by decide
example : exMM.depth = 1 ∧ exMM3.depth = 3 := by decide
example : validBid (outChunks exMM) [1, 1] ∧ validBid (outChunks exTD) [1, 0] := by decide
example : outChunks exMM = [[2, 2], [4, 2]] ∧ prodChunks exMM = [[2, 2], [1, 1], [4, 2]] := by decide
example : ¬ (matmulPlan exA exB [2, 2] [3, 2] [4, 2] 1).WF := by decide
/-- mismatched contracted chunks are not well-formed (the code rechunks first) -/
example : ¬ ({ exMM with ops := [⟨exA, [[2, 2], [3, 2]], [0, 1]⟩, ⟨exB, [[2, 2, 1], [4, 2]], [1, 2]⟩] } : Plan).WF := by
  decide
/-- too few layers are not well-formed -/
example : ¬ ({ exMM3 with depth := 2 } : Plan).WF := by decide
#guard (contractDen exMM).toList == (matmulDen exA exB).toList
#guard (blockProd exMM [0, 1, 1]).shape == [2, 1, 2]
#guard (blockProd exMM [0, 1, 1]).toList == [129, 136, 309, 326]
#guard (outBlock exMM [1, 1]).toList == (restrict (matmulDen exA exB) (extent [[2, 2], [4, 2]] [1, 1])).toList
#guard (computeOut exMM3).toList == (matmulDen exA exB).toList
#guard (levelBlocks exMM3 1 [0, 2, 0]).shape == [2, 1, 4]
#guard (computeOut exTD).toList == (contractDen exTD).toList
#guard (contractDen exTD).shape == [2, 2]
#guard (computeOut exBM).toList == (contractDen exBM).toList
#guard (contractDen exBM).shape == [2, 2, 2]
#guard (computeOut exZ).toList == [0, 0, 0, 0, 0, 0]
example := C01c_block_correct exMM3 (by decide) [1, 0] (by decide)
example := C01c_block_correct exTD (by decide) [1, 0] (by decide)
example := C01c_zero_contracted exZ (by decide) (by decide) [1, 0] (by decide)
example := C01c_matmul_block exA exB [2, 2] [1, 1, 1, 1, 1] [4, 2] 2 rfl rfl (by simp) (by simp) (by simp)
  (by decide) 1 0 (by decide) (by decide)
example : okOb [0, 2, 2, 0] [2, 2, 2, 1] [1, 0] ∧ depthOK [0, 2, 2, 0] [2, 2, 2, 1] 1 := by simp [okOb, depthOK]

/-! the index bookkeeping of the front ends -/
example : tensordotInds 2 2 [1] [0] = .ok ⟨[0, 1], [1, 3], [0, 1, 3], [1]⟩ := by rfl
example : tensordotInds 3 3 [1, 2] [1, 0] = .ok ⟨[0, 1, 2], [2, 1, 5], [0, 1, 2, 5], [1, 2]⟩ := by rfl
example : tensordotInds 1 1 [0] [-1] = .ok ⟨[0], [0], [0], [0]⟩ := by rfl
example : tensordotInds 2 2 [1] [2] = .error .indexError := by rfl
example : (matmulInds 1 2).map (·.inds) = .ok ⟨[0, 1], [1, 2], [0, 1, 2], [1]⟩ := by rfl
example : (matmulInds 2 3).map (fun m => (m.padA, m.inds.bInd)) = .ok (1, [0, 2, 3]) := by rfl
example : posOf [0, 1, 2, 5] [2, 1, 5] = [2, 1, 3] := by decide
example : alignChunks 1 [3, 2] = [1] ∧ alignChunks 5 [3, 2] = [3, 2] ∧ alignChunks 0 [0] = [0] := by decide

end Dask.Props.C01Contract
