/-
C02 (extension, package `crt`) — slices and takes folded into creation arrays preserve values.
ONLY property theorems (restated; proofs are one-liners from Lemmas/Creation.lean) and non-vacuity examples.

Model: Model/Creation.lean (branch-by-branch mirror of `Arange.num_rows`, `Arange._layer` + `_chunk.arange`,
`Arange._accept_slice`, `Linspace._accept_slice` (driver only), `BroadcastTrick._accept_slice` / `_accept_shuffle`), over
exact integers; a dyadic-float arange is the integer arange of its numerators (`C02k_arange_len_scale`).

  C02k_arange_len          num_rows = len(range(start, stop, step)) for all integers, step ≠ 0 (either sign, empty ranges)
  C02k_arange_len_scale    the length does not change when start, stop, step are multiplied by a common m > 0
  C02k_arange_blocks       the blocks of `_layer` have the advertised lengths and concatenate to the arange's values, for EVERY
                           chunk tuple (zero-length chunks included)
  C02k_arange_slice_sound  for every integer arange and every slice (any signs, negative steps, empty results): the rewrite
                           fires, the folded arange has exactly the values of the slice of the original in order, its
                           length is the number of selected positions (= the sum of the slice node's chunks,
                           `C13.newBlockdim_*`), the blocks of its `_layer` over any chunks of that sum concatenate to the slice,
                           and on the integer branch (`Arange.integral`: new_start and new_step are Python ints) the stored
                           stop is new_start + count*new_step, from which num_rows re-derives exactly `count`
  C02k_arange_int_declines an integer index declines
  C02k_midpoint_len        FLOAT branch (`integral = false`): with `stop` at the midpoint new_start + (count - 1/2) * new_step, num_rows of the product is `count`
                           for either sign of new_step and for count = 0 (ratio -1/2, ceiling 0, max(0, 0) = 0).  Stated with
                           start/stop/step doubled (the rational midpoint cleared of its denominator; see `_scale`).
                           EXACT arithmetic: the implementation stores the midpoint as a binary64, which is not the
                           midpoint once |new_stop| ≥ 2^52 (found by the harness: `arange-slice-float-midpoint-large-int`,
                           repaired in /repo 7fbbeb4 by the integer branch; regression probes in the harness).
  C02k_midpoint_len_rat    the same over ℚ (core `Rat`), literally `max(ceil((new_stop - new_start) / new_step), 0) = count` with
                           new_stop = new_start + (count - 1/2) * new_step, and `2 * new_stop` is the model's `stop2`
  C02k_linspace_slice_sound `Linspace._accept_slice` (affine part): the folded linspace (start, step*k, num = count) has the
                           values of the slice of the original; its inclusive stop is the last selected value
                           (`stop - start = (count - 1) * step`, so the derived step of the product is the folded step when
                           count ≥ 2)
  C02k_const_slice         slicing a constant array by any slices / integers is the constant array of the slice node's shape,
                           the advertised chunks sum to it (no empty axis), its blocks assemble to it, and `name` is reset
  C02k_const_take          the same for `take` along an axis through `_accept_shuffle` (chunks of the shuffle node)
-/
import DaskArrayModel.Lemmas.Creation
import DaskArrayModel.Lemmas.CreationRat
namespace Dask.Props.C02Creation
open Dask.Py Dask.Py.PySlice Dask.Slicing Dask.ND Dask.Creation

theorem C02k_arange_len (start stop step : Int) (hs : step ≠ 0) :
    arangeLen start stop step = rangeLen start stop step ∧
    arangeVals start step (arangeLen start stop step) = rangeList start stop step := by
  refine ⟨Dask.Lemmas.Creation.arangeLen_eq_rangeLen start stop step hs, ?_⟩
  rw [Dask.Lemmas.Creation.arangeLen_eq_rangeLen start stop step hs]; rfl

theorem C02k_arange_len_scale (m start stop step : Int) (hm : 0 < m) (hs : step ≠ 0) :
    arangeLen (m * start) (m * stop) (m * step) = arangeLen start stop step :=
  Dask.Lemmas.Creation.arangeLen_scale m start stop step hm hs

theorem C02k_arange_blocks (start step : Int) (hs : step ≠ 0) (chunks : List Nat) :
    (arangeBlocks start step chunks).flatten = arangeVals start step chunks.sum ∧
    (arangeBlocks start step chunks).map List.length = chunks :=
  ⟨Dask.Lemmas.Creation.arangeBlocks_flatten start step hs chunks,
   Dask.Lemmas.Creation.arangeBlocksFrom_lengths start step hs chunks 0⟩

theorem C02k_arange_slice_sound (a : Arange) (s : PySlice) (ha : a.step ≠ 0) (hk : s.stp ≠ 0) :
    ∃ f, acceptSlice a (.slc s) = some f ∧
      arangeVals f.start f.step f.count = sliceList (arangeVals a.start a.step a.numRows) s ∧
      f.count = (sel s a.numRows).length ∧
      f.step ≠ 0 ∧
      (∀ pinned : List Nat, pinned.sum = f.count →
        (arangeBlocks f.start f.step pinned).flatten = sliceList (arangeVals a.start a.step a.numRows) s) ∧
      (∀ cs : List Nat, cs ≠ [] → cs.sum = a.numRows →
        (sliceChunks1 a.numRows cs s).sum = f.count ∧
        (arangeBlocks f.start f.step (sliceChunks1 a.numRows cs s)).flatten
          = sliceList (arangeVals a.start a.step a.numRows) s) ∧
      (a.integral = true →
        f.stop2 = 2 * (f.start + (f.count : Int) * f.step) ∧
        arangeLen f.start (f.start + (f.count : Int) * f.step) f.step = f.count) := by
  obtain ⟨f, h1, h2, h3, h4, h5⟩ := Dask.Lemmas.Creation.acceptSlice_sound a s hk
  have hf : f.step ≠ 0 := by rw [h4]; exact Int.mul_ne_zero ha hk
  have hblocks : ∀ pinned : List Nat, pinned.sum = f.count →
      (arangeBlocks f.start f.step pinned).flatten = sliceList (arangeVals a.start a.step a.numRows) s := by
    intro pinned hp
    rw [Dask.Lemmas.Creation.arangeBlocks_flatten f.start f.step hf pinned, hp, h2]
  refine ⟨f, h1, h2, h3, hf, hblocks, ?_, ?_⟩
  · intro cs hne hsum
    have hp : (sliceChunks1 a.numRows cs s).sum = f.count := by
      rw [h3]; exact (Dask.ND.sliceChunks1_facts cs hne s hk a.numRows hsum.symm).1
    exact ⟨hp, hblocks _ hp⟩
  · intro hint
    rw [hint] at h5
    exact ⟨by simpa using h5, Dask.Lemmas.Creation.arangeLen_exact f.start f.step hf f.count⟩

theorem C02k_arange_int_declines (a : Arange) (k : Int) : acceptSlice a (.int k) = none :=
  Dask.Lemmas.Creation.acceptSlice_int a k

theorem C02k_midpoint_len (a : Arange) (s : PySlice) (ha : a.step ≠ 0) (hk : s.stp ≠ 0)
    (hflt : a.integral = false) :
    ∃ f, acceptSlice a (.slc s) = some f ∧
      arangeLen (2 * f.start) f.stop2 (2 * f.step) = f.count := by
  obtain ⟨f, h1, _, _, h4, h5⟩ := Dask.Lemmas.Creation.acceptSlice_sound a s hk
  have hf : f.step ≠ 0 := by rw [h4]; exact Int.mul_ne_zero ha hk
  rw [hflt] at h5
  have h5' : f.stop2 = 2 * f.start + (2 * (f.count : Int) - 1) * f.step := by simpa using h5
  exact ⟨f, h1, by rw [h5']; exact Dask.Lemmas.Creation.midLen f.start f.step hf f.count⟩

theorem C02k_midpoint_len_rat (a : Arange) (s : PySlice) (ha : a.step ≠ 0) (hk : s.stp ≠ 0)
    (hflt : a.integral = false) :
    ∃ f, acceptSlice a (.slc s) = some f ∧
      (let newStop : Rat := (f.start : Rat) + ((f.count : Rat) - 1/2) * (f.step : Rat)
       2 * newStop = (f.stop2 : Rat) ∧
       max (Rat.ceil ((newStop - (f.start : Rat)) / (f.step : Rat))) 0 = (f.count : Int)) := by
  obtain ⟨f, h1, _, _, h4, h5⟩ := Dask.Lemmas.Creation.acceptSlice_sound a s hk
  have hf : f.step ≠ 0 := by rw [h4]; exact Int.mul_ne_zero ha hk
  rw [hflt] at h5
  have h5' : f.stop2 = 2 * f.start + (2 * (f.count : Int) - 1) * f.step := by simpa using h5
  refine ⟨f, h1, ?_, Dask.Lemmas.CreationRat.midpoint_rat f.start f.step hf f.count⟩
  rw [h5']; push_cast; grind

theorem C02k_linspace_slice_sound (start step : Int) (num : Nat) (s : PySlice) (hk : s.stp ≠ 0) :
    ∃ ns nstep cnt nstop, acceptSliceLinspace start step num (.slc s) = some (ns, nstep, cnt, nstop) ∧
      arangeVals ns nstep cnt = sliceList (arangeVals start step num) s ∧
      cnt = (sel s num).length ∧
      nstop - ns = ((cnt : Int) - 1) * nstep ∧
      acceptSliceLinspace start step num (.int 0) = none := by
  obtain ⟨a, b, c, d, h1, h2, h3, h4⟩ := Dask.Lemmas.Creation.acceptSliceLinspace_sound start step num s hk
  exact ⟨a, b, c, d, h1, h2, h3, h4, rfl⟩

theorem C02k_const_slice (c : Const) (idx : List Ix) (hsum : c.chunks.map List.sum = c.shape)
    (hne : ∀ cs ∈ c.chunks, cs ≠ []) (hi : wfIx c.shape idx = true) :
    sliceArr c.den idx = (constSlice c idx).den ∧
    (constSlice c idx).chunks.map List.sum = (constSlice c idx).shape ∧
    (∀ cs ∈ (constSlice c idx).chunks, cs ≠ []) ∧
    (assemble (constSlice c idx).chunks (constSlice c idx).block).Equiv (sliceArr c.den idx) ∧
    (constSlice c idx).name = none :=
  ⟨rfl, (Dask.Lemmas.Creation.constSlice_layout c idx hsum hne hi).1,
   (Dask.Lemmas.Creation.constSlice_layout c idx hsum hne hi).2,
   Dask.Lemmas.Creation.constSlice_compute c idx hsum hne hi, rfl⟩

theorem C02k_const_take (c : Const) (ax : Nat) (ind : List Int) (outChunks : List Nat)
    (hsum : c.chunks.map List.sum = c.shape) (hoc : outChunks.sum = ind.length) :
    takeArr c.den ax ind = (constTake c ax ind outChunks).den ∧
    (constTake c ax ind outChunks).chunks.map List.sum = (constTake c ax ind outChunks).shape ∧
    (assemble (constTake c ax ind outChunks).chunks (constTake c ax ind outChunks).block).Equiv (takeArr c.den ax ind) ∧
    (constTake c ax ind outChunks).name = none :=
  ⟨rfl, Dask.Lemmas.Creation.constTake_layout c ax ind outChunks hsum hoc,
   Dask.Lemmas.Creation.constTake_compute c ax ind outChunks hsum hoc, rfl⟩

/-! non-vacuity: concrete non-trivial instances (negative steps, reversed slices, empty results, zero-length chunks) -/
example : arangeLen 3 40 4 = 10 ∧ arangeLen 10 0 (-3) = 4 ∧ arangeLen 0 5 (-1) = 0 ∧ arangeLen 7 7 2 = 0 := by decide
example : arangeBlocks 3 4 [3, 3, 3, 1] = [[3, 7, 11], [15, 19, 23], [27, 31, 35], [39]] ∧
    arangeBlocks 10 (-3) [2, 0, 2] = [[10, 7], [], [4, 1]] := by decide
example : acceptSlice ⟨3, 40, 4, false⟩ (.slc ⟨some 7, some 1, some (-2)⟩) = some ⟨31, -8, 3, 22⟩ ∧
    acceptSlice ⟨3, 40, 4, true⟩ (.slc ⟨some 7, some 1, some (-2)⟩) = some ⟨31, -8, 3, 14⟩ ∧ arangeLen 31 7 (-8) = 3 ∧
    sliceList (arangeVals 3 4 10) ⟨some 7, some 1, some (-2)⟩ = [31, 23, 15] ∧
    arangeVals 31 (-8) 3 = [31, 23, 15] ∧ arangeLen 62 22 (-16) = 3 := by decide
example : acceptSlice ⟨10, 0, -3, false⟩ (.slc ⟨none, none, some (-1)⟩) = some ⟨1, 3, 4, 23⟩ ∧
    acceptSlice ⟨10, 0, -3, true⟩ (.slc ⟨none, none, some (-1)⟩) = some ⟨1, 3, 4, 26⟩ ∧
    arangeVals 1 3 4 = [1, 4, 7, 10] := by decide
example : acceptSlice ⟨3, 40, 4, false⟩ (.slc ⟨some 5, some 2, none⟩) = some ⟨23, 4, 0, 42⟩ ∧ arangeLen 46 42 8 = 0 ∧
    acceptSlice ⟨3, 40, 4, true⟩ (.slc ⟨some 5, some 2, none⟩) = some ⟨23, 4, 0, 46⟩ ∧ arangeLen 23 23 4 = 0 := by decide
example : acceptSliceLinspace 0 5 11 (.slc ⟨none, none, some (-2)⟩) = some (50, -10, 6, 0) ∧
    sliceList (arangeVals 0 5 11) ⟨none, none, some (-2)⟩ = [50, 40, 30, 20, 10, 0] := by decide
example : sliceChunks1 10 [3, 3, 3, 1] ⟨some 7, some 1, some (-2)⟩ = [1, 2] ∧ [3, 3, 3, 1].sum = arangeLen 3 40 4 ∧
    arangeBlocks 31 (-8) [1, 2] = [[31], [23, 15]] := by decide
example : (constSlice ⟨[5, 6], [[2, 3], [4, 2]], some "user", 7⟩ [.slc ⟨some 1, some 5, some 2⟩, .int 3])
    = ⟨[2], [[1, 1]], none, 7⟩ := by decide
example : [[2, 3], [4, 2]].map List.sum = [5, 6] ∧ (∀ cs ∈ [[2, 3], [4, 2]], cs ≠ ([] : List Nat)) ∧
    wfIx [5, 6] [.slc ⟨some 1, some 5, some 2⟩, .int 3] = true := by decide
example : (constTake ⟨[5, 6], [[2, 3], [4, 2]], some "user", 7⟩ 1 [0, 5, 2] [2, 1]) = ⟨[5, 3], [[2, 3], [2, 1]], none, 7⟩ := by
  decide

end Dask.Props.C02Creation
