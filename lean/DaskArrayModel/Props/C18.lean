/-
C18 — Reductions are independent of chunking and tree shape.

Property theorems only (proved by one-liners from Lemmas/Reduce.lean) + non-vacuity examples.
Model: Model/Reduce.lean (`partialReduce`, `treeReduce`, `depthOf`, `acceptSlice`), tied to
dask_array/reductions/_reduction.py by harness/props/C18.py (family `rd.*`).

Reading guide.  A reduced axis carries a list of blocks `ps : List (List α)` (any chunking of
`xs = ps.flatten` into non-empty blocks).  `chunk` maps a block to a partial, `combine` merges a
group of ≤ k partials, `aggregate` merges the last group and finalises.  `treeReduce k depth …`
is exactly what `_build_tree_reduce_expr` wires up along that axis; its value is the LIST of
output blocks.  The theorems say: whenever `#blocks ≤ k ^ depth` (true for the depth the code
computes, `C18_depthOf_spec`; false depths are shown to break it, `C18_depth_too_small_witness`)
the list is the single block `g xs` — independent of the chunking `ps`, of `k`, and of `depth`.
-/
import DaskArrayModel.Lemmas.Reduce
namespace Dask.Props.C18
open Dask.Py Dask.Reduce Dask.Lemmas.Reduce

/-! ### `partition_all` -/

theorem C18_partitionAll_flatten {α} {k : Nat} (hk : 0 < k) (xs : List α) :
    (partitionAll k xs).flatten = xs := partitionAll_flatten hk xs

theorem C18_partitionAll_parts {α} {k : Nat} (hk : 0 < k) (xs : List α) :
    ∀ p ∈ partitionAll k xs, p ≠ [] ∧ p.length ≤ k := partitionAll_parts hk xs

/-- `len(partition_all(k, xs)) = ⌈len(xs) / k⌉`. -/
theorem C18_partitionAll_length {α} {k : Nat} (hk : 0 < k) (xs : List α) :
    (partitionAll k xs).length = (xs.length + k - 1) / k := partitionAll_length hk xs

example : (partitionAll 2 [1, 2, 3]).flatten = [1, 2, 3] := C18_partitionAll_flatten (by decide) _
example : (partitionAll 2 [1, 2, 3]).length = 2 := C18_partitionAll_length (by decide) _

/-! ### tree depth -/

/-- the exact `max(1, ceil(log_k n))` suffices. -/
theorem C18_depthOf_spec {n k : Nat} (hk : 2 ≤ k) : n ≤ k ^ depthOf n k := depthOf_spec hk

/-- and it is the least positive depth that does. -/
theorem C18_depthOf_min {n k d : Nat} (hk : 1 ≤ k) (hd : 1 ≤ d) (h : n ≤ k ^ d) : depthOf n k ≤ d :=
  depthOf_min hd h hk

theorem C18_depthOf_pos (n k : Nat) : 1 ≤ depthOf n k := depthOf_pos n k

example : (9 : Nat) ≤ 2 ^ depthOf 9 2 := C18_depthOf_spec (by decide)
example : depthOf 9 2 ≤ 4 := C18_depthOf_min (by decide) (by decide) (by decide)
example : depthOf 9 2 = 4 := by decide
example : depthOf 1 7 = 1 := by decide

/-- number of blocks after one layer: `⌈n / k⌉`. -/
theorem C18_numBlocksAfter {k : Nat} (hk : 0 < k) (n : Nat) : numBlocksAfter k n = (n + k - 1) / k :=
  numBlocksAfter_eq hk n

/-- after `depthOf n k` layers (or any depth with `n ≤ k ^ d`) a reduced axis has at most one block. -/
theorem C18_depth_layers_leave_one_block {k : Nat} (hk : 2 ≤ k) (n d : Nat) (hd : depthOf n k ≤ d) :
    blocksAfterLayers k d n ≤ 1 :=
  blocksAfterLayers_le_one (by omega) d n
    (Nat.le_trans (depthOf_spec hk) (Nat.pow_le_pow_right (by omega) hd))

/-- `PartialReduce.chunks` on a reduced axis: `⌈numblocks / k⌉` chunks of size 1. -/
theorem C18_partialReduceChunks_axis {k : Nat} (hk : 0 < k) (c : List Nat) :
    (partitionAll k c).map (fun _ => 1) = List.replicate ((c.length + k - 1) / k) 1 :=
  partialReduceChunks_axis hk c

example : blocksAfterLayers 2 (depthOf 9 2) 9 ≤ 1 := C18_depth_layers_leave_one_block (by decide) 9 _ (Nat.le_refl _)
example : numBlocksAfter 3 10 = 4 := C18_numBlocksAfter (by decide) 10
example : partialReduceChunks [[2, 2, 1], [4, 4]] [2, 0] true = [[1, 1], [4, 4]] := by
  simp [partialReduceChunks, partitionAll_step, partitionAll_nil]
example : partialReduceChunks [[2, 2, 1], [4, 4]] [2, 0] false = [[4, 4]] := by
  simp [partialReduceChunks, partitionAll_step, partitionAll_nil]

/-! ### the tree equals the flat reduction -/

/-- abstract `(chunk, combine, aggregate)` triple computing `g`. -/
theorem C18_treeReduce_triple {α β γ} {chunk : List α → β} {combine : List β → β}
    {aggregate : List β → γ} {g : List α → γ} (T : Triple chunk combine aggregate g)
    {k depth : Nat} (hk : 0 < k) (hd : 1 ≤ depth) {ps : List (List α)} (hps : ps ≠ [])
    (hne : ∀ p ∈ ps, p ≠ []) (hl : ps.length ≤ k ^ depth) :
    treeReduce k depth combine aggregate (ps.map chunk) = [g ps.flatten] :=
  treeReduce_triple T hk hd hps hne hl

/-- list-homomorphism version: for `h (xs ++ ys) = op (h xs) (h ys)` the tree over ANY chunking `ps`
of `xs = ps.flatten`, any fan-in `k`, any sufficient depth, yields the single block `fin (h xs)`. -/
theorem C18_treeReduce_hom {α β γ} (op : β → β → β) (d : β) (h : List α → β) (hh : IsHom op h)
    (fin : β → γ) {k depth : Nat} (hk : 0 < k) (hd : 1 ≤ depth) {ps : List (List α)} (hps : ps ≠ [])
    (hne : ∀ p ∈ ps, p ≠ []) (hl : ps.length ≤ k ^ depth) :
    treeReduce k depth (fold1 op d) (fun bs => fin (fold1 op d bs)) (ps.map h) = [fin (h ps.flatten)] :=
  treeReduce_hom op d h hh fin hk hd hps hne hl

/-- fold version on the block partials: one output block, the flat fold. -/
theorem C18_treeReduce_eq_fold {β γ} (op : β → β → β)
    (hassoc : ∀ a b c, op (op a b) c = op a (op b c)) (d : β) (fin : β → γ) {k depth : Nat}
    (hk : 0 < k) (hd : 1 ≤ depth) {bs : List β} (hbs : bs ≠ []) (hl : bs.length ≤ k ^ depth) :
    treeReduce k depth (fold1 op d) (fun l => fin (fold1 op d l)) bs = [fin (fold1 op d bs)] :=
  treeReduce_eq_fold op hassoc d fin hk hd hbs hl

/-- with the code's depth (any oracle value ≥ the exact one): chunking- and tree-independent. -/
theorem C18_reduction_any_chunking {α β γ} (op : β → β → β)
    (hassoc : ∀ a b c, op (op a b) c = op a (op b c)) (d : β) (fin : β → γ)
    {k depth : Nat} (hk : 2 ≤ k) {ps : List (List α)} (hps : ps ≠ []) (hne : ∀ p ∈ ps, p ≠ [])
    (chunk : List α → β) (hc : IsHom op chunk) (hdepth : depthOf ps.length k ≤ depth) :
    treeReduce k depth (fold1 op d) (fun bs => fin (fold1 op d bs)) (ps.map chunk) = [fin (chunk ps.flatten)] := by
  have _ := hassoc
  apply treeReduce_hom op d chunk hc fin (by omega) (Nat.le_trans (depthOf_pos _ _) hdepth) hps hne
  exact Nat.le_trans (depthOf_spec hk) (Nat.pow_le_pow_right (by omega) hdepth)

/-- the right-nested `fold1` used in the statements is the ordinary left fold. -/
theorem C18_fold1_eq_foldl {β} (op : β → β → β) (hassoc : ∀ a b c, op (op a b) c = op a (op b c))
    (d x : β) (r : List β) : fold1 op d (x :: r) = r.foldl op x := fold1_eq_foldl op hassoc d x r

/-- why the depth hypothesis is needed: with depth 1 and fan-in 2, three blocks leave TWO blocks. -/
theorem C18_depth_too_small_witness :
    treeReduce 2 1 (fold1 (· + ·) (0 : Int)) (fold1 (· + ·) 0) [1, 2, 3] = [3, 3] := by
  simp [treeReduce, combineRounds, partialReduce, partitionAll_step, partitionAll_nil, fold1]

/-- and why fan-in 1 (`split_every = {axis: 1}`) can never work: no depth reduces anything. -/
theorem C18_fanin_one_never_reduces {β} (f : List β → β) (hf : ∀ x, f [x] = x) (depth : Nat) (bs : List β) :
    treeReduce 1 depth f f bs = bs := treeReduce_one f hf depth bs

example : treeReduce 1 5 (fold1 (· + ·) (0 : Int)) (fold1 (· + ·) 0) [1, 2, 3] = [1, 2, 3] :=
  C18_fanin_one_never_reduces _ (fun _ => rfl) 5 _

example : treeReduce 2 2 (fold1 (· + ·) (0 : Int)) (fun l => fold1 (· + ·) 0 l) [1, 2, 3] = [fold1 (· + ·) 0 [1, 2, 3]] :=
  C18_treeReduce_eq_fold (· + ·) add_assoc_int 0 id (by decide) (by decide) (by simp) (by decide)

example : treeReduce 3 2 (fold1 (· + ·) (0 : Int)) (fun l => fold1 (· + ·) 0 l)
      ([[1, 2], [3], [4, 5], [6]].map (fold1 (· + ·) 0)) = [fold1 (· + ·) 0 [1, 2, 3, 4, 5, 6]] :=
  C18_treeReduce_hom (· + ·) 0 (fold1 (· + ·) 0) (fold1_isHom _ add_assoc_int 0) id
    (by decide) (by decide) (by simp) (by simp) (by decide)

/-! ### instances: sum, prod, min, max, any, all, mean, argmin, argmax -/

/-- any associative `op`: chunk = combine = fold, aggregate = fin ∘ fold. -/
theorem C18_assoc_reduction {β γ} (op : β → β → β) (hassoc : ∀ a b c, op (op a b) c = op a (op b c))
    (d : β) (fin : β → γ) {k depth : Nat} (hk : 0 < k) (hd : 1 ≤ depth) {ps : List (List β)}
    (hps : ps ≠ []) (hne : ∀ p ∈ ps, p ≠ []) (hl : ps.length ≤ k ^ depth) :
    treeReduce k depth (fold1 op d) (fun bs => fin (fold1 op d bs)) (ps.map (fold1 op d))
      = [fin (fold1 op d ps.flatten)] :=
  treeReduce_hom op d (fold1 op d) (fold1_isHom op hassoc d) fin hk hd hps hne hl

theorem C18_sum {k depth : Nat} (hk : 0 < k) (hd : 1 ≤ depth) {ps : List (List Int)}
    (hps : ps ≠ []) (hne : ∀ p ∈ ps, p ≠ []) (hl : ps.length ≤ k ^ depth) :
    treeReduce k depth (fold1 (· + ·) 0) (fun bs => fold1 (· + ·) 0 bs) (ps.map (fold1 (· + ·) 0))
      = [fold1 (· + ·) 0 ps.flatten] :=
  C18_assoc_reduction (· + ·) add_assoc_int 0 id hk hd hps hne hl

theorem C18_prod {k depth : Nat} (hk : 0 < k) (hd : 1 ≤ depth) {ps : List (List Int)}
    (hps : ps ≠ []) (hne : ∀ p ∈ ps, p ≠ []) (hl : ps.length ≤ k ^ depth) :
    treeReduce k depth (fold1 (· * ·) 1) (fun bs => fold1 (· * ·) 1 bs) (ps.map (fold1 (· * ·) 1))
      = [fold1 (· * ·) 1 ps.flatten] :=
  C18_assoc_reduction (· * ·) mul_assoc_int 1 id hk hd hps hne hl

theorem C18_min {k depth : Nat} (hk : 0 < k) (hd : 1 ≤ depth) {ps : List (List Int)}
    (hps : ps ≠ []) (hne : ∀ p ∈ ps, p ≠ []) (hl : ps.length ≤ k ^ depth) :
    treeReduce k depth (fold1 min 0) (fun bs => fold1 min 0 bs) (ps.map (fold1 min 0))
      = [fold1 min 0 ps.flatten] :=
  C18_assoc_reduction min min_assoc_int 0 id hk hd hps hne hl

theorem C18_max {k depth : Nat} (hk : 0 < k) (hd : 1 ≤ depth) {ps : List (List Int)}
    (hps : ps ≠ []) (hne : ∀ p ∈ ps, p ≠ []) (hl : ps.length ≤ k ^ depth) :
    treeReduce k depth (fold1 max 0) (fun bs => fold1 max 0 bs) (ps.map (fold1 max 0))
      = [fold1 max 0 ps.flatten] :=
  C18_assoc_reduction max max_assoc_int 0 id hk hd hps hne hl

theorem C18_any {k depth : Nat} (hk : 0 < k) (hd : 1 ≤ depth) {ps : List (List Bool)}
    (hps : ps ≠ []) (hne : ∀ p ∈ ps, p ≠ []) (hl : ps.length ≤ k ^ depth) :
    treeReduce k depth (fold1 (· || ·) false) (fun bs => fold1 (· || ·) false bs) (ps.map (fold1 (· || ·) false))
      = [fold1 (· || ·) false ps.flatten] :=
  C18_assoc_reduction (· || ·) or_assoc_bool false id hk hd hps hne hl

theorem C18_all {k depth : Nat} (hk : 0 < k) (hd : 1 ≤ depth) {ps : List (List Bool)}
    (hps : ps ≠ []) (hne : ∀ p ∈ ps, p ≠ []) (hl : ps.length ≤ k ^ depth) :
    treeReduce k depth (fold1 (· && ·) true) (fun bs => fold1 (· && ·) true bs) (ps.map (fold1 (· && ·) true))
      = [fold1 (· && ·) true ps.flatten] :=
  C18_assoc_reduction (· && ·) and_assoc_bool true id hk hd hps hne hl

/-- mean through `(n, total)` partials (`mean_chunk` / `mean_combine` / `mean_agg`), exact over ℚ. -/
theorem C18_mean {k depth : Nat} (hk : 0 < k) (hd : 1 ≤ depth) {ps : List (List Int)}
    (hps : ps ≠ []) (hne : ∀ p ∈ ps, p ≠ []) (hl : ps.length ≤ k ^ depth) :
    treeReduce k depth (fold1 meanOp (0, 0)) (fun bs => meanFin (fold1 meanOp (0, 0) bs)) (ps.map meanChunk)
      = [((ps.flatten.foldl (· + ·) 0 : Int) : Rat) / ((ps.flatten.length : Nat) : Rat)] :=
  treeReduce_hom meanOp (0, 0) meanChunk meanChunk_isHom meanFin hk hd hps hne hl

/-- arg-reduction through `(index, value)` pairs: the tree returns the flat first-minimum. -/
theorem C18_argmin {k depth : Nat} (hk : 0 < k) (hd : 1 ≤ depth) {ps : List (List (Nat × Int))}
    (hps : ps ≠ []) (hne : ∀ p ∈ ps, p ≠ []) (hl : ps.length ≤ k ^ depth) (d : Nat × Int) :
    treeReduce k depth (fold1 argminOp d) (fun bs => (fold1 argminOp d bs).1) (ps.map (fold1 argminOp d))
      = [(fold1 argminOp d ps.flatten).1] :=
  C18_assoc_reduction argminOp argminOp_assoc d (·.1) hk hd hps hne hl

theorem C18_argmax {k depth : Nat} (hk : 0 < k) (hd : 1 ≤ depth) {ps : List (List (Nat × Int))}
    (hps : ps ≠ []) (hne : ∀ p ∈ ps, p ≠ []) (hl : ps.length ≤ k ^ depth) (d : Nat × Int) :
    treeReduce k depth (fold1 argmaxOp d) (fun bs => (fold1 argmaxOp d bs).1) (ps.map (fold1 argmaxOp d))
      = [(fold1 argmaxOp d ps.flatten).1] :=
  C18_assoc_reduction argmaxOp argmaxOp_assoc d (·.1) hk hd hps hne hl

theorem C18_argminOp_assoc : ∀ a b c, argminOp (argminOp a b) c = argminOp a (argminOp b c) :=
  argminOp_assoc

/-- the flat argmin fold picks the FIRST minimal element (NumPy's tie rule). -/
theorem C18_argmin_first (d : Nat × Int) (xs : List (Nat × Int)) (hx : xs ≠ []) :
    ∃ pre post, xs = pre ++ fold1 argminOp d xs :: post ∧
      (∀ q ∈ pre, (fold1 argminOp d xs).2 < q.2) ∧ (∀ q ∈ xs, (fold1 argminOp d xs).2 ≤ q.2) :=
  fold1_argmin_spec d xs hx

example : treeReduce 2 2 (fold1 (· + ·) 0) (fun bs => fold1 (· + ·) 0 bs) ([[1, 2], [3], [4]].map (fold1 (· + ·) 0))
    = [fold1 (· + ·) (0 : Int) [1, 2, 3, 4]] := C18_sum (by decide) (by decide) (by simp) (by simp) (by decide)
example : treeReduce 2 2 (fold1 (· * ·) 1) (fun bs => fold1 (· * ·) 1 bs) ([[1, 2], [3], [4]].map (fold1 (· * ·) 1))
    = [fold1 (· * ·) (1 : Int) [1, 2, 3, 4]] := C18_prod (by decide) (by decide) (by simp) (by simp) (by decide)
example : treeReduce 2 2 (fold1 min 0) (fun bs => fold1 min 0 bs) ([[5, 2], [3], [4]].map (fold1 min 0))
    = [fold1 min (0 : Int) [5, 2, 3, 4]] := C18_min (by decide) (by decide) (by simp) (by simp) (by decide)
example : treeReduce 2 2 (fold1 max 0) (fun bs => fold1 max 0 bs) ([[5, 2], [3], [4]].map (fold1 max 0))
    = [fold1 max (0 : Int) [5, 2, 3, 4]] := C18_max (by decide) (by decide) (by simp) (by simp) (by decide)
example : treeReduce 2 2 (fold1 (· || ·) false) (fun bs => fold1 (· || ·) false bs)
      ([[false, true], [false], [false]].map (fold1 (· || ·) false))
    = [fold1 (· || ·) false [false, true, false, false]] :=
  C18_any (by decide) (by decide) (by simp) (by simp) (by decide)
example : treeReduce 2 2 (fold1 (· && ·) true) (fun bs => fold1 (· && ·) true bs)
      ([[false, true], [true], [true]].map (fold1 (· && ·) true))
    = [fold1 (· && ·) true [false, true, true, true]] :=
  C18_all (by decide) (by decide) (by simp) (by simp) (by decide)
example : treeReduce 2 2 (fold1 meanOp (0, 0)) (fun bs => meanFin (fold1 meanOp (0, 0) bs))
      ([[1, 2], [3], [5]].map meanChunk)
    = [(([1, 2, 3, 5].foldl (· + ·) 0 : Int) : Rat) / (([1, 2, 3, 5].length : Nat) : Rat)] :=
  C18_mean (by decide) (by decide) (by simp) (by simp) (by decide)
example : treeReduce 2 2 (fold1 argminOp (0, 0)) (fun bs => (fold1 argminOp (0, 0) bs).1)
      ([[(0, 5), (1, 1)], [(2, 1)], [(3, 7)]].map (fold1 argminOp (0, 0)))
    = [(fold1 argminOp (0, 0) [(0, 5), (1, 1), (2, 1), (3, 7)]).1] :=
  C18_argmin (by decide) (by decide) (by simp) (by simp) (by decide) (0, 0)
example : (fold1 argminOp (0, 0) [(0, 5), (1, 1), (2, 1), (3, 7)]).1 = 1 := by decide
example : (fold1 argmaxOp (0, 0) [(0, 5), (1, 7), (2, 7), (3, 1)]).1 = 1 := by decide
example : treeReduce 2 2 (fold1 argmaxOp (0, 0)) (fun bs => (fold1 argmaxOp (0, 0) bs).1)
      ([[(0, 5), (1, 7)], [(2, 7)], [(3, 1)]].map (fold1 argmaxOp (0, 0)))
    = [(fold1 argmaxOp (0, 0) [(0, 5), (1, 7), (2, 7), (3, 1)]).1] :=
  C18_argmax (by decide) (by decide) (by simp) (by simp) (by decide) (0, 0)
example := C18_argmin_first (0, 0) [(0, 5), (1, 1), (2, 1)] (by simp)
example {k depth : Nat} (hk : 2 ≤ k) (ps : List (List Int)) (hps : ps ≠ []) (hne : ∀ p ∈ ps, p ≠ [])
    (hdepth : depthOf ps.length k ≤ depth) :
    treeReduce k depth (fold1 (· + ·) 0) (fun bs => fold1 (· + ·) 0 bs) (ps.map (fold1 (· + ·) 0))
      = [fold1 (· + ·) 0 ps.flatten] :=
  C18_reduction_any_chunking (· + ·) add_assoc_int 0 id hk hps hne _ (fold1_isHom _ add_assoc_int 0) hdepth

/-! ### n-D layer wiring -/

/-- For the groups `product(*parts)` enumerated by `PartialReduce._layer` (n-D, any per-axis
`split_every`, `0` = axis not reduced): a block index is referenced by some output task iff it is
a block of the input grid — nothing dropped, nothing invented. -/
theorem C18_layer_inputs_cover (numblocks split : List Nat) (h : numblocks.length = split.length)
    (k : List Nat) :
    (∃ G ∈ cart (layerParts numblocks split), k ∈ cart G) ↔ k ∈ cart (numblocks.map List.range) :=
  layer_inputs_cover numblocks split h k

example : (∃ G ∈ cart (layerParts [3, 2] [2, 0]), [2, 1] ∈ cart G) :=
  (C18_layer_inputs_cover [3, 2] [2, 0] rfl [2, 1]).mpr (by decide)
example : (partialReduceKeys [3, 2] [2, 0] true).map (·.2.2) = [[[0, 0], [1, 0]], [[0, 1], [1, 1]], [[2, 0]], [[2, 1]]] := by
  simp [partialReduceKeys, layerParts, cart, partitionAll_step, partitionAll_nil, dropReduced, List.range, List.range.loop]

/-! ### slices pushed through reductions -/

/-- reduce each row (axis 1), then select rows `I` = select rows `I`, then reduce each row. -/
theorem C18_slice_rows_commute {α β} (f : α → β) (I : List Nat) (rows : List α) :
    selRows I (rows.map f) = (selRows I rows).map f := sel_map_comm f I rows

/-- `_accept_slice_impl`, `keepdims=False`: one `input_index` entry per input axis; a reduced axis
always gets `slice(None)` (an output index never reaches it); the `p`-th kept axis receives the
index at output position `p`. -/
theorem C18_acceptSlice_nokeep (index : List Idx) (ndim : Nat) (reduced : List Nat)
    (hlen : index.length ≤ keptCount reduced (List.range ndim)) :
    (acceptSlice index ndim reduced false).inputIndex.length = ndim ∧
    ∀ j, j < ndim → (acceptSlice index ndim reduced false).inputIndex[j]? =
      if reduced.contains j = true then some fullSlice
      else ((acceptSlice index ndim reduced false).fullIndex.map toSliceIdx)[keptCount reduced (List.range j)]? :=
  acceptSlice_nokeep index ndim reduced hlen

/-- `keepdims=True`: positions coincide; reduced axes get `slice(None)`. -/
theorem C18_acceptSlice_keep (index : List Idx) (ndim : Nat) (reduced : List Nat)
    (hlen : index.length ≤ ndim) :
    (acceptSlice index ndim reduced true).inputIndex.length = ndim ∧
    ∀ j, j < ndim → (acceptSlice index ndim reduced true).inputIndex[j]? =
      if reduced.contains j = true then some fullSlice
      else ((acceptSlice index ndim reduced true).fullIndex.map toSliceIdx)[j]? :=
  acceptSlice_keep index ndim reduced hlen

/-- `keepdims=True`: the index on a reduced (size-`output_size`) axis is re-applied on the OUTPUT. -/
theorem C18_acceptSlice_keep_final (index : List Idx) (ndim : Nat) (reduced : List Nat)
    (hlen : index.length ≤ ndim) :
    ∀ j, j < ndim → (acceptSlice index ndim reduced true).finalIndex[j]? =
      ((acceptSlice index ndim reduced true).fullIndex[j]?).map
        (fun idx => if reduced.contains j = true then idx else extractIdx idx) :=
  acceptSlice_keep_final index ndim reduced hlen

example : selRows [2, 0] ([[1, 2], [3], [4, 5]].map List.sum) = (selRows [2, 0] [[1, 2], [3], [4, 5]]).map List.sum :=
  C18_slice_rows_commute _ _ _
example : (acceptSlice [.slice ⟨some 1, some 3, none⟩, .int 2] 3 [1] false).inputIndex
    = [.slice ⟨some 1, some 3, none⟩, fullSlice, .slice ⟨some 2, some 3, none⟩] := by decide
example : (acceptSlice [.slice ⟨some 1, some 3, none⟩, .int 2] 3 [1] false).inputIndex.length = 3 :=
  (C18_acceptSlice_nokeep _ 3 [1] (by decide)).1
example : (acceptSlice [.int 0, .int 0] 3 [1] true).inputIndex.length = 3 :=
  (C18_acceptSlice_keep _ 3 [1] (by decide)).1
example : (acceptSlice [.int 0, .int 0] 3 [1] true).finalIndex = [.int 0, .int 0, fullSlice] := by decide

end Dask.Props.C18
