/-
C11 — In-place operations only change the array they are applied to.  ONLY property theorems
(restated; proofs are one-liners from Lemmas/Hist) and non-vacuity examples.
Part 1 (L5): the collection store — expressions are immutable values, `_replace_expr` swaps x's
expression and drops x's lowered cache: frame theorem and cache soundness for ALL histories.
Part 2 (L1): `parse_assignment_indices` (slice branch) and the per-block arithmetic of
`setitem_array_expr` for slice / integer keys: the chunked assignment IS NumPy's assignment,
for ALL axis lengths, chunkings, slices (all signs and steps), broadcast or full values.
List / boolean / dask-array keys are NOT modelled (tied by search only).
-/
import DaskArrayModel.Lemmas.Hist
namespace Dask.Props.C11
open Dask.Py Dask.Py.PySlice Dask.Slicing Dask.Hist

/-! ### the store -/

/-- FRAME: an operation applied to `x` leaves the entry (expression AND cache) of every other
collection unchanged — also of collections derived from `x` earlier: they hold the old expression VALUE. -/
theorem C11_frame {K L} (mat : Expr K → L) (s : Store K L) (op : COp K) (y : Nat) (h : y ≠ op.target) :
    cstep mat s op y = s y :=
  Dask.Lemmas.Hist.cstep_frame mat s op y h

/-- … for every history -/
theorem C11_frame_history {K L} (mat : Expr K → L) (ops : List (COp K)) (s : Store K L) (y : Nat)
    (h : ∀ op ∈ ops, y ≠ op.target) : crun mat ops s y = s y :=
  Dask.Lemmas.Hist.crun_frame mat ops s y h

/-- the cache invariant `cache = some l → l = materialize expr` holds along every history -/
theorem C11_cache_invariant {K L} (mat : Expr K → L) (ops : List (COp K)) (s : Store K L) (h : Inv mat s) :
    Inv mat (crun mat ops s) :=
  Dask.Lemmas.Hist.crun_inv mat ops s h

/-- after ANY history a compute of ANY collection returns the NumPy meaning of its CURRENT
expression (never a stale lowered graph), given a sound `materialize`/`eval` (C01/C02). -/
theorem C11_compute_is_den {K L A} (I : Interp K A) (mat : Expr K → L) (eval : L → A)
    (sound : ∀ e, eval (mat e) = den I e) (ops : List (COp K)) (s : Store K L) (h : Inv mat s) (y : Nat) :
    computed mat eval (crun mat ops s) y = ((crun mat ops s) y).map (fun e => den I e.expr) :=
  Dask.Lemmas.Hist.computed_eq_den I mat eval sound _ (Dask.Lemmas.Hist.crun_inv mat ops s h) y

/-- … and a collection that no operation of the history was applied to keeps computing its
EARLIER value, whatever happened to the collections it was derived from. -/
theorem C11_others_keep_value {K L A} (I : Interp K A) (mat : Expr K → L) (eval : L → A)
    (sound : ∀ e, eval (mat e) = den I e) (ops : List (COp K)) (s : Store K L) (h : Inv mat s) (y : Nat)
    (hy : ∀ op ∈ ops, y ≠ op.target) :
    computed mat eval (crun mat ops s) y = (s y).map (fun e => den I e.expr) := by
  rw [C11_compute_is_den I mat eval sound ops s h y, C11_frame_history mat ops s y hy]

/-- `x[key] = z`: x's new meaning is NumPy's assignment applied to x's OLD meaning and z's meaning
(z may itself be derived from x: `x[1:] = x[:-1]`). -/
theorem C11_setitem_den {K L A} (I : Interp K A) (mat : Expr K → L) (s : Store K L) (x z : Nat) (key : K)
    (ex ez : Entry K L) (hx : s x = some ex) (hz : s z = some ez) :
    (cstep mat s (.setitem x key z) x).map (fun e => den I e.expr)
      = some (I.assign (den I ex.expr) key (den I ez.expr)) := by
  simp [cstep, hx, hz, replaceExpr, Store.set, den]

/-- `np.f(a, b, out=x)` -/
theorem C11_out_den {K L A} (I : Interp K A) (mat : Expr K → L) (s : Store K L) (x a b f : Nat)
    (ex ea eb : Entry K L) (hx : s x = some ex) (ha : s a = some ea) (hb : s b = some eb) :
    (cstep mat s (.outUfunc x a b f) x).map (fun e => den I e.expr)
      = some (I.f2 f (den I ea.expr) (den I eb.expr)) := by
  simp [cstep, hx, ha, hb, replaceExpr, Store.set, den]

/-- `x.compute_chunk_sizes()` changes x's chunk metadata, not its meaning -/
theorem C11_computeChunkSizes_den {K L A} (I : Interp K A) (mat : Expr K → L) (s : Store K L) (x : Nat)
    (ex : Entry K L) (hx : s x = some ex) :
    (cstep mat s (.computeChunkSizes x) x).map (fun e => den I e.expr) = some (den I ex.expr) := by
  simp [cstep, hx, replaceExpr, Store.set, den]

/-! ### `parse_assignment_indices` -/

/-- the recast slice selects the same positions, in reversed order when flagged -/
theorem parseAssign_sel (s : PySlice) (n : Int) (hn : 0 ≤ n) (hs : s.stp ≠ 0) :
    sel (parseAssign s n) n = if parseAssignReversed s n then (sel s n).reverse else sel s n :=
  Dask.Lemmas.Hist.parseAssign_sel s n hn hs

/-- `implied_shape` is the selection length (exactly when the selection is non-empty; never positive when it is empty) -/
theorem parseAssign_implied (s : PySlice) (n : Int) (hn : 0 ≤ n) (hs : s.stp ≠ 0) :
    (parseAssignImplied s n).toNat = (sel s n).length ∧
    (sel s n ≠ [] → parseAssignImplied s n = ((sel s n).length : Int)) :=
  Dask.Lemmas.Hist.parseAssign_implied s n hn hs

/-- the recast slice is concrete, increasing and inside the axis -/
theorem parseAssign_shape (s : PySlice) (n : Int) (hn : 0 ≤ n) (hs : s.stp ≠ 0) :
    ∃ A B m, parseAssign s n = ⟨some A, some B, some m⟩ ∧ 0 < m ∧ 0 ≤ A ∧ B ≤ n :=
  Dask.Lemmas.Hist.parseAssign_shape s n hn hs

/-! ### the per-block assignment of `setitem_array_expr` -/

/-- what the block task `[loc0, loc1)` writes at its local position `q` (block slice, value slice
`n_preceding … + block size`, read backwards for a recast slice, or the broadcast element) is what
NumPy's `x[s] = v` writes at global position `loc0 + q`. -/
theorem C11_setitem_block (s : PySlice) (n : Int) (hs : s.stp ≠ 0) (bcast : Bool)
    (loc0 loc1 q : Int) (h0 : 0 ≤ loc0) (h1 : loc1 ≤ n) (hq0 : 0 ≤ q) (hq1 : q < loc1 - loc0) :
    blockSource s n bcast loc0 loc1 q = npSourceB s n bcast (loc0 + q) :=
  Dask.Lemmas.Hist.blockSource_eq_npSource s n hs bcast loc0 loc1 q h0 h1 hq0 hq1

/-- 1-d: the concatenated block results are NumPy's `x[s] = v`, for every chunking -/
theorem C11_setitem_chunked_1d {α} (chunks : List Int) (hc : ∀ c ∈ chunks, 0 ≤ c) (x : Int → α) (s : PySlice)
    (hs : s.stp ≠ 0) (bcast : Bool) (v : Nat → α) :
    setitemChunked chunks x s bcast v = npAssign (isum chunks) x s bcast v :=
  Dask.Lemmas.Hist.setitemChunked_eq chunks hc x s hs bcast v

/-- n-d, per axis (slice and integer keys): same assigned positions, same value index tuple -/
theorem C11_setitem_block_nd (keys : List Key) (shape : List Int) (blk : List (Int × Int)) (q : List Int)
    (h : AxesOK keys shape blk q) :
    blockSourceND keys shape blk q = npSourceND keys shape (globalPos blk q) :=
  Dask.Lemmas.Hist.blockSourceND_eq keys shape blk q h

/-! ### non-vacuity and necessity -/

example : parseAssign ⟨some 7, some 3, some (-1)⟩ 8 = ⟨some 4, some 8, some 1⟩ ∧
    parseAssignImplied ⟨some 7, some 3, some (-1)⟩ 8 = 4 ∧ parseAssignReversed ⟨some 7, some 3, some (-1)⟩ 8 = true := by decide
example : sel (parseAssign ⟨none, none, some (-3)⟩ 10) 10 = [0, 3, 6, 9] ∧ sel ⟨none, none, some (-3)⟩ 10 = [9, 6, 3, 0] := by decide
/-- chunks (3,3,4), `x[::-3] = v` (v = 100,101,102,103): positions 9,6,3,0 receive v[0..3] -/
example : setitemChunked [3, 3, 4] (fun p => p) ⟨none, none, some (-3)⟩ false (fun k => 100 + (k : Int))
    = [103, 1, 2, 102, 4, 5, 101, 7, 8, 100] := by decide
example : npAssign 10 (fun p => p) ⟨none, none, some (-3)⟩ false (fun k => 100 + (k : Int))
    = [103, 1, 2, 102, 4, 5, 101, 7, 8, 100] := by decide
example : setitemPlan [[3, 3, 2]] [.slice ⟨none, none, some (-1)⟩] (.full [false])
    = [some ([.slice ⟨some 0, some 3, some 1⟩], [⟨some 7, some 4, some (-1)⟩]),
       some ([.slice ⟨some 0, some 3, some 1⟩], [⟨some 4, some 1, some (-1)⟩]),
       some ([.slice ⟨some 0, some 2, some 1⟩], [⟨some 1, none, some (-1)⟩])] := by decide
example : blockSourceND [.int (-1), .slice ⟨some 1, none, some 2⟩] [4, 6] [(2, 4), (3, 6)] [1, 0] = some [1] ∧
    npSourceND [.int (-1), .slice ⟨some 1, none, some 2⟩] [4, 6] [3, 3] = some [1] := by decide

/-- a store for the examples: `K = Unit`, lowered graph = the expression itself -/
def store0 : Store Unit (Expr Unit) := fun x => if x = 0 then some ⟨.src 0, some (.src 0)⟩ else none

/-- NECESSITY of dropping the cache in `_replace_expr`: keeping `_lowered_expr` breaks the invariant
(x would keep computing its pre-assignment value). -/
theorem C11_keep_cache_breaks_invariant :
    Inv id store0 ∧ ¬ Inv id (replaceExprKeepCache store0 0 (.setItem (.src 0) () (.src 1))) := by
  constructor
  · intro x e l hx hc
    unfold store0 at hx
    split at hx
    · simp at hx; subst hx; simp at hc; subst hc; rfl
    · simp at hx
  · intro h
    have := h 0 ⟨.setItem (.src 0) () (.src 1), some (.src 0)⟩ (.src 0)
      (by simp [replaceExprKeepCache, store0, Store.set]) rfl
    simp at this

/-- a derived collection keeps its value while its source is assigned to:
`y = f(x); x[key] = z; compute` — y's entry is untouched. -/
example : (crun id [COp.derive1 1 0 5, COp.setitem 0 () 0, COp.compute 0] store0 1).map (·.expr)
    = some (Expr.op1 5 (Expr.src 0)) := by
  simp [crun, cstep, store0, Store.set, replaceExpr]

end Dask.Props.C11
