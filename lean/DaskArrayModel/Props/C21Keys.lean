/-
C21 (extension "keys") — record keys at the STRING level.

dask_array/_frisky/graph_records.py: "Frisky matches a dependency by the *string* of its key, and
str(('x', np.int64(0))) != str(('x', 0))" — while the two tuples are `==` and hash equal in Python.
Props/C21.lean treats keys as abstract (`cfg.render`); a seeded change that kept an embedded reference
un-normalised ("it is equal to the normalised one") is invisible there.  Here keys carry the Python
type of every component (Model/RecordKeys.lean: `Comp`, `PKey`, `pyEq`, `keyStr`, `normalize` =
`_norm_key`, `resolve` / `records` = `_Flattener.resolve` / `_records` with KEY OBJECTS in the rewritten
arguments and STRINGS in the deps), tied to the real functions by the `rky.*` correspondence of
harness/props_ext/c21_keys.py on every run.

Hypotheses are decidable predicates on keys: `normalizable` (no `np.str_` / `np.bool_` component: those
are NOT `numbers.Integral`, `_norm_key` returns them unchanged — see `C21k_npstr_survives_witness`),
`canon` (plain `int` / `str` only), `plain` (strings made of name characters, so that `repr` needs no
escapes and cannot imitate the tuple syntax).
-/
import DaskArrayModel.Lemmas.RecordKeysResolve
namespace Dask.Props.C21Keys
open Dask.RecordKeys Dask.Lemmas.RecordKeys
open Dask.Graph (Node Args nodeRefs)

/-- `_norm_key` is idempotent -/
theorem C21k_normalize_idem (k : PKey) : normalize (normalize k) = normalize k :=
  normalize_idem k

/-- CANONICAL FORM.  A key without `np.str_` / `np.bool_` components normalises to a key of plain
`int` / `str` components only (no NumPy-kinded integer, no `bool` survives); without that hypothesis,
every component of the result is a plain int or a non-Integral component exactly as written; and a
canonical key is a fixed point. -/
theorem C21k_normalize_canonical (k : PKey) :
    (k.normalizable = true → (normalize k).canon = true) ∧
    (∀ cs, k = .tup cs → normalize k = .tup (cs.map Comp.norm) ∧
      ∀ c ∈ cs, (∃ v, c.norm = .int .py v) ∨ (c.norm = c ∧ c.isIntegral = false)) ∧
    (k.canon = true → normalize k = k) :=
  ⟨normalize_canon k, fun cs h => by subst h; exact ⟨rfl, fun c _ => Comp.norm_cases c⟩, canon_normalize k⟩

/-- the normalised key is `==` (Python equality, hence equal hash) to the key as written -/
theorem C21k_normalize_pyEq (k : PKey) : pyEq (normalize k) k = true :=
  normalize_pyEq k

/-- STRINGS.  On canonical keys `str` is injective and Python equality coincides with equality of
the strings — so matching by string and matching by `==` agree there … -/
theorem C21k_str_injective_on_canonical (a b : PKey)
    (ha : a.canon = true) (hb : b.canon = true) (pa : a.plain = true) (pb : b.plain = true) :
    (keyStr a = keyStr b → a = b) ∧ (pyEq a b = true ↔ keyStr a = keyStr b) := by
  refine ⟨keyStr_inj ha hb pa pb, ?_, ?_⟩
  · intro h
    have : a.val = b.val := by simpa [pyEq] using h
    rw [val_inj ha hb this]
  · intro h
    rw [keyStr_inj ha hb pa pb h]
    simp [pyEq]

/-- … while on keys as written they do NOT: `('x', np.int64(0)) == ('x', 0)` with different strings
(the premise of the seeded regression) -/
theorem C21k_raw_pyEq_not_str_witness :
    pyEq (.tup [.str false "x", .int (.np "int64") 0]) (.tup [.str false "x", .int .py 0]) = true ∧
    keyStr (.tup [.str false "x", .int (.np "int64") 0]) ≠ keyStr (.tup [.str false "x", .int .py 0]) := by
  decide

/-- `np.str_` and `np.bool_` components are not `numbers.Integral`: `_norm_key` keeps them, and the
string of the normalised key differs from the string of the `==` key with plain components -/
theorem C21k_npstr_survives_witness :
    normalize (.tup [.str true "x", .bool true true, .bool false true]) =
      .tup [.str true "x", .bool true true, .int .py 1] ∧
    pyEq (.tup [.str true "x", .int .py 0]) (.tup [.str false "x", .int .py 0]) = true ∧
    keyStr (normalize (.tup [.str true "x", .int .py 0])) ≠ keyStr (normalize (.tup [.str false "x", .int .py 0])) := by
  decide

/-- REFERENCES = DEPS (one `_Flattener.resolve` call, any term, any counter).  The strings of the key
objects embedded in the rewritten argument are, in order, the strings added to `deps`; in every lifted
record a string is looked up iff it is declared; and when no key of the term has an `np.str_` /
`np.bool_` component every embedded key is canonical. -/
theorem C21k_resolve_refs_eq_deps (parent : String) (t : Term) (n : Nat) :
    (resolve normalize parent t n).1.refStrs = (resolve normalize parent t n).2.2.2 ∧
    (∀ rec ∈ (resolve normalize parent t n).2.2.1, ∀ s, s ∈ refStrsL rec.args ↔ s ∈ rec.deps) ∧
    ((∀ k ∈ t.refs, k.normalizable = true) →
      (∀ k ∈ (resolve normalize parent t n).1.keys, k.canon = true) ∧
      ∀ rec ∈ (resolve normalize parent t n).2.2.1, ∀ k ∈ keysL rec.args, k.canon = true) :=
  ⟨(resolve_strs parent t n).1, (resolve_strs parent t n).2, resolve_canon parent t n⟩

/-- the same for every record `_records(key, node)` returns (fused `_execute_subgraph` tasks, dict
values and keyword values included): a worker resolving by string finds exactly the declared deps -/
theorem C21k_records_refs_eq_deps (key : PKey) (t : Term) (rs : List ORec)
    (h : records normalize key t = some rs) :
    (∀ rec ∈ rs, ∀ s, s ∈ refStrsL rec.args ↔ s ∈ rec.deps) ∧
    ((∀ k ∈ t.refs, k.normalizable = true) → ∀ rec ∈ rs, ∀ k ∈ keysL rec.args, k.canon = true) :=
  ⟨records_strs key t rs h, records_canon key t rs h⟩

/-- THE SEEDED REGRESSION is caught by the statement above: with "reuse the original reference when the
normalised key is `==` to it" the embedded string is not a declared dep and the key is not canonical -/
theorem C21k_reuse_witness :
    let t : Term := .ref (.tup [.str false "x", .int (.np "int64") 0])
    (resolve reuseIfEq "p" t 0).1.refStrs ≠ (resolve reuseIfEq "p" t 0).2.2.2 ∧
    (∃ k ∈ (resolve reuseIfEq "p" t 0).1.keys, k.canon = false) ∧
    (resolve normalize "p" t 0).1.refStrs = (resolve normalize "p" t 0).2.2.2 := by
  decide

/-- COMPLETENESS AT THE STRING LEVEL (composition with `C21_flatten_complete` through the refinement
`records_erase` of the abstract-key model): for every nested node of Model/Graph.lean, the sub-record
keys are pairwise distinct `"<parent>-sub<i>"`, and every string a worker looks up in any of the
records is the string of the NORMALISED form of an outer key the node references, or the key of a
lifted sub-record — so if every referenced outer key is produced under its normalised string,
every lookup succeeds. -/
theorem C21k_flatten_complete_str (key : PKey) (node : Node PKey String Nat) (main : ORec) (extra : List ORec)
    (h : records normalize key (ofNode node) = some (main :: extra))
    (produced : String → Prop) (hp : ∀ k ∈ nodeRefs node, produced (keyStr (normalize k))) :
    main.key = keyStr (normalize key) ∧
    (extra.map (·.key)).Nodup ∧
    (∀ r ∈ extra, ∃ i, 1 ≤ i ∧ r.key = subKey (keyStr (normalize key)) i) ∧
    ∀ r ∈ main :: extra, ∀ s ∈ refStrsL r.args, produced s ∨ ∃ r' ∈ extra, r'.key = s := by
  obtain ⟨h1, h2, h3⟩ := records_complete_str key node main extra h
  refine ⟨?_, h1, h2, ?_⟩
  · cases node with
    | taskRef k => simp [ofNode, records] at h
    | plist xs => simp [ofNode, records] at h
    | ptuple xs => simp [ofNode, records] at h
    | alias k =>
      simp only [ofNode, records] at h
      split at h
      · simp at h
      · simp at h; exact h.1 ▸ rfl
    | data v => simp [ofNode, records] at h; exact h.1 ▸ rfl
    | lit v => simp [ofNode, records] at h; exact h.1 ▸ rfl
    | list xs => simp [ofNode, records] at h; exact h.1 ▸ rfl
    | tuple xs => simp [ofNode, records] at h; exact h.1 ▸ rfl
    | task f kw xs => simp [ofNode, records] at h; exact h.1 ▸ rfl
  · intro r hr s hs
    rcases h3 r hr s hs with ⟨k, hk, rfl⟩ | h'
    · exact Or.inl (hp k hk)
    · exact Or.inr h'

/-! ### non-vacuity -/

/-- `('x', np.int64(0), True, np.uint8(3))` is normalizable, not canonical; its normal form is canonical and plain -/
def kRaw : PKey := .tup [.str false "x", .int (.np "int64") 0, .bool false true, .int (.np "uint8") 3]
example : kRaw.normalizable = true ∧ kRaw.canon = false := by decide
example : normalize kRaw = .tup [.str false "x", .int .py 0, .int .py 1, .int .py 3] := by decide
example : (normalize kRaw).canon = true ∧ (normalize kRaw).plain = true := by decide
example : keyStr kRaw = "('x', np.int64(0), True, np.uint8(3))" ∧ keyStr (normalize kRaw) = "('x', 0, 1, 3)" := by
  decide
example : keyStr (.tup [.str false "x"]) = "('x',)" ∧ keyStr (.tup [.str false "x", .int .py (-12)]) = "('x', -12)" := by
  decide

/-- `Task(f, TaskRef(('x', np.int64(0))), [Alias(('y', True))], Task(g, TaskRef(('x', 0))), q=TaskRef('z'))` under key `('out', np.int64(1))` -/
def nodeK : Node PKey String Nat :=
  .task "f" ["q"] (.cons (.taskRef (.tup [.str false "x", .int (.np "int64") 0]))
    (.cons (.plist (.cons (.alias (.tup [.str false "y", .bool false true])) .nil))
      (.cons (.task "g" [] (.cons (.taskRef (.tup [.str false "x", .int .py 0])) .nil))
        (.cons (.taskRef (.bare false "z")) .nil))))
example : (records normalize (.tup [.str false "out", .int (.np "int64") 1]) (ofNode nodeK)).map
    (fun rs => rs.map (fun r => (r.key, refStrsL r.args))) =
    some [("('out', 1)", ["('x', 0)", "('y', 1)", "('out', 1)-sub1", "z"]), ("('out', 1)-sub1", ["('x', 0)"])] := by
  decide
example : ∀ k ∈ (ofNode nodeK).refs, k.normalizable = true := by decide

end Dask.Props.C21Keys
