/-
C19 — windowed and scan operations match their NumPy definitions.

Property theorems only (proofs in Lemmas/Scan.lean, Lemmas/Window.lean), over the models
Model/Scan.lean and Model/Window.lean that mirror
  * `CumReduction._layer` / `CumReductionBlelloch._layer` (dask_array/reductions/_cumulative.py),
  * `supports_native_sliding_window`, `SlidingWindowReduction.chunks`, `._block_plan`
    (dask_array/reductions/_sliding_window.py),
  * `ensure_minimum_chunksize` (dask_array/_overlap.py),
and are tied to the code by harness/props/C19.py (families `sc.*`, `wn.*`).
Every theorem is for ALL inputs (no bound on block counts, chunk sizes, windows).

Not proved here (left to correspondence + search, see level_note): the `min_count` / NaN
masking applied on top of the moving-window combination, and the VALUE-level `overlapTrim_id`
(ArrayOverlapLayer is upstream dask, trusted; only its chunk arithmetic round trip and the
boundary index maps are proved).
-/
import DaskArrayModel.Lemmas.Scan
import DaskArrayModel.Lemmas.Window
namespace Dask.Props.C19
open Dask.Py Dask.Scan Dask.Window

variable {β α : Type}

/-- Sequential scan (`CumReduction._layer`): for any associative `op` with left identity
`ident` and any list of non-empty blocks, the concatenated output blocks are the global
inclusive scan of the concatenated input. -/
theorem seqScan_correct {op : β → β → β} (hop : Assoc op) (ident : β) (hid : ∀ x, op ident x = x)
    (bs : List (List β)) (hne : ∀ b ∈ bs, b ≠ []) :
    (seqBlocks op ident bs).flatten = scanl1 op bs.flatten :=
  Dask.Lemmas.Scan.seqScan_correct hop ident hid bs hne

/-- … and the output keeps the input's chunking. -/
theorem seqScan_chunks {op : β → β → β} (hop : Assoc op) (ident : β) (hid : ∀ x, op ident x = x)
    (bs : List (List β)) (hne : ∀ b ∈ bs, b ≠ []) :
    (seqBlocks op ident bs).map List.length = bs.map List.length :=
  Dask.Lemmas.Scan.seqBlocks_lengths hop ident hid bs hne

/-- Blelloch wiring (`CumReductionBlelloch._layer`), EVERY block count: the value block `i`
is combined with is the fold of the totals of blocks `[0, i)` (nothing for block 0). -/
theorem blellochOffsets_correct {op : β → β → β} (hop : Assoc op) (totals : List β) :
    blellochOffsets op totals = (List.range totals.length).map (fun i => ofold op (totals.take i)) :=
  Dask.Lemmas.Scan.blellochOffsets_correct hop totals

/-- Blelloch scan: for any associative `op`, any `preop` that folds a non-empty block, and any
list of non-empty blocks (any count), the concatenated output is the global inclusive scan. -/
theorem blellochScan_correct {op : β → β → β} (hop : Assoc op) (pre : List β → β)
    (hpre : ∀ x xs, pre (x :: xs) = xs.foldl op x) (bs : List (List β)) (hne : ∀ b ∈ bs, b ≠ []) :
    (blellochBlocks op pre bs).flatten = scanl1 op bs.flatten :=
  Dask.Lemmas.Scan.blellochScan_correct hop pre hpre bs hne

theorem blellochScan_chunks {op : β → β → β} (hop : Assoc op) (pre : List β → β)
    (hpre : ∀ x xs, pre (x :: xs) = xs.foldl op x) (bs : List (List β)) (hne : ∀ b ∈ bs, b ≠ []) :
    (blellochBlocks op pre bs).map List.length = bs.map List.length :=
  Dask.Lemmas.Scan.blellochBlocks_lengths hop pre hpre bs hne

/-- Native sliding-window plan, index level: under `supports_native_sliding_window`, every row
of `_block_plan` with a positive `out_len` names in-range blocks `i < b ≤ e < nblocks`, a
non-negative band offset that fits inside the band for every `t < out_len`, and `out_len ≤`
the block's own length. -/
theorem slidingPlan_inRange (chunks : List Int) (window : Int)
    (hsup : supportsNativeSliding chunks window = true) (i : Nat) (hi : i < chunks.length) :
    ∃ p, (slidingBlockPlan chunks window)[i]? = some p ∧
      p.outLen = max 0 (min (chunks.getD i 0) (isum chunks - window + 1 - blockStart chunks i)) ∧
      (0 < p.outLen →
        (i : Int) < p.b ∧ p.b ≤ p.e ∧ p.e.toNat < chunks.length ∧ 0 ≤ p.bandOffset ∧
        blockStart chunks p.b.toNat + p.bandOffset + p.outLen ≤ blockStart chunks (p.e.toNat + 1) ∧
        p.outLen ≤ chunks.getD i 0 ∧
        blockStart chunks i + p.outLen + window - 1 ≤ isum chunks) := by
  obtain ⟨p, hp, ok⟩ := Dask.Lemmas.Window.slidingPlan_ok chunks window hsup i hi
  exact ⟨p, hp, ok.outLen_eq, fun h => ⟨ok.i_lt_b h, ok.b_le_e h, ok.e_lt h, ok.off_nonneg h, ok.band_fits h,
    ok.own_le h, ok.in_array h⟩⟩

/-- Native sliding-window plan, data level: suffix of block `i` from `t` ++ whole middle blocks
`i+1 … b-1` ++ the first `band_offset + t + 1` elements of the band `b … e` is exactly the
window `x[start_i + t : start_i + t + W]`, which lies inside the array. -/
theorem slidingPlan_tiles (chunks : List Int) (window : Int)
    (hsup : supportsNativeSliding chunks window = true) (x : List α)
    (i : Nat) (hi : i < chunks.length) (p : SPlan)
    (hp : (slidingBlockPlan chunks window)[i]? = some p) (t : Int) (ht0 : 0 ≤ t) (ht : t < p.outLen) :
    slice x (blockStart chunks i + t) (blockStart chunks (i + 1))
        ++ (blocksRange chunks x (i + 1) p.b.toNat).flatten
        ++ ((blocksRange chunks x p.b.toNat (p.e.toNat + 1)).flatten).take (p.bandOffset + t + 1).toNat
      = slice x (blockStart chunks i + t) (blockStart chunks i + t + window)
    ∧ blockStart chunks i + t + window ≤ isum chunks :=
  Dask.Lemmas.Window.slidingPlan_tiles chunks window hsup x i hi p hp t ht0 ht

/-- … hence for any associative `op`: `suffix_scan[t] ⊕ totals(middle) ⊕ prefix_scan[band_offset+t]`
(the combination `_sliding_window_banded_reduce` computes) is the reduction of that window. -/
theorem slidingPlan_correct {op : α → α → α} (hop : Assoc op) (chunks : List Int) (window : Int)
    (hsup : supportsNativeSliding chunks window = true) (x : List α)
    (i : Nat) (hi : i < chunks.length) (p : SPlan)
    (hp : (slidingBlockPlan chunks window)[i]? = some p) (t : Int) (ht0 : 0 ≤ t) (ht : t < p.outLen) :
    oop op
      ((blocksRange chunks x (i + 1) p.b.toNat).foldl (fun a blk => oop op a (ofold op blk))
        (ofold op (slice x (blockStart chunks i + t) (blockStart chunks (i + 1)))))
      (ofold op (((blocksRange chunks x p.b.toNat (p.e.toNat + 1)).flatten).take (p.bandOffset + t + 1).toNat))
    = ofold op (slice x (blockStart chunks i + t) (blockStart chunks i + t + window)) :=
  Dask.Lemmas.Window.slidingPlan_correct hop chunks window hsup x i hi p hp t ht0 ht

/-- `SlidingWindowReduction.chunks` (trim arithmetic): the output chunk lengths along the sliding
axis sum to `n - W + 1`, and they are exactly the positive `out_len`s of the plan, in order. -/
theorem slidingWindowReduction_chunks (chunks : List Int) (window : Int) (hcs : ∀ c ∈ chunks, 0 < c)
    (hw : 1 ≤ window) (hn : window ≤ isum chunks) :
    isum (slidingOutChunks chunks window) = isum chunks - window + 1 ∧
    slidingOutChunks chunks window
      = ((slidingBlockPlan chunks window).map (·.outLen)).takeWhile (fun v => decide (0 < v)) :=
  ⟨Dask.Lemmas.Window.slidingOutChunks_sum chunks window (fun c hc => by have := hcs c hc; omega) hw hn,
   Dask.Lemmas.Window.slidingOutChunks_eq_plan chunks window hcs⟩

/-- Native moving-window (`bottleneck.move_*`) plan, index level: under
`supports_native_moving_window` the first block has no band and no clipping beyond the array
start; every later block `i` has band blocks `0 ≤ g ≤ h < i`, middle blocks `h+1 … i-1`, a
non-negative band offset and `0 ≤ n_trunc ≤ c`, and for every `t < c` the clipped left edge
`max(0, start_i + t - W + 1)` is band position `band_offset + max(0, t - n_trunc)`, inside block ≤ `h`. -/
theorem movingPlan_inRange (chunks : List Int) (window : Int)
    (hsup : supportsNativeMoving chunks window = true) (i : Nat) (hi : i < chunks.length) :
    ∃ m, (movingBlockPlan chunks window)[i]? = some m ∧
      m.start = blockStart chunks i ∧ m.c = chunks.getD i 0 ∧
      (i = 0 → m.g = none ∧ m.h = none ∧ m.midLo = 0 ∧ m.midHi = 0 ∧
        ∀ t, 0 ≤ t → t < m.c → leftEdge chunks window i t = 0) ∧
      (0 < i → ∃ g h : Int, m.g = some g ∧ m.h = some h ∧ 0 ≤ g ∧ g ≤ h ∧ h.toNat < i ∧
        m.midLo = h + 1 ∧ m.midHi = i ∧ 0 ≤ m.bandOffset ∧ 0 ≤ m.nTrunc ∧ m.nTrunc ≤ m.c ∧
        ∀ t, 0 ≤ t → t < m.c →
          leftEdge chunks window i t = blockStart chunks g.toNat + m.bandOffset + max 0 (t - m.nTrunc) ∧
          leftEdge chunks window i t < blockStart chunks (h.toNat + 1)) := by
  obtain ⟨m, hm, ok⟩ := Dask.Lemmas.Window.movingPlan_ok chunks window hsup i hi
  exact ⟨m, hm, ok.start_eq, ok.c_eq, ok.first, ok.rest⟩

/-- Native moving-window plan, data level: the band suffix from `band_offset + max(0, t - n_trunc)`
++ the whole middle blocks ++ the first `t + 1` elements of block `i` is exactly the clipped
trailing window `x[max(0, j - W + 1) : j + 1]`, `j = start_i + t`. -/
theorem movingPlan_tiles (chunks : List Int) (window : Int)
    (hsup : supportsNativeMoving chunks window = true) (x : List α)
    (i : Nat) (hi : i < chunks.length) (m : MPlan)
    (hm : (movingBlockPlan chunks window)[i]? = some m) (t : Int) (ht0 : 0 ≤ t) (ht : t < m.c) :
    (movingBand chunks x m).drop (m.bandOffset + max 0 (t - m.nTrunc)).toNat
        ++ (blocksRange chunks x m.midLo.toNat m.midHi.toNat).flatten
        ++ slice x (blockStart chunks i) (blockStart chunks i + t + 1)
      = slice x (leftEdge chunks window i t) (blockStart chunks i + t + 1)
    ∧ blockStart chunks i + t + 1 ≤ isum chunks :=
  Dask.Lemmas.Window.movingPlan_tiles chunks window hsup x i hi m hm t ht0 ht

/-- … hence for any associative `op` (the reducer's ufunc on NaN-substituted values; `+` on the
valid-count plane): the combination `_moving_window_banded_reduce` forms for position `t`
(written in window order) is the reduction of the clipped trailing window. -/
theorem movingPlan_correct {op : α → α → α} (hop : Assoc op) (chunks : List Int) (window : Int)
    (hsup : supportsNativeMoving chunks window = true) (x : List α)
    (i : Nat) (hi : i < chunks.length) (m : MPlan)
    (hm : (movingBlockPlan chunks window)[i]? = some m) (t : Int) (ht0 : 0 ≤ t) (ht : t < m.c) :
    oop op
      ((blocksRange chunks x m.midLo.toNat m.midHi.toNat).foldl (fun a blk => oop op a (ofold op blk))
        (ofold op ((movingBand chunks x m).drop (m.bandOffset + max 0 (t - m.nTrunc)).toNat)))
      (ofold op (slice x (blockStart chunks i) (blockStart chunks i + t + 1)))
    = ofold op (slice x (leftEdge chunks window i t) (blockStart chunks i + t + 1)) :=
  Dask.Lemmas.Window.movingPlan_correct hop chunks window hsup x i hi m hm t ht0 ht

/-- `ensure_minimum_chunksize(size, chunks)` on non-negative chunks: the sum is preserved and
EVERY output chunk is at least `size` (a single chunk only arises as a special case of that);
it raises (`none`) exactly when the whole axis is shorter than `size`. -/
theorem ensureMinimumChunksize_spec (size : Int) (chunks : List Int) (hne : chunks ≠ [])
    (hpos : ∀ c ∈ chunks, 0 ≤ c) :
    match ensureMinimumChunksize size chunks with
    | some out => isum out = isum chunks ∧ (∀ c ∈ out, size ≤ c) ∧ out ≠ []
    | none => isum chunks < size :=
  Dask.Lemmas.Window.ensureMinimumChunksize_spec size chunks hne hpos

/-- The boundary kinds of `overlap` / `map_overlap` are the NumPy pad index maps, for every
axis length `n > 0`, every depth `0 ≤ depth ≤ n` and every padded position: `periodic` = `wrap`,
`reflect` = `symmetric`, `nearest` = `edge`, a constant fills exactly the positions outside the
array; every non-constant source lies inside the array. -/
theorem boundaryKinds_numpy_pad (n depth p : Int) (hn : 0 < n) (_hd0 : 0 ≤ depth) (hdn : depth ≤ n)
    (hp0 : 0 ≤ p) (hp : p < n + 2 * depth) :
    boundarySrc .periodic n depth p = some (padWrap n (p - depth)) ∧
    boundarySrc .reflect n depth p = some (padSymmetric n (p - depth)) ∧
    boundarySrc .nearest n depth p = some (padEdge n (p - depth)) ∧
    boundarySrc .constant n depth p = (if 0 ≤ p - depth ∧ p - depth < n then some (p - depth) else none) ∧
    (0 ≤ padWrap n (p - depth) ∧ padWrap n (p - depth) < n) ∧
    (0 ≤ padSymmetric n (p - depth) ∧ padSymmetric n (p - depth) < n) ∧
    (0 ≤ padEdge n (p - depth) ∧ padEdge n (p - depth) < n) := by
  have r := Dask.Lemmas.Window.pad_ranges n (p - depth) hn (by omega) (by omega)
  exact ⟨Dask.Lemmas.Window.boundarySrc_periodic n depth p, Dask.Lemmas.Window.boundarySrc_reflect n depth p,
    Dask.Lemmas.Window.boundarySrc_nearest n depth p hn, Dask.Lemmas.Window.boundarySrc_constant n depth p,
    r.1, r.2.1, r.2.2⟩

/-- Chunk arithmetic of overlap then trim (boundary "none"): `trim_internal`'s chunks of
`_overlap_internal_chunks(chunks, (left, right))` are the original chunks, for every chunk list
and all depths. -/
theorem overlapTrim_chunks_id (cks : List Int) (l r : Int) :
    trimInternalChunks (overlapInternalChunks cks l r) l r true = cks :=
  Dask.Lemmas.Window.overlapTrim_chunks_id cks l r

/-! ### non-vacuity -/

/-- associativity / identity hypotheses are satisfiable and the models compute something -/
example : seqBlocks (· + ·) (0 : Int) [[1, 2], [3], [4, 5, 6]] = [[1, 3], [6], [10, 15, 21]] := by decide

example : (seqBlocks (· + ·) (0 : Int) [[1, 2], [3], [4, 5, 6]]).flatten = scanl1 (· + ·) [1, 2, 3, 4, 5, 6] :=
  seqScan_correct (fun a b c => Int.add_assoc a b c) 0 (fun x => Int.zero_add x) _ (by decide)

/-- 7 blocks (not a power of two): up-sweep and down-sweep both fire -/
example : blellochSteps 6 = [⟨1, 1⟩, ⟨3, 1⟩, ⟨5, 1⟩, ⟨3, 2⟩, ⟨5, 2⟩, ⟨2, 1⟩, ⟨4, 1⟩] := by decide

example : blellochOffsets (· + ·) ([1, 2, 3, 4, 5, 6, 7] : List Int)
    = [none, some 1, some 3, some 6, some 10, some 15, some 21] := by decide

/-- a non-commutative associative operation (list append) -/
example : blellochOffsets (· ++ ·) [[0], [1], [2], [3], [4], [5]]
    = [none, some [0], some [0, 1], some [0, 1, 2], some [0, 1, 2, 3], some [0, 1, 2, 3, 4]] := by decide

example : (blellochBlocks (· + ·) (fun l => l.foldl (· + ·) (0 : Int)) [[1, 2], [3], [4, 5, 6], [7]]).flatten
    = scanl1 (· + ·) [1, 2, 3, 4, 5, 6, 7] :=
  blellochScan_correct (fun a b c => Int.add_assoc a b c) _ (fun x xs => by simp [List.foldl_cons]) _ (by decide)

/-- the guard is satisfiable, the plan has rows with positive `out_len`, windows span several
blocks (W = 4 over unit blocks: one middle… two middle blocks and a band) -/
example : supportsNativeSliding [1, 1, 1, 1, 1, 1] 4 = true := by decide
example : slidingBlockPlan [1, 1, 1, 1, 1, 1] 4
    = [⟨1, 0, 3, 3⟩, ⟨1, 0, 4, 4⟩, ⟨1, 0, 5, 5⟩, ⟨0, 0, 3, 3⟩, ⟨0, 0, 4, 4⟩, ⟨0, 0, 5, 5⟩] := by decide
example : supportsNativeSliding [2, 2, 2, 2] 4 = true ∧
    slidingBlockPlan [2, 2, 2, 2] 4 = [⟨2, 1, 1, 2⟩, ⟨2, 1, 2, 3⟩, ⟨1, 1, 3, 3⟩, ⟨0, 0, 3, 3⟩] ∧
    slidingOutChunks [2, 2, 2, 2] 4 = [2, 2, 1] := by decide
/-- the guard refuses what the overlap path keeps -/
example : supportsNativeSliding [4, 4] 3 = false := by decide

example : supportsNativeMoving [2, 3, 2] 4 = true ∧
    movingBlockPlan [2, 3, 2] 4
      = [⟨0, 2, 0, none, none, 0, 0, 2⟩, ⟨2, 3, 0, some 0, some 0, 1, 1, 1⟩, ⟨5, 2, 0, some 1, some 1, 2, 2, 0⟩] := by decide
/-- a window spanning several unit blocks: band + two middle blocks -/
example : supportsNativeMoving [1, 1, 1, 1, 1] 4 = true ∧
    (movingBlockPlan [1, 1, 1, 1, 1] 4)[4]? = some ⟨4, 1, 0, some 1, some 1, 2, 4, 0⟩ := by decide

example : (List.range 8).map (fun (p : Nat) => boundarySrc .reflect 4 2 p) = [some 1, some 0, some 0, some 1, some 2, some 3, some 3, some 2] := by decide
example : (List.range 8).map (fun (p : Nat) => boundarySrc .periodic 4 2 p) = [some 2, some 3, some 0, some 1, some 2, some 3, some 0, some 1] := by decide
example : overlapInternalChunks [3, 4, 5] 1 2 = [5, 7, 6] ∧ trimInternalChunks [5, 7, 6] 1 2 true = [3, 4, 5] := by decide

example : ensureMinimumChunksize 10 [20, 20, 1] = some [20, 11, 10] := by decide
example : ensureMinimumChunksize 3 [1, 1, 3] = some [5] := by decide
example : ensureMinimumChunksize 5 [1, 1, 2] = none := by decide

end Dask.Props.C19
