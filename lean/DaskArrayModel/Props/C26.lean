/-
C26 — xarray integration is strictly opt-in.

Decided over the table `Generated/ImportGraph.lean`, which harness/translate/imports.py regenerates from
/repo's working tree on every run (module-scope import edges, name-resolved call edges, the functions whose
own code writes into xarray's chunk-manager registry, pyproject entry-point groups).  Nodes `0 … M-1` are the
modules of dask_array (their module-scope code), `M …` the functions/methods.

What is proved (paths of ANY length; `kernel_decide` (= `decide +kernel` with a cheap failure path, Lemmas/KernelDecide.lean)
only evaluates the finite closedness checks, the lift to
unbounded paths is `closed_set_sound` / `backward_closed_sound`, proved in general in Lemmas/Closure.lean):
* `C26_import_never_registers`  every module reachable through module-scope imports from ANY module (an import
  order only chooses which roots are imported) has no module-scope call into a registering function;
* `C26_no_import_reaches_registry`  stronger, over imports ∪ calls: no module's import can reach, through any
  chain of module-scope imports, module-scope calls, calls inside called functions and imports inside called
  functions, a function that writes into the registry;
* `C26_registering_complete`  the generated list `canReachSeed` (the "registering" functions) is complete:
  every node with a path to a registry write is listed — so the Python fix-point is checked, not trusted;
* `C26_xarray_module_import_safe`  the module(s) that contain the registry write (dask_array._xarray) are
  themselves import-safe;   * `C26_no_entry_point`.
Thin spots (honest): the call graph is name-resolved (calls through objects of unknown type are invisible);
the fresh-interpreter experiment in harness/props/C26.py is the tie to the running code.
-/
import DaskArrayModel.Generated.ImportGraph
import DaskArrayModel.Lemmas.Closure
import DaskArrayModel.Lemmas.KernelDecide
namespace Dask.Props.C26
open Dask.Closure Dask.Generated.ImportGraph

/-- imports ∪ calls over the joint node space -/
def graph : Edges := importEdges ++ callEdges

/-- Every import order: whatever module `m` is imported (first, last, alone), every module `n` that its
import executes — through module-scope imports, any depth — makes no module-scope call into a
registering function. -/
theorem C26_import_never_registers :
    ∀ m, m < modules.length → ∀ n, Reach importEdges m n → n ∉ moduleScopeCallsIntoRegistering :=
  importSafe_sound (by kernel_decide)

/-- Over imports AND calls: importing any module of dask_array cannot reach (by any chain of module-scope
imports, module-scope calls, nested calls, function-level imports) code that writes xarray's registry. -/
theorem C26_no_import_reaches_registry :
    ∀ m, m < modules.length → ∀ s ∈ registrySeeds, ¬ Reach graph m s :=
  noRootReachesSeed_sound (mask := canReachSeedMask) (by kernel_decide)

/-- The generated set of registering functions is complete (every node that reaches a registry write
by any path is in it). -/
theorem C26_registering_complete :
    ∀ a, ∀ s ∈ registrySeeds, Reach graph a s → inMask canReachSeedMask a = true :=
  backward_closure_complete (by kernel_decide) (by kernel_decide)

/-- The modules that contain the registry-writing code are import-safe themselves:
importing `dask_array._xarray` registers nothing (only calling `register()` does). -/
theorem C26_xarray_module_import_safe :
    ∀ m ∈ seedModules, m < modules.length ∧ ∀ s ∈ registrySeeds, ¬ Reach graph m s := by
  intro m hm
  have hlt : m < modules.length := by
    have h : seedModules.all (fun m => decide (m < modules.length)) = true := by kernel_decide
    exact of_decide_eq_true ((List.all_eq_true.mp h) m hm)
  exact ⟨hlt, C26_no_import_reaches_registry m hlt⟩

/-- no `xarray.chunkmanagers` entry point is shipped (installing the package activates nothing) -/
theorem C26_no_entry_point : "xarray.chunkmanagers" ∉ entryPointGroups := by decide

/-! ### non-vacuity: the decision procedures can say NO, and a NO is a real path -/

/-- tiny graph: a → b → c, module c calls a registering function at module scope -/
example : importSafe 3 [(0, 1), (1, 2)] [2] = false := by decide

/-- … and the obligation really FAILS there (not just the checker): c is reachable from a -/
example : ¬ (∀ m, m < 3 → ∀ n, Reach [(0, 1), (1, 2)] m n → n ∉ [2]) := by
  intro h
  have h01 : ((0 : Nat), (1 : Nat)) ∈ [((0 : Nat), (1 : Nat)), (1, 2)] := by decide
  have h12 : ((1 : Nat), (2 : Nat)) ∈ [((0 : Nat), (1 : Nat)), (1, 2)] := by decide
  exact h 0 (by decide) 2 (Reach.step (Reach.edge h01) h12) (by decide)

/-- the computed closure finds it: `reachable` from root 0 lists node 2 (and by `reachable_sound`
everything it lists is reachable) -/
example : (reachable [(0, 1), (1, 2)] [0]).contains 2 = true := by decide

/-- call-graph version: module 0 imports module 1, which at module scope calls function 3, which calls
the registry-writing function 4 (2 modules, nodes 2.. are functions): the check rejects every candidate
closure that omits a module … -/
example : noRootReachesSeed 2 [(0, 1), (1, 3), (3, 4)] [4] (maskOf [4, 3]) = false := by decide
example : noRootReachesSeed 2 [(0, 1), (1, 3), (3, 4)] [4] (maskOf [4, 3, 1, 0]) = false := by decide
/-- … and accepts when the call is inside a function nobody calls at import (the opt-in shape:
`register` = 3 calls `_ensure_registered` = 4; modules 0, 1 only import) -/
example : noRootReachesSeed 2 [(0, 1), (3, 4), (3, 1)] [4] (maskOf [4, 3]) = true := by decide

/-- the real table is not degenerate: there IS a registry write, and something besides it reaches it
(`register`), so the theorems above are not vacuous quantifications over an empty seed set -/
example : registrySeeds ≠ [] ∧ registrySeeds.length < canReachSeed.length ∧
    canReachSeed.all (fun i => inMask canReachSeedMask i) = true := by kernel_decide

example : "xarray.chunkmanagers" ∈ ["console_scripts", "xarray.chunkmanagers"] := by decide

end Dask.Props.C26
