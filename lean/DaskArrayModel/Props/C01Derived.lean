/-
C01 (phase 3, derived forms) — `roll`, `stack`, `diff`, `swapaxes`, `moveaxis`, `atleast_nd` are
built from the constructors of `Expr` exactly as the implementation builds them from its own public
ops (Model/ExprDerived.lean).  ONLY property theorems (restated; proofs in Lemmas/ExprDerived.lean)
and non-vacuity examples.  For each form:
  `C01d_wf_<op>`    the derived form is well-formed when the arguments satisfy the obvious conditions;
  `C01d_den_<op>`   its NumPy meaning `den` IS the NumPy-style spec of the op (index arithmetic);
and, with the phase-1 refinement theorem (which holds for EVERY well-formed `Expr`), the blocks the
tasks compute assemble to the spec (`C01d_compute_roll`, stated once for `roll`; the same one-liner
works for every form).
-/
import DaskArrayModel.Lemmas.ExprDerived
namespace Dask.Props.C01Derived
open Dask.Py Dask.ND

/-! ### roll -/

theorem C01d_wf_roll (e : Expr) (shift : Int) (ax : Nat) (hw : WF e) (hax : ax < (shape e).length) :
    WF (e.roll shift ax) :=
  wf_roll e shift ax hw hax

/-- `den (roll e s ax) = np.roll`: `out[.., i, ..] = x[.., (i - s) mod n, ..]` -/
theorem C01d_den_roll (env : Env) (e : Expr) (shift : Int) (ax : Nat) (hax : ax < (shape e).length) :
    Arr.Equiv (den env (e.roll shift ax)) (rollArr (den env e) shift ax) :=
  den_roll env e shift ax hax

/-- … hence the computed blocks of the concatenate-of-two-slices graph assemble to `np.roll` -/
theorem C01d_compute_roll (env : Env) (henv : EnvOK env) (e : Expr) (shift : Int) (ax : Nat)
    (hw : WF e) (hax : ax < (shape e).length) :
    Arr.Equiv (compute env (e.roll shift ax)) (rollArr (den env e) shift ax) :=
  (compute_eq_den env henv _ (wf_roll e shift ax hw hax)).trans (den_roll env e shift ax hax)

/-! ### stack -/

theorem C01d_wf_stack (sh : List Nat) (cl : Layout) (ax : Nat) (es : List Expr) (r : Expr)
    (hes : ∀ e ∈ es, WF e ∧ shape e = sh ∧ chunks e = cl) (hax : ax ≤ sh.length)
    (h : Expr.stackN es ax = some r) : WF r :=
  wf_stackN sh cl ax es r hes hax h

/-- `den (stack es ax) = np.stack`: `out[.., k, ..] = es[k][..]` -/
theorem C01d_den_stack (env : Env) (sh : List Nat) (cl : Layout) (ax : Nat) (es : List Expr) (r : Expr)
    (hes : ∀ e ∈ es, WF e ∧ shape e = sh ∧ chunks e = cl) (hax : ax ≤ sh.length)
    (h : Expr.stackN es ax = some r) :
    Arr.Equiv (den env r) (stackArr sh (es.map (den env)) ax) :=
  den_stackN env sh cl ax es r hes hax h

/-! ### diff -/

/-- well-formed when the two shifted slices carry the same chunks (e.g. one block on the axis) … -/
theorem C01d_wf_diff (f : Nat) (e : Expr) (ax : Nat) (hw : WF e) (hax : ax < (shape e).length)
    (hc : chunks (.slice e (axisIx (shape e).length ax ⟨some 1, none, none⟩))
      = chunks (.slice e (axisIx (shape e).length ax ⟨none, some (-1), none⟩))) :
    WF (Expr.diff f e ax) :=
  wf_diff f e ax hw hax hc

/-- … and for every chunking once both slices are rechunked to a common layout `l` of the result
shape (what `Elemwise` does after chunk unification; the choice of `l` is C17's subject) -/
theorem C01d_wf_diffU (f : Nat) (e : Expr) (ax : Nat) (l : Layout) (hw : WF e) (hax : ax < (shape e).length)
    (hl : wfLayout ((shape e).set ax ((shape e).getD ax 0 - 1)) l = true) :
    WF (Expr.diffU f e ax l) :=
  wf_diffU f e ax l hw hax hl

/-- `den (diff e ax) = np.diff`: `out[.., i, ..] = x[.., i + 1, ..] - x[.., i, ..]` -/
theorem C01d_den_diff (env : Env) (f : Nat) (e : Expr) (ax : Nat) (hax : ax < (shape e).length) :
    Arr.Equiv (den env (Expr.diff f e ax)) (diffArr (env.bin f) (den env e) ax) :=
  den_diff env f e ax hax

theorem C01d_den_diffU (env : Env) (f : Nat) (e : Expr) (ax : Nat) (l : Layout) (hax : ax < (shape e).length) :
    Arr.Equiv (den env (Expr.diffU f e ax l)) (diffArr (env.bin f) (den env e) ax) :=
  den_diffU env f e ax l hax

/-! ### swapaxes, moveaxis -/

theorem C01d_wf_swapaxes (e : Expr) (a b : Nat) (hw : WF e) (ha : a < (shape e).length)
    (hb : b < (shape e).length) : WF (e.swapaxes a b) :=
  wf_swapaxes e a b hw ha hb

/-- `den (swapaxes e a b) = np.swapaxes`: `out[i] = x[i with entries a and b exchanged]` -/
theorem C01d_den_swapaxes (env : Env) (e : Expr) (a b : Nat) (ha : a < (shape e).length)
    (hb : b < (shape e).length) :
    Arr.Equiv (den env (e.swapaxes a b)) (swapArr (den env e) a b) :=
  den_swapaxes env e a b ha hb

/-- the order built by `moveaxis` is a permutation of the axes -/
theorem C01d_moveaxis_perm (rank src dst : Nat) (hs : src < rank) (hd : dst < rank) :
    (moveaxisPerm rank src dst).Perm (List.range rank) :=
  moveaxisPerm_perm rank src dst hs hd

theorem C01d_wf_moveaxis (e : Expr) (src dst : Nat) (hw : WF e) (hs : src < (shape e).length)
    (hd : dst < (shape e).length) : WF (e.moveaxis src dst) :=
  wf_moveaxis e src dst hw hs hd

/-! ### atleast_nd -/

theorem C01d_wf_atleastNd (e : Expr) (ndim : Nat) (hw : WF e) : WF (e.atleastNd ndim) :=
  wf_atleastNd e ndim hw

/-- `den (atleast_nd e ndim)`: `ndim - rank` leading axes of length 1 -/
theorem C01d_den_atleastNd (env : Env) (e : Expr) (ndim : Nat) :
    Arr.Equiv (den env (e.atleastNd ndim)) (leadingArr (den env e) (ndim - (shape e).length)) :=
  den_atleastNd env e ndim

/-! non-vacuity: a 2-D source 4×5 with chunks ((2,2),(3,2)) -/

def exEnv : Env :=
  { src := fun _ => ⟨[4, 5], fun i => (flatIndex [4, 5] i : Int)⟩
    un := fun _ x => -x
    bin := fun _ x y => x - y }
def exSrc : Expr := .src 0 [4, 5] [[2, 2], [3, 2]]

-- roll by 2 (and by -3, the same rotation) along axis 1: chunks follow the two slices
example : WF (exSrc.roll 2 1) ∧ chunks (exSrc.roll 2 1) = [[2, 2], [2, 3]] := by decide
example : (den exEnv (exSrc.roll 2 1)).toList.take 5 = [3, 4, 0, 1, 2] := by decide
example : (rollArr (den exEnv exSrc) 2 1).toList.take 5 = [3, 4, 0, 1, 2] := by decide
example : (den exEnv (exSrc.roll (-3) 1)).toList.take 5 = [3, 4, 0, 1, 2] := by decide
#guard (compute exEnv (exSrc.roll 2 1)).toList == (rollArr (den exEnv exSrc) 2 1).toList
-- shift 7 on an axis of length 4: s = -7 % 4 = 1, chunks (1,2) ++ (1,)
example : chunks (exSrc.roll 7 0) = [[1, 2, 1], [3, 2]] := by decide
#guard (blockDen exEnv (exSrc.roll 7 0) [1, 1]).toList == [13, 14, 18, 19]
-- a zero-length axis rolls to itself
example : WF ((Expr.src 0 [0, 2] [[0], [2]]).roll 3 0) := by decide
-- stack of two arrays along a new middle axis
def exStack : Expr := (Expr.stackN [exSrc, .map 0 exSrc] 1).getD exSrc
example : WF exStack ∧ shape exStack = [4, 2, 5] ∧ chunks exStack = [[2, 2], [1, 1], [3, 2]] := by decide
example : (den exEnv exStack).toList.take 10 = [0, 1, 2, 3, 4, 0, -1, -2, -3, -4] := by decide
#guard (blockDen exEnv exStack [1, 1, 0]).toList == [-10, -11, -12, -15, -16, -17]
-- diff along axis 0 needs a common layout: x[1:] has chunks (1,2), x[:-1] has chunks (2,1)
example : chunks (.slice exSrc (axisIx 2 0 ⟨some 1, none, none⟩)) = [[1, 2], [3, 2]] ∧
    chunks (.slice exSrc (axisIx 2 0 ⟨none, some (-1), none⟩)) = [[2, 1], [3, 2]] := by decide
example : ¬ WF (Expr.diff 0 exSrc 0) := by decide
example : WF (Expr.diffU 0 exSrc 0 [[1, 1, 1], [3, 2]]) := by decide
#guard (den exEnv (Expr.diffU 0 exSrc 0 [[1, 1, 1], [3, 2]])).toList == List.replicate 15 5
#guard (compute exEnv (Expr.diffU 0 exSrc 0 [[1, 1, 1], [3, 2]])).toList == List.replicate 15 5
-- … along axis 1 of a single-chunk axis the plain form is well-formed
example : WF (Expr.diff 0 (.src 0 [4, 5] [[2, 2], [5]]) 1) := by decide
-- swapaxes / moveaxis
example : swapPerm 4 1 3 = [0, 3, 2, 1] ∧ moveaxisPerm 4 0 2 = [1, 2, 0, 3] ∧ moveaxisPerm 4 3 0 = [3, 0, 1, 2] := by
  decide
example : WF (exSrc.swapaxes 0 1) ∧ shape (exSrc.swapaxes 0 1) = [5, 4] := by decide
example : (den exEnv (exSrc.swapaxes 0 1)).toList.take 4 = [0, 5, 10, 15] := by decide
example : (swapArr (den exEnv exSrc) 0 1).toList.take 4 = [0, 5, 10, 15] := by decide
-- atleast_nd
example : shape (exSrc.atleastNd 4) = [1, 1, 4, 5] ∧ chunks (exSrc.atleastNd 4) = [[1], [1], [2, 2], [3, 2]] ∧
    exSrc.atleastNd 1 = exSrc := by decide

end Dask.Props.C01Derived
