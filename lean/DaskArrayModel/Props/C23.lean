/-
C23 — A random array is one fixed realization.  ONLY property theorems (restated; proofs are
one-liners from Lemmas/Hist) and non-vacuity examples.  Model: Model/Hist.lean (`Random` node =
parameters + per-block seed vector drawn at construction; histories of computes / derived
computations / pickles / further draws from the live generator / rebuilds).
Every statement is for ALL seeds, generator states, block grids (all ranks), abstract `spawn`
functions and histories.
-/
import DaskArrayModel.Lemmas.Hist
namespace Dask.Props.C23
open Dask.Hist

/-- Along ANY history, the node held by `x` keeps its seed vector, and every seed used by any
task (of `x.compute()`, of a derived computation after culling/rewrites, after pickling, after a
rebuild from the same seed, after other arrays were drawn from the same generator) is the seed
`seeds[flat index of the block]` of the ORIGINAL node.  (Scalar distribution parameters:
`deps = []`; see `C23_array_param_witness`.) -/
theorem C23_one_realization (spawn : Nat → Nat → Nat) (k : Kind) (w : World)
    (hwf : WF spawn k w) (hd : w.node.params.deps = []) (ops : List Op) :
    (run spawn k ops w).node = w.node ∧
    ∀ o ∈ (run spawn k ops w).obs, o ∈ w.obs ∨ ∃ bid, o = observe w.node bid :=
  Dask.Lemmas.Hist.run_invariant spawn k ops w hwf hd

/-- pickling: `_reconstruct` draws fresh seeds (the unpickled generator copy advances) and the
carried `_info` cache overwrites them — the node is unchanged. -/
theorem C23_pickle (spawn : Nat → Nat → Nat) (k : Kind) (g : Gen) (r : Node) :
    reconstruct spawn k (reduce g r) = r :=
  Dask.Lemmas.Hist.reconstruct_reduce spawn k g r

/-- a rewrite never re-instantiates a node without expression operands -/
theorem C23_rewrite_reuses (spawn : Nat → Nat → Nat) (k : Kind) (g : Gen) (r : Node) (f : Nat → Nat)
    (hd : r.params.deps = []) : rebuild spawn k g r f = (r, g) :=
  Dask.Lemmas.Hist.rebuild_scalar spawn k g r f hd

/-- same generator state (seed and consumption) and same number of blocks ⇒ same seed vector
(distribution parameters and chunk SIZES do not enter). -/
theorem C23_rebuild (spawn : Nat → Nat → Nat) (k : Kind) (g1 g2 : Gen) (p1 p2 : Params)
    (hg : g1 = g2) (hn : nblocks p1.numblocks = nblocks p2.numblocks) :
    (construct spawn k g1 p1).1.seeds = (construct spawn k g2 p2).1.seeds :=
  Dask.Lemmas.Hist.rebuild_same spawn k g1 g2 p1 p2 hg hn

/-- the seed vector has one entry per block -/
theorem C23_seed_count (spawn : Nat → Nat → Nat) (k : Kind) (g : Gen) (p : Params) :
    (construct spawn k g p).1.seeds.length = nblocks p.numblocks :=
  Dask.Lemmas.Hist.draw_length spawn k g _

/-! ### `_block_id_to_flat_index` is a bijection grid → `range(#blocks)` (all ranks) -/

/-- the Python loop computes the row-major (C order) rank -/
theorem C23_flat_index_rowMajor (numblocks bid : List Nat) (h : InGrid numblocks bid) :
    flatIndex numblocks bid = rowMajor numblocks bid :=
  Dask.Lemmas.Hist.flatIndex_eq_rowMajor _ _ (Dask.Lemmas.Hist.inGrid_length _ _ h)

theorem C23_flat_index_range (numblocks bid : List Nat) (h : InGrid numblocks bid) :
    flatIndex numblocks bid < nblocks numblocks := by
  rw [C23_flat_index_rowMajor _ _ h]; exact Dask.Lemmas.Hist.rowMajor_lt _ _ h

theorem C23_flat_index_injective (numblocks b b' : List Nat) (h : InGrid numblocks b) (h' : InGrid numblocks b')
    (e : flatIndex numblocks b = flatIndex numblocks b') : b = b' := by
  rw [C23_flat_index_rowMajor _ _ h, C23_flat_index_rowMajor _ _ h'] at e
  exact Dask.Lemmas.Hist.rowMajor_inj _ _ _ h h' e

theorem C23_flat_index_surjective (numblocks : List Nat) (k : Nat) (hk : k < nblocks numblocks) :
    InGrid numblocks (unflatIndex numblocks k) ∧ flatIndex numblocks (unflatIndex numblocks k) = k := by
  have h := Dask.Lemmas.Hist.unflat_spec numblocks k hk
  exact ⟨h.1, by rw [C23_flat_index_rowMajor _ _ h.1]; exact h.2⟩

/-- the grid enumerated by `itertools.product` is exactly the set of valid block ids -/
theorem C23_grid_mem (numblocks bid : List Nat) : bid ∈ grid numblocks ↔ InGrid numblocks bid :=
  Dask.Lemmas.Hist.mem_grid numblocks bid

/-- `itertools.product` order IS flat-index order: the k-th block id of the grid has flat index k
(so `sizes[flat]` / `bitgens[flat]`, both listed in product order, belong to that block) -/
theorem C23_grid_order (numblocks : List Nat) :
    (grid numblocks).map (flatIndex numblocks) = List.range (nblocks numblocks) :=
  Dask.Lemmas.Hist.grid_flatIndex numblocks

/-- trailing `extra_chunks` coordinates (multinomial) do not change the index -/
theorem C23_flat_index_extra (numblocks bid extra : List Nat) (h : InGrid numblocks bid) :
    flatIndex numblocks (bid ++ extra) = flatIndex numblocks bid :=
  Dask.Lemmas.Hist.flatIndex_extra _ _ _ (Dask.Lemmas.Hist.inGrid_length _ _ h)

/-- each block gets its own seed (for an injective child derivation): culling or slicing away a
block cannot shift another block onto its seed. -/
theorem C23_blocks_distinct_seeds (spawn : Nat → Nat → Nat) (hinj : ∀ s a b, spawn s a = spawn s b → a = b)
    (k : Kind) (g : Gen) (p : Params) (b b' : List Nat)
    (hb : InGrid p.numblocks b) (hb' : InGrid p.numblocks b')
    (e : (observe (construct spawn k g p).1 b).2 = (observe (construct spawn k g p).1 b').2) : b = b' :=
  Dask.Lemmas.Hist.observe_inj spawn hinj k g p b b' hb hb' e

/-! ### non-vacuity and necessity of the hypotheses -/

/-- a concrete (injective) child derivation for the examples -/
def spawn0 (s k : Nat) : Nat := 1000 * s + k

def node0 : Node := (construct spawn0 .generator ⟨7, 4⟩ ⟨0, [2, 3], []⟩).1
def world0 : World := ⟨⟨7, 10⟩, ⟨7, 4⟩, node0, []⟩

example : node0.seeds = [7004, 7005, 7006, 7007, 7008, 7009] := by decide
example : WF spawn0 .generator world0 := by unfold WF; decide
example : flatIndex [2, 3] [1, 2] = 5 ∧ flatIndex [2, 3, 4] [1, 2, 3] = 23 ∧ flatIndex [2, 3] [1, 2, 0] = 5 := by decide
example : unflatIndex [2, 3, 4] 23 = [1, 2, 3] := by decide
example : (grid [2, 3]).map (flatIndex [2, 3]) = [0, 1, 2, 3, 4, 5] := by decide
/-- a history: compute; a sliced derivation keeping blocks (1,0),(1,2); pickle; another array from the
same generator; rebuild from the seed; compute — every observation is the original vector's entry. -/
example : (run spawn0 .generator
      [.compute, .derive (· + 1) [[1, 0], [1, 2]], .pickle, .other ⟨1, [5], []⟩, .rebuildSameSeed, .compute] world0).obs.map (·.2)
    = [some 7004, some 7005, some 7006, some 7007, some 7008, some 7009, some 7007, some 7009,
       some 7004, some 7005, some 7006, some 7007, some 7008, some 7009,
       some 7004, some 7005, some 7006, some 7007, some 7008, some 7009] := by decide

/-- NECESSITY of `deps = []`: with an array-valued parameter whose expression a rewrite renames, the
node is re-instantiated and the derived computation uses OTHER seeds (the live generator has moved on).
This is the behaviour of the implementation (finding `random:array-param-node-rebuilt`). -/
theorem C23_array_param_witness :
    let w : World := ⟨⟨7, 10⟩, ⟨7, 4⟩, (construct spawn0 .generator ⟨7, 4⟩ ⟨0, [2], [5]⟩).1, []⟩
    (run spawn0 .generator [.compute, .derive (· + 1) [[0], [1]]] w).obs.map (·.2)
      = [some 7004, some 7005, some 7010, some 7011] := by decide

/-- NECESSITY of the carried cache: without `_info` in the pickle the reconstructed node has fresh seeds. -/
theorem C23_pickle_needs_cache :
    (reconstruct spawn0 .generator { reduce ⟨7, 10⟩ node0 with cache := none }).seeds ≠ node0.seeds := by decide

end Dask.Props.C23
