/-
C02 (extension "slice through map_overlap") — "Every fired rewrite preserves values":
`MapOverlap._accept_slice` (dask_array/_overlap.py).  ONLY property theorems (one-liners from
Lemmas/OverlapSlice.lean, Lemmas/OverlapSliceND.lean) and non-vacuity examples.

Model: Model/OverlapSlice.lean (`acceptAxis` = the body of the per-axis loop, `accept` = the whole function,
`padB` = `boundaries(x, depth, kind)` on one axis, `WinLocal dl dr g` = the block function followed by the trim is
a translation-invariant stencil of radius `(dl, dr)`, `getSl` = NumPy's `x[slice]`), Model/OverlapSliceND.lean
(`padSrc` = the extension as an index map, `padND` / `boxWin` / `mapOverlapND` = the n-D reading).

What the theorems say
  * `C02o_accept_sound` — one axis, EVERY boundary kind, every axis length, every depth pair, every slice on which
    the rule fires (full slice, depth-0 axis, overlap axis; slices clamped at either end; empty and reversed-empty
    ranges), every window-local `g`:   `(g (padB b x))[idx] = (g (padB b (x[inp])))[trim]`
    — the pushed node keeps the SAME boundary kind `b`, as the code does.
  * `C02o_periodic_guard_necessary` — with the periodic guard tested on the REQUESTED slice (the seeded change)
    the rewritten expression differs: n = 20, depth 2, `[1:7]`, moving sum; the real guard declines there.
  * `C02o_decline_cases`, `C02o_decline_cases_node` — exactly when the rule declines.
  * `C02o_loop_fires_per_axis` — when the whole function fires, every axis fired with the slices it returned.
  * `C02o_accept_sound_nd` — n-D by axis independence: for axes on each of which `acceptAxis` fired, the rewritten
    n-D expression and the slice of the original agree at every multi-index of the requested region, and the
    shapes agree (`C02o_axis_shape`).
  * `C02o_accept_sound_node` — the same for the whole function: `accept nd index = ok inps trim` on a node as
    `map_overlap` builds it (`NodeWf`: non-negative extents and depths) ⇒ the n-D equation with the records read
    off `inps` and the loop's trim slices; `C02o_no_trim_is_full`: when no trim is left on top the trim slices are
    all full slices.
  * `C02o_pushed_depth_fits` — the pushed node can be built (depth ≤ the pushed extent on overlap axes).
  * `C02o_pad_index` — the list-level `padB` reads exactly the index map `padSrc` used by the n-D statement.

Hypotheses, all explicit: `WinLocal` (the code cannot check it; it declines only for functions that take
`block_id` / `block_info`); depths are naturals.  The code allows `dl ≠ dr` only with boundary `none`; the
theorems hold for every pair.

NOT proved here (search only, harness/props_ext/c02_overlap.py): that the chunked pipeline
`rechunk → boundaries → overlap_internal → map_blocks → trim_internal` computes `g ∘ padB` for every chunking
(the C19 statement about the definition of `map_overlap`), and the chunks the rewritten node advertises.
-/
import DaskArrayModel.Lemmas.OverlapSliceND
namespace Dask.Props.C02Overlap
open Dask.Py Dask.Py.PySlice Dask.OverlapSlice Dask.Lemmas.OverlapSlice

variable {α β γ : Type}

/-- **The slice pushed through `map_overlap` is sound (one axis, every boundary kind).** -/
theorem C02o_accept_sound (g : List (Option α) → List β) (dl dr : Nat) (hg : WinLocal dl dr g)
    (b : Boundary α) (x : List α) (allowRechunk : Bool) (idx inp trim : PySlice) (needsTrim : Bool)
    (h : acceptAxis x.length dl dr b.kind allowRechunk idx = .ok inp trim needsTrim) :
    getSl idx (mapOverlap1 g b dl dr x) = getSl trim (mapOverlap1 g b dl dr (getSl inp x)) :=
  accept_sound_1d g dl dr hg b x allowRechunk idx inp trim needsTrim h

/-- every kernel applied to the full windows is in the class -/
theorem C02o_stencil_winLocal (k : List γ → β) (dl dr : Nat) : WinLocal dl dr (stencil k dl dr) :=
  stencil_winLocal k dl dr

/-- **The periodic guard must test the EXPANDED slice.**  With the guard on the requested slice the rule fires on
`[1:7]` of a periodic axis of length 20 with depth 2, and the rewritten expression is not the slice of the original
for the moving sum (the wrap-around is taken from the sub-array `x[0:9]`); the guard of the code declines. -/
theorem C02o_periodic_guard_necessary :
    WinLocal 2 2 (stencil ksum 2 2) ∧
    acceptAxisRequestedGuard 20 2 2 .periodic true ⟨some 1, some 7, none⟩ =
      .ok ⟨some 0, some 9, none⟩ ⟨some 1, some 7, none⟩ true ∧
    getSl ⟨some 1, some 7, none⟩ (mapOverlap1 (stencil ksum 2 2) .periodic 2 2 xs20) ≠
      getSl ⟨some 1, some 7, none⟩
        (mapOverlap1 (stencil ksum 2 2) .periodic 2 2 (getSl ⟨some 0, some 9, none⟩ xs20)) ∧
    acceptAxis 20 2 2 .periodic true ⟨some 1, some 7, none⟩ = .decline :=
  ⟨stencil_winLocal _ _ _, requested_guard_fires, requested_guard_wrong, real_guard_declines⟩

/-- **When the rule declines on an axis**: not the full slice, and a non-unit step, or an overlap axis with
`allow_rechunk=False`, a periodic axis whose expanded slice touches an end, an expanded extent shorter than the
depth, or (boundary `none`) an expanded extent that does not span one full window. -/
theorem C02o_decline_cases (n dl dr : Int) (bk : BKind) (allowRechunk : Bool) (idx : PySlice) :
    acceptAxis n dl dr bk allowRechunk idx = .decline ↔
      idx ≠ colon ∧
      (idx.stp ≠ 1 ∨
        (max dl dr ≠ 0 ∧
          (allowRechunk = false ∨
           (bk = .periodic ∧ (max 0 (idx.istart n - dl) = 0 ∨ min n (idx.istop n + dr) = n)) ∨
           max dl dr > min n (idx.istop n + dr) - max 0 (idx.istart n - dl) ∨
           (bk = .none ∧ min n (idx.istop n + dr) - max 0 (idx.istart n - dl) ≤ dl + dr)))) :=
  acceptAxis_decline_iff n dl dr bk allowRechunk idx

/-- **When the whole function declines**: `None` or an integer in the index, several arrays, a function that
takes `block_id` / `block_info`, or some axis declines. -/
theorem C02o_decline_cases_node (nd : Node) (index : List Ix) :
    accept nd index = .decline ↔
      index.any Ix.isNewaxis = true ∨ index.any Ix.isInt = true ∨ nd.nArrays ≠ 1 ∨ nd.posAware = true ∨
      ∃ axis, ∃ h : axis < (fullIndex nd index).length,
        axisCall nd axis (fullIndex nd index)[axis] = .decline :=
  accept_decline_iff nd index

/-- when the loop completes, every axis fired, with the input and trim slices returned for it -/
theorem C02o_loop_fires_per_axis (nd : Node) (l : List PySlice) (axis : Nat) (is ts : List PySlice) (b : Bool)
    (h : acceptLoop nd axis l = some (is, ts, b)) :
    is.length = l.length ∧ ts.length = l.length ∧
    ∀ i, ∀ _ : i < l.length,
      ∃ t, axisCall nd (axis + i) l[i] = .ok (is.getD i colon) (ts.getD i colon) t :=
  acceptLoop_some nd l axis is ts b h

/-- a fired axis gives a per-axis record that satisfies `Shift` (the windows of the requested outputs read the
same sources in the pushed sub-array and in the whole axis), and the trimmed extent is the requested extent -/
theorem C02o_axis_shape (b : Boundary α) (dl dr n : Nat) (allowRechunk : Bool) (idx inp trim : PySlice)
    (needsTrim : Bool) (h : acceptAxis n dl dr b.kind allowRechunk idx = .ok inp trim needsTrim) :
    (axRec b dl dr n idx inp trim).Shift ∧
      (sel trim ((sel inp n).length : Nat)).length = (sel idx n).length :=
  acceptAxis_shift b dl dr n allowRechunk idx inp trim needsTrim h

/-- **n-D, by axis independence.**  `recs` = one record per axis (`axRec` of a fired axis, by `C02o_axis_shape`);
for every array `A`, every stencil kernel `k` over the box, every multi-index `J` of the requested region:
`(map_overlap(k)(A[inp]))[trim][J] = (map_overlap(k)(A))[idx][J]`. -/
theorem C02o_accept_sound_nd (k : List (Option α) → β) (recs : List (AxRec α))
    (hrec : ∀ r ∈ recs, r.Shift) (A : List Nat → α) (J : List Nat) (hJ : InRange recs J) :
    sliceND (recs.map (·.ts)) (mapOverlapND k (specsSub recs) (sliceND (recs.map (·.es)) A)) J =
      sliceND (recs.map (·.s)) (mapOverlapND k (specsOrig recs) A) J :=
  accept_sound_nd k recs hrec A J hJ

/-- **Whole function, n-D.**  `accept nd index = ok inps trim` ⇒ the loop completed with trim slices `ts`
(`trim = some ts` iff a trim is needed), and for every array, box kernel and multi-index of the requested region the
rewritten expression has the value of the slice of the original. -/
theorem C02o_accept_sound_node (k : List (Option α) → β) (nd : Node) (bs : List (Boundary α))
    (hwf : NodeWf nd bs) (index : List Ix) (inps : List PySlice) (trim : Option (List PySlice))
    (h : accept nd index = .ok inps trim) :
    ∃ ts needsTrim, acceptLoop nd 0 (fullIndex nd index) = some (inps, ts, needsTrim) ∧
      trim = (if needsTrim then some ts else none) ∧
      ∀ (A : List Nat → α) (J : List Nat),
        InRange (nodeRecs nd bs 0 (fullIndex nd index) inps ts) J →
        sliceND ((nodeRecs nd bs 0 (fullIndex nd index) inps ts).map (·.ts))
            (mapOverlapND k (specsSub (nodeRecs nd bs 0 (fullIndex nd index) inps ts))
              (sliceND ((nodeRecs nd bs 0 (fullIndex nd index) inps ts).map (·.es)) A)) J =
          sliceND ((nodeRecs nd bs 0 (fullIndex nd index) inps ts).map (·.s))
            (mapOverlapND k (specsOrig (nodeRecs nd bs 0 (fullIndex nd index) inps ts)) A) J :=
  accept_sound_node k nd bs hwf index inps trim h

/-- when no axis set `needs_trim` every trim entry is the full slice: returning the bare new node is right -/
theorem C02o_no_trim_is_full (nd : Node) (l : List PySlice) (axis : Nat) (is ts : List PySlice)
    (h : acceptLoop nd axis l = some (is, ts, false)) : ∀ t ∈ ts, t = colon :=
  acceptLoop_no_trim nd l axis is ts h

/-- the pushed node can be built: on a fired overlap axis both depths fit in the pushed extent -/
theorem C02o_pushed_depth_fits (n dl dr : Int) (bk : BKind) (allowRechunk : Bool) (idx inp trim : PySlice)
    (hn : 0 ≤ n) (h : acceptAxis n dl dr bk allowRechunk idx = .ok inp trim true) :
    max dl dr ≤ ((sel inp n).length : Int) :=
  acceptAxis_depth_fits n dl dr bk allowRechunk idx inp trim hn h

/-- the list-level boundary extension reads exactly the index map of the n-D statement -/
theorem C02o_pad_index (b : Boundary α) (dl dr : Nat) (x : List α) (hl : dl ≤ x.length) (hr : dr ≤ x.length)
    (p : Nat) :
    (padB b dl dr x)[p]? =
      match padSrc b dl dr x.length p with
      | .idx j => x[j]?.map some
      | .absent => some none
      | .fill c => some (some c)
      | .out => none := by
  rw [padB_getElem? b dl dr x hl hr p]; exact padAt_eq_src b dl dr x p

/-! ### non-vacuity: the rule fires for every boundary kind, asymmetric depth, at both ends -/

-- interior, every kind
example : acceptAxis 20 2 2 .periodic true ⟨some 3, some 7, none⟩ = .ok ⟨some 1, some 9, none⟩ ⟨some 2, some 6, none⟩ true := by decide
example : acceptAxis 20 2 2 .none true ⟨some 3, some 7, none⟩ = .ok ⟨some 1, some 9, none⟩ ⟨some 2, some 6, none⟩ true := by decide
-- clamped at the left end (reflect, nearest, constant, none), trim start `None`
example : acceptAxis 20 2 2 .reflect true ⟨some 0, some 7, none⟩ = .ok ⟨some 0, some 9, none⟩ ⟨none, some 7, none⟩ true := by decide
example : acceptAxis 20 2 2 .nearest true ⟨some 1, some 7, none⟩ = .ok ⟨some 0, some 9, none⟩ ⟨some 1, some 7, none⟩ true := by decide
-- clamped at the right end, negative bounds
example : acceptAxis 20 3 3 .constant true ⟨some (-5), none, none⟩ = .ok ⟨some 12, some 20, none⟩ ⟨some 3, some 8, none⟩ true := by decide
-- asymmetric depth (boundary none), both ends
example : acceptAxis 20 3 0 .none true ⟨some 1, some 20, none⟩ = .ok ⟨some 0, some 20, none⟩ ⟨some 1, some 20, none⟩ true := by decide
example : acceptAxis 20 0 2 .none true ⟨some 5, some 9, none⟩ = .ok ⟨some 5, some 11, none⟩ ⟨none, some 4, none⟩ true := by decide
-- empty reversed range that still fires: the trim is empty too
example : acceptAxis 20 3 3 .reflect true ⟨some 5, some 3, none⟩ = .ok ⟨some 2, some 6, none⟩ ⟨some 3, some 1, none⟩ true := by decide
-- depth-0 axis and full slice
example : acceptAxis 20 0 0 .periodic true ⟨some (-4), none, none⟩ = .ok ⟨some (-4), none, none⟩ colon false := by decide
example : acceptAxis 20 2 2 .periodic true colon = .ok colon colon false := by decide
-- periodic declines at an end, fires one step further in
example : acceptAxis 20 2 2 .periodic true ⟨some 2, some 7, none⟩ = .decline := by decide
example : acceptAxis 20 2 2 .periodic true ⟨some 3, some 17, none⟩ = .ok ⟨some 1, some 19, none⟩ ⟨some 2, some 16, none⟩ true := by decide
example : acceptAxis 20 2 2 .periodic true ⟨some 3, some 18, none⟩ = .decline := by decide
-- the whole function on a 2-d node: axis 0 overlaps (reflect), axis 1 does not
example : accept ⟨[20, 5], [(2, 2), (0, 0)], [.reflect, .none], true, 1, false⟩
    [.slc ⟨some 1, some 7, none⟩, .slc ⟨some 1, some 3, none⟩] =
    .ok [⟨some 0, some 9, none⟩, ⟨some 1, some 3, none⟩] (some [⟨some 1, some 7, none⟩, colon]) := by decide
example : accept ⟨[20, 5], [(2, 2), (0, 0)], [.reflect, .none], true, 1, true⟩
    [.slc ⟨some 1, some 7, none⟩] = .decline := by decide
example : NodeWf ⟨[20, 5], [(2, 2), (0, 0)], [.reflect, .none], true, 1, false⟩
    [(.reflect : Boundary Int), .none] := by
  refine ⟨?_, ?_, ?_⟩ <;> intro axis <;>
    (match axis with
     | 0 => decide
     | 1 => decide
     | _ + 2 => simp [Boundary.kind])
-- the soundness statement on a concrete halo-reading function, clamped at the left end under `reflect`
example : getSl ⟨some 1, some 7, none⟩ (mapOverlap1 (stencil ksum 2 2) .reflect 2 2 xs20) =
    getSl ⟨some 1, some 7, none⟩
      (mapOverlap1 (stencil ksum 2 2) .reflect 2 2 (getSl ⟨some 0, some 9, none⟩ xs20)) :=
  C02o_accept_sound _ 2 2 (stencil_winLocal _ _ _) .reflect xs20 true _ _ _ true (by decide)
-- a two-axis record list satisfying the hypothesis of the n-D theorem
example : ∀ r ∈ [axRec (.reflect : Boundary Int) 2 2 20 ⟨some 1, some 7, none⟩ ⟨some 0, some 9, none⟩ ⟨some 1, some 7, none⟩,
                 axRec (.none : Boundary Int) 0 0 5 ⟨some 1, some 3, none⟩ ⟨some 1, some 3, none⟩ colon], r.Shift := by
  intro r hr
  simp only [List.mem_cons, List.not_mem_nil, or_false] at hr
  rcases hr with rfl | rfl
  · exact (C02o_axis_shape _ 2 2 20 true _ _ _ true (by decide)).1
  · exact (C02o_axis_shape _ 0 0 5 true _ _ _ false (by decide)).1

end Dask.Props.C02Overlap
