/-
C20 — map_blocks block_info/block_id match the layout it was built against.  ONLY property
theorems (restated; proofs are one-liners from Lemmas/BlockInfo.lean) and non-vacuity examples.
-/
import DaskArrayModel.Lemmas.BlockInfo
namespace Dask.Props.C20
open Dask.BlockInfo Dask.Lemmas.BlockInfo

/-- For every layout and every block id of its grid: `array-location` is, axis by axis, the extent
`(starts[j], starts[j+1])` of the named block; `chunk-shape` is `stop − start` per axis, which is
`chunks[axis][bid[axis]]`; every extent is well ordered. -/
theorem C20_block_info (L : Layout) (bid : List Nat) (h : validBid L bid = true) :
    arrayLocation L bid = List.zipWith extent L bid ∧
    (arrayLocation L bid).length = L.length ∧
    chunkShape L bid = (arrayLocation L bid).map (fun p => p.2 - p.1) ∧
    (∀ p ∈ arrayLocation L bid, p.1 ≤ p.2) :=
  let s := arrayLocation_spec L bid h
  ⟨s.2.2.2, s.1, s.2.1, s.2.2.1⟩

/-- The extents of one axis tile the axis: the first starts at 0, consecutive ones abut, the last
ends at the axis length, and block `j` has length `c[j]`, starting at the sum of the blocks before it. -/
theorem C20_extents_tile (c : List Nat) :
    (0 < c.length → (extent c 0).1 = 0) ∧
    (∀ j, j + 1 < c.length → (extent c j).2 = (extent c (j + 1)).1) ∧
    (0 < c.length → (extent c (c.length - 1)).2 = nsum c) ∧
    (∀ j, j < c.length → (extent c j).1 ≤ (extent c j).2 ∧ (extent c j).2 - (extent c j).1 = c.getD j 0) :=
  extents_tile c

theorem C20_extent_eq (c : List Nat) (j : Nat) (h : j < c.length) :
    extent c j = (nsum (c.take j), nsum (c.take j) + c.getD j 0) :=
  extent_eq c j h

/-- Whatever layout the optimized child settles on (any layout of the same shape), the lowered
`ChunksFreeze` has exactly the frozen layout … -/
theorem C20_freeze (settled frozen : Layout) (h : shape settled = shape frozen) :
    ∃ n, lowerFreeze settled frozen = .ok n ∧ n.chunks = frozen :=
  lowerFreeze_chunks settled frozen h

/-- … hence the block delivered for block id `bid` has the shape promised at call time. -/
theorem C20_freeze_block_shape (settled frozen : Layout) (n : Lowered) (bid : List Nat)
    (h : lowerFreeze settled frozen = .ok n) :
    chunkShape n.chunks bid = chunkShape frozen bid := by
  rw [lowerFreeze_ok_chunks settled frozen n h]

/-- The per-input block id rule (`num_chunks > 1 ? location[label] : 0`) names an existing block of
the input whenever every multi-block axis of the input carries an output label whose location is
below the input's block count on that axis (inputs consistent up to broadcasting). -/
theorem C20_broadcast_rule (eff : Layout) (outInd bid : List Nat)
    (h0 : ∀ c ∈ eff, 0 < c.length)
    (h1 : ∀ p ∈ eff.zip (revRange eff.length), p.1.length > 1 →
      ∃ v, (outInd.zip bid).lookup p.2 = some v ∧ v < p.1.length) :
    validBid eff (inputBlockId eff outInd bid) = true :=
  inputBlockId_valid eff outInd bid h0 h1

/-! non-vacuity -/
example : arrayLocation [[2, 3], [4, 1]] [1, 0] = [(2, 5), (0, 4)] ∧ chunkShape [[2, 3], [4, 1]] [1, 0] = [3, 4] := by decide
example : lowerFreeze [[2, 3]] [[5]] = .ok (.rechunk [[2, 3]] [[5]]) := by decide
example : lowerFreeze [[5]] [[5]] = .ok (.child [[5]]) := by decide
/-- the broken variant "return the child unchanged" delivers a block of another shape -/
example : ∃ n, lowerFreezeNoop [[2, 3]] [[5]] = .ok n ∧ chunkShape n.chunks [0] ≠ chunkShape [[5]] [0] :=
  ⟨.child [[2, 3]], rfl, by decide⟩
example : mapBlocks [[[2, 3], [4, 1]], [[5]]] [] none none = .ok ⟨[1, 0], [[2, 3], [4, 1]]⟩ := by decide
example : (inputInfo [[5]] [1, 0] [1, 0] false).chunkLocation = [0] := by decide
example : (inputInfo [[2, 3], [4, 1]] [1] [1] true).arrayLocation = [(2, 5), (0, 5)] := by decide

end Dask.Props.C20
