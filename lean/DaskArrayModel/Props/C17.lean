/-
C17 — chunk unification aligns operands without changing values or inflating blocks.

Property theorems about the model in Model/Unify.lean (proofs in Lemmas/Unify.lean), for ALL
inputs (no size bound).  Vocabulary (Model/Unify.lean): `bnds c` = boundary positions of a layout
(`0`, the prefix sums, the total); `Splits f c` = `f` is `c` with some blocks split; `imax` =
largest block; `WF bd T` = non-empty collection of non-empty layouts with NON-NEGATIVE sizes
(zero-length chunks allowed) of common total `T`; `OpsWF ops` = operands with non-negative
itemsize, non-empty POSITIVE chunk tuples, NumPy-broadcast-compatible shapes.
Unknown (nan) sizes are outside the model.  Values being unchanged by the inserted rechunks is
C14's theorem; here it is covered by the end-to-end search only.
-/
import DaskArrayModel.Lemmas.Unify
namespace Dask.Props.C17
open Dask.Py Dask.Unify Dask.Lemmas.Unify

/-- `common_blockdim` succeeds on well-formed input and keeps the axis length. -/
theorem commonBlockdim_sum {bd : List Layout} {T : Int} (h : WF bd T) :
    ∃ r, commonBlockdim bd = .ok r ∧ isum r = T ∧ (∀ x ∈ r, 0 ≤ x) := by
  obtain ⟨r, hr, s⟩ := commonBlockdim_ok h
  exact ⟨r, hr, s.sum, s.nonneg⟩

/-- `common_blockdim` is the coarsest common refinement: its boundary set contains every
input's boundary set (only splits) and is contained in their union (no gratuitous split). -/
theorem commonBlockdim_refines {bd : List Layout} {T : Int} (h : WF bd T) :
    ∃ r, commonBlockdim bd = .ok r ∧
      (∀ c ∈ bd, ∀ b ∈ bnds c, b ∈ bnds r) ∧
      (∀ b ∈ bnds r, ∃ c ∈ bd, b ∈ bnds c) := by
  obtain ⟨r, hr, s⟩ := commonBlockdim_ok h
  exact ⟨r, hr, s.refines, s.union⟩

/-- …stated block-wise: the result is obtained from every multi-block input by splitting
blocks, and its largest block is no larger than any input's largest block; positive inputs
give a positive result. -/
theorem commonBlockdim_splits {bd : List Layout} {T : Int} (h : WF bd T) :
    ∃ r, commonBlockdim bd = .ok r ∧
      (∀ c ∈ bd, c.length > 1 → Splits r c) ∧ (∀ c ∈ bd, imax r ≤ imax c) ∧
      ((∀ c ∈ bd, ∀ x ∈ c, 0 < x) → ∀ x ∈ r, 0 < x) := by
  obtain ⟨r, hr, s⟩ := commonBlockdim_ok h
  exact ⟨r, hr, s.splits, s.imax_le, s.pos⟩

/-- `coarse_blockdim` succeeds on well-formed input; its result is either `common_blockdim`'s
or one of the inputs -- a multi-block one with the fewest blocks -- all of whose boundaries are
boundaries of every other multi-block input (every other input refines it). -/
theorem coarseBlockdim_spec {bd : List Layout} {T : Int} (h : WF bd T) :
    ∃ r, coarseBlockdim bd = .ok r ∧
      (commonBlockdim bd = .ok r ∨
        (r ∈ bd ∧ r.length > 1 ∧ (∀ c ∈ bd, c.length > 1 → r.length ≤ c.length) ∧
          ∀ c ∈ bd, c.length > 1 → ∀ b ∈ bnds r, b ∈ bnds c)) :=
  coarseBlockdim_ok h

/-- Size guard, abstract form: for ANY layouts `chunkss` chosen before the guard such that
(`hfine`) the refinement `fine` does not enlarge any participating operand axis and (`hco`) a
chosen layout with at least as many blocks as the refinement is the refinement, after the guard
every operand's largest block (itemsize × product over its non-broadcast axes of the largest
chunk) is at most `max limit (its own largest block)`.  Both hypotheses are discharged for the
concrete model in `C17_limit`. -/
theorem sizeGuard_limit (limit : Int) (hlim : limit ≠ 0) (chunkss fine : Nat → Layout) (ops : List Opd)
    (hit : ∀ a ∈ ops, 0 ≤ a.itemsize)
    (hfine : ∀ a ∈ ops, ∀ ax ∈ a.axes, ax.live = true → imax (fine ax.label) ≤ imax ax.chunks)
    (hco : ∀ a ∈ ops, ∀ ax ∈ a.axes, ax.live = true →
      (fine ax.label).length ≤ (chunkss ax.label).length → chunkss ax.label = fine ax.label) :
    ∀ a ∈ ops, targetBytes (sizeGuard (some limit) chunkss fine ops) a ≤ max limit (currentBytes a) :=
  Dask.Lemmas.Unify.sizeGuard_limit limit hlim chunkss fine ops hit hfine hco

/-- **C17_limit.**  In the per-index model of `unify_chunks_expr`, under every policy, every
non-zero limit and EVERY oracle value `pre` of the cost-aware pass that satisfies the oracle
relation (per index: the coarse choice, the refinement, or a layout an operand already has),
no operand's largest block after unification exceeds `max limit (its own largest block)`. -/
theorem C17_limit (policy : Policy) (limit : Int) (hlim : limit ≠ 0) (pre : List Layout)
    (ops : List Opd) (nlabels : Nat) (hwf : OpsWF ops)
    (hlab : ∀ a ∈ ops, ∀ ax ∈ a.axes, ax.label < nlabels)
    (res : UnifyResult) (hres : unifyModel policy (some limit) pre ops nlabels = .ok res)
    (hrel : res.oracleOk = true) :
    ∀ a ∈ ops, targetBytes (look res.final) a ≤ max limit (currentBytes a) :=
  unifyModel_limit policy limit hlim pre ops nlabels hwf hlab res hres hrel

/-- **C17_refine_only_splits.**  Under the `refine` policy (any limit) the unified layout of
every non-broadcast operand axis has the same total, contains all of the axis' boundaries, has
no boundary that is not a boundary of some operand on that index, and no larger block. -/
theorem C17_refine_only_splits (limit : Option Int) (pre : List Layout)
    (ops : List Opd) (nlabels : Nat) (hwf : OpsWF ops)
    (hlab : ∀ a ∈ ops, ∀ ax ∈ a.axes, ax.label < nlabels)
    (res : UnifyResult) (hres : unifyModel .refine limit pre ops nlabels = .ok res) :
    ∀ a ∈ ops, ∀ ax ∈ a.axes, ax.live = true →
      isum (look res.final ax.label) = isum ax.chunks ∧
      (∀ b ∈ bnds ax.chunks, b ∈ bnds (look res.final ax.label)) ∧
      (∀ b ∈ bnds (look res.final ax.label), ∃ c ∈ layoutsAt ops ax.label, b ∈ bnds c) ∧
      imax (look res.final ax.label) ≤ imax ax.chunks :=
  unifyModel_refine limit pre ops nlabels hwf hlab res hres

/-- **C17_common_layout.**  Non-broadcast axes of any two operands that carry the same index
label are given the same target layout. -/
theorem C17_common_layout (final : Nat → Layout) (ax bx : Ax) (hl : ax.label = bx.label)
    (ha : ax.live = true) (hb : bx.live = true) :
    opdAxisChunks final ax = opdAxisChunks final bx := by
  have h1 := (live_iff ax).mp ha
  have h2 := (live_iff bx).mp hb
  unfold opdAxisChunks Ax.shape
  rw [if_pos (Or.inl h1), if_pos (Or.inl h2), hl]

/-! ### non-vacuity -/

example : WF [[5, 2], [4, 3], [7]] 7 := ⟨by decide, by decide, by decide, by decide⟩
example : commonBlockdim [[5, 2], [4, 3], [7]] = .ok [4, 1, 2] := rfl
example : Splits [4, 1, 2] [5, 2] :=
  .part 4 5 _ _ (by decide) (by decide) (.full 1 _ _ (.full 2 _ _ (.done [] (by decide))))
-- zero-length chunks are inside the hypotheses
example : WF [[2, 0, 1], [1, 2]] 3 := ⟨by decide, by decide, by decide, by decide⟩
example : commonBlockdim [[2, 0, 1], [1, 2]] = .ok [1, 1, 0, 1] := rfl
-- both disjuncts of `coarseBlockdim_spec` occur
example : coarseBlockdim [[12, 12], [6, 6, 6, 6]] = .ok [12, 12] := rfl
example : coarseBlockdim [[4, 6], [6, 4]] = .ok [4, 2, 4] ∧ commonBlockdim [[4, 6], [6, 4]] = .ok [4, 2, 4] :=
  ⟨rfl, rfl⟩
-- error branch
example : commonBlockdim [[2, 2], [3, 2]] = .error .valueError := rfl

/-- two float64 operands, chunks (12,12) and (6,6,6,6) on the same index -/
def exOps : List Opd := [⟨8, [⟨0, [12, 12]⟩]⟩, ⟨8, [⟨0, [6, 6, 6, 6]⟩]⟩]

example : OpsWF exOps := ⟨by decide, by decide, by decide, by decide⟩
-- the guard fires (limit 60 B < 96 B): index 0 is coarsened and falls back to the refinement
example : (unifyModel .coarse (some 60) [] exOps 1).toOption.map (fun r => (r.final, r.worst, r.coarsenedSet, r.oracleOk))
    = some ([[6, 6, 6, 6]], 96, [0], true) := rfl
-- the guard does not fire (limit 100 B)
example : (unifyModel .coarse (some 100) [] exOps 1).toOption.map (fun r => (r.final, r.oracleOk))
    = some ([[12, 12]], true) := rfl
-- an oracle value of the "auto" policy (the refinement was preferred) is accepted …
example : (unifyModel .auto (some 100) [[6, 6, 6, 6]] exOps 1).toOption.map (fun r => (r.final, r.oracleOk))
    = some ([[6, 6, 6, 6]], true) := rfl
-- … and a value outside the relation is flagged (the theorem does not cover it)
example : (unifyModel .auto (some 100) [[24]] exOps 1).toOption.map (fun r => r.oracleOk) = some false := rfl

end Dask.Props.C17
