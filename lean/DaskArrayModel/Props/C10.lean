/-
C10 — Computation is schedule-independent (theorem side).

Tasks are PURE functions of their dependency values (`Task.fn : List ν → ν`); that the real tasks
are pure and leave their dependencies and the user's sources untouched is what the harness
monitors (dependency / source fingerprints, harness/props/C10.py) — the theorem cannot exhibit a
mutation.  For ALL graphs (no size bound).
-/
import DaskArrayModel.Lemmas.Graph
namespace Dask.Props.C10
open Dask.Graph

/-- Evaluation along a topological order never needs an undefined dependency: it runs to the end,
the result is defined exactly on the keys of the graph, and every key holds its task applied to
the values of its dependencies. -/
theorem C10_topo_eval_defined {κ ν : Type} [DecidableEq κ] (g : Graph κ ν) (hwf : WF g)
    (order : List κ) (h : IsTopo g order) :
    ∃ env, evalOrder g order Env.empty = some env ∧
      (∀ k, (env k).isSome ↔ k ∈ keys g) ∧
      ∀ k ∈ order, ∀ t, (k, t) ∈ g → env k = evalTask env t ∧ (env k).isSome :=
  Dask.Lemmas.Graph.topo_eval_defined hwf h

/-- ANY two topological orders (lists of all keys in which every task comes after its
dependencies) of a graph with distinct keys evaluate to the same key→value map. -/
theorem C10_topo_eval_unique {κ ν : Type} [DecidableEq κ] (g : Graph κ ν) (hwf : WF g)
    (o1 o2 : List κ) (h1 : IsTopo g o1) (h2 : IsTopo g o2) :
    ∃ env, evalOrder g o1 Env.empty = some env ∧ evalOrder g o2 Env.empty = some env :=
  Dask.Lemmas.Graph.topo_eval_unique hwf h1 h2

/-- Whatever a scheduler does (threads included): ANY assignment of values in which every key
holds its task applied to the values of its dependencies agrees with serial evaluation along a
topological order, key by key. -/
theorem C10_solution_unique {κ ν : Type} [DecidableEq κ] (g : Graph κ ν)
    (order : List κ) (h : IsTopo g order) (e1 e2 : Env κ ν)
    (h1 : ∀ k ∈ order, ∀ t, (k, t) ∈ g → e1 k = evalTask e1 t ∧ (e1 k).isSome)
    (h2 : ∀ k ∈ order, ∀ t, (k, t) ∈ g → e2 k = evalTask e2 t ∧ (e2 k).isSome) :
    ∀ k ∈ keys g, e1 k = e2 k :=
  fun k hk => Dask.Lemmas.Graph.solutions_agree order [] h.1 (fun _ hd => by cases hd) h1 h2 k (h.2 k hk)

/-- a graph (distinct keys) that has a topological order is closed -/
theorem C10_topo_closed {κ ν : Type} [DecidableEq κ] (g : Graph κ ν) (hwf : WF g)
    (order : List κ) (h : IsTopo g order) : closed g :=
  Dask.Lemmas.Graph.closed_of_topo hwf h

/-- The executable order checker used in the correspondence (driver command `gr.istopo`, applied to
the orders the instrumented executor and dask's own schedulers really used) is sound. -/
theorem C10_checker_sound {κ ν : Type} [DecidableEq κ] (g : Graph κ ν) (order : List κ)
    (h : isTopoB (skeleton g) order = true) : IsTopo g order :=
  Dask.Lemmas.Graph.isTopoB_sound h

/-! ### non-vacuity: a diamond with two different topological orders -/

def t0 : Task Nat Int := ⟨[], fun _ => 5⟩
def t1 : Task Nat Int := ⟨[0], fun vs => vs.headD 0 + 1⟩
def t2 : Task Nat Int := ⟨[0], fun vs => vs.headD 0 * 2⟩
def t3 : Task Nat Int := ⟨[1, 2], fun vs => vs.foldl (· + ·) 0⟩
def diamond : Graph Nat Int := [(0, t0), (1, t1), (2, t2), (3, t3)]

example : WF diamond := by unfold WF keys diamond; decide

example : IsTopo diamond [0, 1, 2, 3] := by
  refine ⟨⟨by decide, ⟨t0, by simp [diamond], by simp [t0]⟩,
           by decide, ⟨t1, by simp [diamond], by simp [t1]⟩,
           by decide, ⟨t2, by simp [diamond], by simp [t2]⟩,
           by decide, ⟨t3, by simp [diamond], by simp [t3]⟩, trivial⟩, by decide⟩

example : IsTopo diamond [0, 2, 1, 3] := by
  refine ⟨⟨by decide, ⟨t0, by simp [diamond], by simp [t0]⟩,
           by decide, ⟨t2, by simp [diamond], by simp [t2]⟩,
           by decide, ⟨t1, by simp [diamond], by simp [t1]⟩,
           by decide, ⟨t3, by simp [diamond], by simp [t3]⟩, trivial⟩, by decide⟩

example : (evalOrder diamond [0, 1, 2, 3] Env.empty).map (fun e => [e 0, e 1, e 2, e 3])
    = some [some 5, some 6, some 10, some 16] := by decide
example : (evalOrder diamond [0, 2, 1, 3] Env.empty).map (fun e => [e 0, e 1, e 2, e 3])
    = some [some 5, some 6, some 10, some 16] := by decide
example : isTopoB (skeleton diamond) [0, 2, 1, 3] = true ∧ isTopoB (skeleton diamond) [1, 0, 2, 3] = false := by
  decide
/-- an order that is not topological needs an undefined dependency -/
example : (evalOrder diamond [1, 0, 2, 3] Env.empty).isNone = true := by decide

end Dask.Props.C10
