/-
C12 — Indexing follows NumPy semantics for every supported index.
ONLY property theorems (restated; proofs are one-liners from Lemmas/Indexing) and non-vacuity
examples.  Every statement is for ALL ranks, shapes, chunkings (zero-length chunks included)
and index tuples.  Vocabulary: Model/Indexing.lean (`Ix`, SPEC `npIndex`/`npAxes`/`npExpand`,
`NormalFor`, `axisPieces`, `gridReads`, `ChunksAgree`, models `normalizeIndex`, `blocksIndex`,
`computeIndexer`, `newChunks`).
-/
import DaskArrayModel.Lemmas.Indexing
namespace Dask.Props.C12
open Dask.Py Dask.Py.PySlice Dask.Slicing Dask.Indexing

/-- `normalize_index` preserves NumPy's meaning of the index, and its result is in normal form:
item by item integers in `[0, dim)`, slices normalised for their axis, list entries in
`[0, dim)`, exactly one non-`None` item per axis, no `Ellipsis`, the `None`s (and lists) of the input. -/
theorem normalizeIndex_sound (idx idx' : List Ix) (shape : List Int) (hd : ∀ d ∈ shape, 0 ≤ d)
    (h : normalizeIndex idx shape = .ok idx') :
    npIndex idx' shape = npIndex idx shape ∧ NormalFor idx' shape ∧
    idx'.countP Ix.consumes = shape.length ∧ idx'.countP Ix.isEllipsis = 0 ∧
    idx'.countP Ix.isNone = idx.countP Ix.isNone ∧ idx'.countP Ix.isLst = idx.countP Ix.isLst :=
  Dask.Lemmas.Indexing.normalizeIndex_sound idx idx' shape hd h

/-- `normalize_index` accepts exactly the indices NumPy accepts (it never returns an index for a
tuple NumPy rejects — out-of-bounds integer or list entry, too many indices, two `Ellipsis`,
zero step — and never refuses one NumPy accepts). -/
theorem normalizeIndex_ok_iff (idx : List Ix) (shape : List Int) (hd : ∀ d ∈ shape, 0 ≤ d) :
    (∃ idx', normalizeIndex idx shape = .ok idx') ↔ (∃ r, npIndex idx shape = .ok r) :=
  Dask.Lemmas.Indexing.normalizeIndex_ok_iff idx shape hd

/-- … and it raises `IndexError` exactly when NumPy raises `IndexError`, for indices without a
zero-step slice and with at most one `Ellipsis` (outside that domain both refuse together by
`normalizeIndex_ok_iff`, but the exception class differs from NumPy's — see the examples). -/
theorem normalizeIndex_error_iff (idx : List Ix) (shape : List Int) (hd : ∀ d ∈ shape, 0 ≤ d)
    (hz : ∀ s, Ix.slc s ∈ idx → s.stp ≠ 0) (he : idx.countP Ix.isEllipsis ≤ 1) :
    normalizeIndex idx shape = .error .indexError ↔ npIndex idx shape = .error .indexError :=
  Dask.Lemmas.Indexing.normalizeIndex_error_iff idx shape hd hz he

/-- **axisLift**: if `Bs[a]` are the blocks of axis `a` (lists of positions, in output-block
order), the grid of blocks — each cell reading the product of its per-axis pieces — reads
exactly the product of the per-axis concatenations, each multi-position as often as selected. -/
theorem axisLift {α} (Bs : List (List (List α))) :
    ((cart Bs).flatMap cart).Perm (cart (Bs.map List.flatten)) :=
  Dask.Lemmas.Indexing.axisLift Bs

/-- membership in a product is componentwise -/
theorem mem_cart {α} (ls : List (List α)) (t : List α) :
    t ∈ cart ls ↔ t.length = ls.length ∧ ∀ p ∈ t.zip ls, p.1 ∈ p.2 :=
  Dask.Lemmas.Indexing.mem_cart ls t

/-- `_slice_1d` for an in-range integer returns the block that holds it and the offset in it. -/
theorem slice1dInt_spec (L : List Int) (i : Int) (hl : ∀ c ∈ L, 0 ≤ c) (h0 : 0 ≤ i) (h1 : i < isum L) :
    (slice1dInt L i).1 < L.length ∧ 0 ≤ (slice1dInt L i).2 ∧
      (slice1dInt L i).2 < L.getD (slice1dInt L i).1 0 ∧
      blockStart L (slice1dInt L i).1 + (slice1dInt L i).2 = i :=
  Dask.Lemmas.Indexing.slice1dInt_spec L i hl h0 h1

/-- **C12_getitem_basic**: for every chunking and every basic index tuple (integers, slices of any
sign/step, `None`, `Ellipsis`, fewer items than axes) that `normalize_index` accepts: NumPy accepts
it, and with `index2` = the normalised tuple without its `None`s (what `SliceSlicesIntegers` gets)
 * on every axis the pieces read by the per-axis `_slice_1d` plan, concatenated in output-block
   order, are exactly the positions NumPy selects on that axis, in order (integers: the one position);
 * the grid of output blocks reads exactly the product selection (`axisLift`);
 * the advertised chunks (`new_blockdim`) sum to the selection length and are the piece lengths. -/
theorem getitem_basic_blocks (chunks : List (List Int)) (idx idx' : List Ix)
    (hc : ∀ l ∈ chunks, ∀ c ∈ l, 0 ≤ c) (hb : idx.countP Ix.isLst = 0)
    (h : normalizeIndex idx (chunks.map isum) = .ok idx') :
    ∃ pos out, npIndex idx (chunks.map isum) = .ok (pos, out) ∧
      (List.zipWith axisPieces chunks (idx'.filter (fun i => !i.isNone))).map List.flatten = pos ∧
      (gridReads chunks (idx'.filter (fun i => !i.isNone))).Perm (cart pos) ∧
      ChunksAgree chunks (idx'.filter (fun i => !i.isNone)) :=
  Dask.Lemmas.Indexing.getitem_basic_blocks chunks idx idx' hc hb h

/-- On a sliced axis the `k`-th pair of `_layer` (`out_names` factor `o[k]`, `k`-th sorted input
block) sits at position `o[k]` of the plan in output-block order — the order `axisPieces` (and
`getitem_basic_blocks`) uses; i.e. output block `j` reads the `j`-th piece. -/
theorem layerAxis_ordered (lengths : List Int) (s : PySlice) (o : List Nat)
    (h : outRange1 lengths (.slc s) = some o) :
    o.length = (sortByKey (slice1d (isum lengths) lengths s)).length ∧
    ∀ k, k < (sortByKey (slice1d (isum lengths) lengths s)).length →
      (orderedPlan s.stp (slice1d (isum lengths) lengths s))[o.getD k 0]? =
        (sortByKey (slice1d (isum lengths) lengths s))[k]? :=
  Dask.Lemmas.Indexing.layerAxis_ordered lengths s o h

/-- **`SliceSlicesIntegers._layer` is the product of the per-axis wirings**: the triples
`zip(out_names, in_names, all_slices)` are exactly, and in the same order, the cells of the grid
`cart (axisCells per axis)` (`axisCells` = the `out_names` factor zipped with the sorted
`_slice_1d` plan; an integer axis has one cell and no output index).  With `layerAxis_ordered`:
output block `(j₁,…,jₙ)` reads, on axis `a`, the `jₐ`-th piece of `axisPieces`. -/
theorem ssiLayer_eq_cells (chunks : List (List Int)) (index : List Ix)
    (hix : ∀ i ∈ index, (∃ k, i = .int k) ∨ (∃ s, i = .slc s)) :
    ssiLayer chunks index = (cart (List.zipWith axisCells chunks index)).map splitCell :=
  Dask.Lemmas.Indexing.ssiLayer_eq_cells chunks index hix

/-- `x[idx].chunks` for a basic index (the `normalize_index` → `slice_with_newaxes` →
`SliceSlicesIntegers` → `ExpandDims` pipeline): item by item `(1,)` for `None`, no axis for an
integer, `new_blockdim` for a slice; NumPy accepts the index and the advertised shape
(`sum` of the chunks per axis) is NumPy's output shape. -/
theorem getitemChunks_spec (chunks : List (List Int)) (idx : List Ix) (r : List (List Int))
    (hc : ∀ l ∈ chunks, ∀ c ∈ l, 0 ≤ c) (hb : idx.countP Ix.isLst = 0)
    (h : getitemChunks chunks idx = .ok r) :
    ∃ idx' pos out, normalizeIndex idx (chunks.map isum) = .ok idx' ∧ r = outChunks chunks idx' ∧
      npIndex idx (chunks.map isum) = .ok (pos, out) ∧ out = r.map (fun c => (isum c).toNat) :=
  Dask.Lemmas.Indexing.getitemChunks_spec chunks idx r hc hb h

/-- **`.blocks[idx]`**: whenever accepted, the selected input blocks per axis (`maps`) are exactly
NumPy's indexing of `arange(numblocks)` with the same index (integers keep their axis), they
exist, and the chunks of the result are exactly the sizes of the selected blocks in that order
(so the result is the concatenation of the selected blocks); at most one list, no `None`. -/
theorem blocksIndex_spec (chunks : List (List Int)) (idx : List Ix) (cs maps : List (List Int))
    (h : blocksIndex chunks idx = .ok (cs, maps)) :
    (∃ out, npIndex idx (chunks.map (fun c => (c.length : Int))) = .ok (maps, out)) ∧
    cs = List.zipWith (fun c m => m.map (fun b => c.getD b.toNat 0)) chunks maps ∧
    (∀ p ∈ List.zip chunks maps, ∀ b ∈ p.2, 0 ≤ b ∧ b < (p.1.length : Int)) ∧
    idx.countP Ix.isLst ≤ 1 ∧ idx.countP Ix.isNone = 0 :=
  Dask.Lemmas.Indexing.blocksIndex_spec chunks idx cs maps h

/-- `_compute_indexer` (take) only regroups the index … -/
theorem computeIndexer_flatten (index chunks : List Int) :
    (computeIndexer index chunks).flatten = index :=
  Dask.Lemmas.Indexing.computeIndexer_flatten index chunks

/-- … into runs that each read a single input chunk. -/
theorem computeIndexer_groups (index chunks : List Int) :
    ∀ g ∈ computeIndexer index chunks, ∀ x ∈ g, ∀ y ∈ g,
      bisectRight (cumsum chunks) x = bisectRight (cumsum chunks) y :=
  Dask.Lemmas.Indexing.computeIndexer_groups index chunks

/-- `Shuffle._new_chunks` preserves the concatenated index list … -/
theorem newChunks_flatten {limit : Nat} (hl : 0 < limit) (indexer : List (List Int)) :
    (newChunks limit indexer).flatten = indexer.flatten :=
  Dask.Lemmas.Indexing.newChunks_flatten hl indexer

/-- … and every output chunk is non-empty and at most `limit` (the largest input chunk) long. -/
theorem newChunks_bounded {limit : Nat} (hl : 0 < limit) (indexer : List (List Int)) :
    ∀ g ∈ newChunks limit indexer, 0 < g.length ∧ g.length ≤ limit :=
  Dask.Lemmas.Indexing.newChunks_bounded hl indexer

/-! non-vacuity: concrete, non-trivial instances of hypotheses and conclusions -/

-- x[None, ..., -1] on shape (3, 4): normalised, and both sides of `normalizeIndex_sound`
example : normalizeIndex [.none_, .ellipsis, .int (-1)] [3, 4] = .ok [.none_, .slc colon, .int 3] := by rfl
example : npIndex [.none_, .ellipsis, .int (-1)] [3, 4] = .ok ([[0, 1, 2], [3]], [1, 3]) := by rfl
example : npIndex [.none_, .slc colon, .int 3] [3, 4] = .ok ([[0, 1, 2], [3]], [1, 3]) := by rfl
example : NormalFor [.none_, .slc colon, .int 3] [3, 4] := by
  simp only [NormalFor]; exact ⟨⟨colon, by decide, by decide⟩, by omega, trivial⟩
-- refusals: out of bounds / too many indices are IndexError on both sides
example : normalizeIndex [.int 3] [3] = .error .indexError ∧ npIndex [.int 3] [3] = .error .indexError := ⟨by rfl, by rfl⟩
example : normalizeIndex [.int 0, .int 0] [3] = .error .indexError ∧ npIndex [.int 0, .int 0] [3] = .error .indexError := ⟨by rfl, by rfl⟩
-- the hypotheses of `normalizeIndex_error_iff` are needed: same refusal, different class
example : normalizeIndex [.ellipsis, .ellipsis] [3] = .error .typeError ∧
    npIndex [.ellipsis, .ellipsis] [3] = .error .indexError := ⟨by rfl, by rfl⟩
example : normalizeIndex [.slc ⟨none, none, some 0⟩, .int 5] [3, 4] = .error .indexError ∧
    npIndex [.slc ⟨none, none, some 0⟩, .int 5] [3, 4] = .error .valueError := ⟨by rfl, by rfl⟩
-- getitem: x[::-1, 1] on chunks ((2,1),(3,1)): per-axis pieces, grid reads, chunks
example : normalizeIndex [.slc ⟨none, none, some (-1)⟩, .int 1] ([[2, 1], [3, 1]].map isum)
    = .ok [.slc ⟨none, none, some (-1)⟩, .int 1] := by rfl
example : List.zipWith axisPieces [[2, 1], [3, 1]] [.slc ⟨none, none, some (-1)⟩, .int 1] = [[[2], [1, 0]], [[1]]] := by decide
example : gridReads [[2, 1], [3, 1]] [.slc ⟨none, none, some (-1)⟩, .int 1] = [[2, 1], [1, 1], [0, 1]] := by decide
example : ssiChunks [[2, 1], [3, 1]] [.slc ⟨none, none, some (-1)⟩, .int 1] = [[1, 2]] := by decide
example : getitemChunks [[2, 1], [3, 1]] [.none_, .int 1, .none_, .slc ⟨none, none, some (-2)⟩] = .ok [[1], [1], [1, 1]] := by rfl
example : npIndex [.none_, .int 1, .none_, .slc ⟨none, none, some (-2)⟩] [3, 4] = .ok ([[1], [3, 1]], [1, 1, 2]) := by rfl
example : outRange1 [2, 1] (.slc ⟨none, none, some (-1)⟩) = some [1, 0] := by decide
example : ssiLayer [[2, 1], [3, 1]] [.slc ⟨none, none, some (-1)⟩, .int 3] =
    [([1], [0, 1], [.slc ⟨some (-1), some (-3), some (-1)⟩, .int 0]),
     ([0], [1, 1], [.slc ⟨some (-1), some (-2), some (-1)⟩, .int 0])] := by decide
-- a product where block-major order differs from C order (why `axisLift` is a permutation)
example : (cart [[[0], [1]], [[5], [6]]]).flatMap cart = [[0, 5], [0, 6], [1, 5], [1, 6]] := by decide
example : (cart [[[0, 1]], [[5], [6]]]).flatMap cart = [[0, 5], [1, 5], [0, 6], [1, 6]] ∧
    cart ([[[0, 1]], [[5], [6]]].map List.flatten) = [[0, 5], [0, 6], [1, 5], [1, 6]] := by decide
-- .blocks[[1, 0], -1] on chunks ((2,1),(3,1,5))
example : blocksIndex [[2, 1], [3, 1, 5]] [.lst [1, 0], .int (-1)] = .ok ([[1, 2], [5]], [[1, 0], [2]]) := by rfl
example : blocksIndex [[2, 1], [3, 1, 5]] [.lst [2, 0]] = .error .indexError := by rfl
example : blocksIndex [[2, 1], [3, 1, 5]] [.none_] = .error .valueError := by rfl
-- take helpers
example : computeIndexer [0, 1, 5, 2, 3] [2, 2, 2] = [[0, 1], [5], [2, 3]] := by decide
example : slice1dInt [2, 0, 3] 2 = (2, 0) := by decide

end Dask.Props.C12
