/-
C29 — Building and inspecting arrays never touches data.

THIN THEOREMS, stated honestly: the model (Model/Meta.lean) gives the metadata function the data environment, as the
real code holds the source object, and mirrors what the code does with it (`meta_from_array` → `x[(slice(0,0),)*ndim]`;
`compute_meta` → user function on metas; `apply_infer_dtype` → user function on a zeros block of shape (1,…,1) when
neither dtype nor meta is given).  What is proved, for ALL expressions of the mini-language and ALL environments:
  * the metadata log contains only EMPTY reads (and calls on empty / unit synthetic blocks, never on read data);
  * with dtypes given, strictly empty blocks only;
  * metadata (value and log) is identical in all well-behaved environments — it cannot depend on data;
  * inspecting first does not change what evaluation returns; reads happen in evaluation (non-vacuity).
The tie to the code is (1) the generated table `Generated/DataReads.lean`: every syntactic data-touching site on a
source object / user function in the constructor, metadata and rewrite code of the source nodes, each in an allowed
class (`C29_sites_allowed`, by `decide` over the table), and (2) — carrying the weight — the recording monitor in
harness/props/C29.py.  Sources with no axis (0-d) are excluded by hypothesis: `x[()]` IS the element (the monitor
reports that case on the real code).
-/
import DaskArrayModel.Lemmas.Meta
import DaskArrayModel.Generated.DataReads
namespace Dask.Props.C29
open Dask.Meta Dask.Generated.DataReads

/-- metadata is the same in every (well-behaved) data environment: value AND instrumented log -/
theorem C29_metadata_env_independent (env₁ env₂ : Env) (h₁ : env₁.WF) (h₂ : env₂.WF) (e : Expr)
    (h : e.srcNonScalar = true) : metaLog env₁ e = metaLog env₂ e :=
  metaLog_env_independent env₁ env₂ h₁ h₂ e h

/-- building + inspecting performs only EMPTY reads, and calls user functions only on blocks that were not read
from a source and are empty or the (1,…,1) synthetic probe -/
theorem C29_metadata_touches_no_data (env : Env) (e : Expr) (h : e.srcNonScalar = true) :
    ∀ ev ∈ (metaLog env e).2, ev.harmless = true :=
  metaLog_harmless env e h

/-- when every `map_blocks` is given its dtype, strictly empty blocks only -/
theorem C29_metadata_empty_only (env : Env) (e : Expr) (h : e.srcNonScalar = true) (hd : e.dtypesGiven = true) :
    ∀ ev ∈ (metaLog env e).2, ev.emptyOnly = true :=
  metaLog_emptyOnly env e h hd

/-- the value of a session "inspect, then compute" is the plain evaluation: metadata reads do not feed the result -/
theorem C29_eval_independent_of_inspection (sem : Sem) (env : Env) (e : Expr) :
    (inspectThenEval sem env e).1 = eval sem env e := by
  simp only [inspectThenEval]
  exact evalLog_fst sem env e

/-- the generated table: every syntactic data-touching site in the source-node code is in an allowed class
(0 empty selection, 1 NumPy/literal-guarded, 2 call on metas, 3 unit-probe call, 4 duck copy, 5 placed in a task) -/
theorem C29_sites_allowed : sites.all (fun s => s.2.2 != 9) = true ∧ missingFiles = [] := by decide

/-! ### non-vacuity -/

/-- evaluation DOES read: the log of `evalLog` on a source has a non-empty read -/
example : (evalLog ⟨fun a _ => a, fun _ v => v, fun _ v => v, id⟩ ⟨fun _ _ => [7]⟩ (.src 0 [2, 3] [1, 3] 0)).2
    = [.read 0 [(0, 2), (0, 3)]] ∧ (Event.read 0 [(0, 2), (0, 3)]).harmless = false := by decide

/-- the hypothesis matters: for a 0-d source the "empty" selection is the whole element -/
example : (metaLog ⟨fun _ _ => [7]⟩ (.src 0 [] [] 0)).2 = [.read 0 []] ∧ (Event.read 0 []).harmless = false := by decide

/-- without dtype the user function is called on the unit probe: harmless but not strictly empty -/
example : ((metaLog ⟨fun _ _ => []⟩ (.mapBlocks 5 (.src 0 [4] [2] 0) none)).2.all Event.emptyOnly) = false := by decide

/-- the table check can say no -/
example : ([("f", "x[:1]", 9), ("g", "x[:0]", 0)] : List (String × String × Nat)).all (fun s => s.2.2 != 9) = false := by decide

/-- the table is not empty and contains the empty-selection site of `meta_from_array` -/
example : (sites.filter (fun s => s.2.2 == 0)).length ≥ 1 ∧ scannedFunctions ≥ 10 := by decide

end Dask.Props.C29
