/-
C25 — store writes exactly the array into the requested target regions.  ONLY property
theorems (restated; proofs are one-liners from Lemmas/SourceIO) and non-vacuity examples.
Per axis (the write index is a tuple, fused axis by axis: `fuseTuple_axiswise`; NumPy slice
assignment is a per-axis product); for ALL target lengths, ALL chunkings (zero-length chunks
included) and ALL region slices with positive step.

Vocabulary (Model/SourceIO.lean): `storeWrites (some r) chunks` = the list, in block order, of
`fuse_slice(r, slice(cs, ce))` over the chunk slices `ArraySliceDep(chunks)` hands to
`load_store_chunk` (error = the `NotImplementedError` of `fuse_slice`);
`sel w n` = the target positions `out[w] = x` assigns, in order (`x[j]` goes to `(sel w n)[j]`).
-/
import DaskArrayModel.Lemmas.SourceIO
namespace Dask.Props.C25
open Dask.Py Dask.Py.PySlice Dask.Slicing Dask.SourceIO

/-- For a target region slice `r` with positive step whose selection on a target axis of
length `n` has as many elements as the source axis (`target[region].shape == source.shape`):
the write sets of the blocks (1) concatenate, in block order, to exactly `sel r n`, (2) are
pairwise disjoint, (3) block `b` writes exactly `chunks[b]` positions and its local element `j`
(global source position `blockStart chunks b + j`) lands at `(sel r n)[blockStart chunks b + j]`,
(4) no position outside `sel r n` is in any write set (complement untouched). -/
theorem C25_store_tiles (r : PySlice) (n : Int) (chunks : List Int) (ws : List PySlice)
    (hn : 0 ≤ n) (hstep : 0 < r.stp) (hc : ∀ c ∈ chunks, 0 ≤ c)
    (hlen : isum chunks = ((sel r n).length : Int))
    (hw : storeWrites (some r) chunks = .ok ws) :
    ws.flatMap (fun w => sel w n) = sel r n ∧
    List.Pairwise (fun a b : List Int => ∀ x ∈ a, x ∉ b) (ws.map (fun w => sel w n)) ∧
    (ws.length = chunks.length ∧
      ∀ (b : Nat) (hb : b < chunks.length) (w : PySlice), ws[b]? = some w →
        ((sel w n).length : Int) = chunks[b] ∧
        ∀ j : Nat, (j : Int) < chunks[b] →
          (sel w n)[j]? = (sel r n)[(blockStart chunks b + j).toNat]?) ∧
    (∀ q, q ∉ sel r n → ∀ w ∈ ws, q ∉ sel w n) :=
  Dask.Lemmas.SourceIO.store_tiles_all r n chunks ws hn hstep hc hlen hw

/-- the store of a region succeeds (no `NotImplementedError` from `fuse_slice`) exactly for
regions with non-negative start / stop / step; every other region is refused, never mis-written -/
theorem C25_store_refusal (r : PySlice) (chunks : List Int) (hc : ∀ c ∈ chunks, 0 ≤ c) (hne : chunks ≠ []) :
    (∃ ws, storeWrites (some r) chunks = .ok ws) ↔
      (0 ≤ r.start.getD 0 ∧ 0 ≤ r.step.getD 1 ∧ 0 ≤ r.stop.getD 0) :=
  Dask.Lemmas.SourceIO.storeWrites_ok_iff r chunks hc hne

/-- without `regions` the write slices are the chunk slices and tile the whole target axis
(target axis length = source axis length). -/
theorem C25_store_tiles_noregion (n : Int) (chunks : List Int) (hc : ∀ c ∈ chunks, 0 ≤ c)
    (hlen : isum chunks = n) :
    ∃ ws, storeWrites none chunks = .ok ws ∧ ws = (slicesFromChunks chunks).map chunkSlice ∧
      ws.flatMap (fun w => sel w n) = rangeList 0 n 1 :=
  Dask.Lemmas.SourceIO.store_tiles_noregion n chunks hc hlen

/-- n-d glue: for a region with one slice per axis, `fuse_slice(region, index)` on the tuples is
the per-axis fusion (so the n-d write set is the product of the per-axis write sets). -/
theorem C25_fuseTuple_axiswise (rs : List PySlice) (ps : List (Int × Int)) (out : List RIdx)
    (hl : rs.length = ps.length) (h : fuseTuple (rs.map RIdx.slc) ps = .ok out) :
    ∃ fs : List PySlice, out = fs.map RIdx.slc ∧
      mapE (fun (rp : PySlice × (Int × Int)) => storeIndexAxis (some rp.1) rp.2) (rs.zip ps) = .ok fs :=
  Dask.Lemmas.SourceIO.fuseTuple_axiswise rs ps out hl h

/-! non-vacuity -/
example : storeWrites (some ⟨some 2, some 20, some 3⟩) [2, 3, 1]
    = .ok [⟨some 2, some 8, some 3⟩, ⟨some 8, some 17, some 3⟩, ⟨some 17, some 20, some 3⟩] := by rfl
example : (sel ⟨some 2, some 20, some 3⟩ 25).length = 6 ∧
    [⟨some 2, some 8, some 3⟩, ⟨some 8, some 17, some 3⟩, ⟨some 17, some 20, some 3⟩].flatMap (fun w => sel w 25)
      = [2, 5, 8, 11, 14, 17] ∧ sel ⟨some 2, some 20, some 3⟩ 25 = [2, 5, 8, 11, 14, 17] := by decide
example : storeWrites (some ⟨some (-4), none, none⟩) [2, 2] = .error .notImplemented := by rfl
example : storeIndex (some [RIdx.slc ⟨some 1, some 5, none⟩, RIdx.int 4, RIdx.slc ⟨some 2, none, some 2⟩]) [(1, 3), (0, 2)]
    = .ok [RIdx.slc ⟨some 2, some 4, none⟩, RIdx.int 4, RIdx.slc ⟨some 2, some 6, some 2⟩] := by rfl

end Dask.Props.C25
