/-
C21 — The Frisky records path computes the same results as the dask graph (theorem side).

`records` / `resolve` (Model/Graph.lean) model `_records` / `_Flattener.resolve` of
dask_array/_frisky/graph_records.py and are tied to them by correspondence on every run
(`gr.flatten`, harness/props/C21.py).  For ALL nested nodes (no size bound), any interpretation of
the task functions.  `hsd`: `sorted(set(deps))` keeps exactly the collected strings (proved for
the concrete instance below); `hinj`: `f"{parent}-sub{n}"` is injective in `n`; `hsep`: no outer
key string referenced by the node is one of the sub-key strings (tuple keys end in `)`).
-/
import DaskArrayModel.Lemmas.Graph
namespace Dask.Props.C21
open Dask.Graph Dask.Lemmas.Graph

/-- EVALUATION.  Running the generated sub-records (in the order `_Flattener.extra` lists them)
and then the node's own record — each record seeing ONLY the dependencies it declares — stores
under the node's key the value `Task.__call__` computes for the nested node. -/
theorem C21_flatten_eval {κ φ lit σ ν : Type} [DecidableEq σ] (cfg : FlatCfg κ σ) (parent : σ)
    (I : Interp φ lit ν)
    (hsd : ∀ (l : List σ) (x : σ), x ∈ cfg.sortDedup l ↔ x ∈ l)
    (hinj : ∀ a b : Nat, cfg.subKey parent a = cfg.subKey parent b → a = b)
    (node : Node κ φ lit) (env : σ → Option ν)
    (hsep : ∀ k ∈ nodeRefs node, ∀ i, 0 < i → cfg.render k ≠ cfg.subKey parent i) :
    ∀ main extra, records cfg parent node = main :: extra →
      main.key = parent ∧
      runRecs I (extra ++ [main]) env parent = evalNode I (fun k => env (cfg.render k)) node :=
  records_eval I hsd hinj node env hsep

/-- FRESHNESS and COMPLETENESS.  The generated keys are pairwise distinct `subKey parent i`
(`i ≥ 1`); every dependency string of every record names an outer key the node references or a
generated sub-record. -/
theorem C21_flatten_complete {κ φ lit σ : Type} [DecidableEq σ] (cfg : FlatCfg κ σ) (parent : σ)
    (hsd : ∀ (l : List σ) (x : σ), x ∈ cfg.sortDedup l ↔ x ∈ l)
    (hinj : ∀ a b : Nat, cfg.subKey parent a = cfg.subKey parent b → a = b)
    (node : Node κ φ lit) :
    ∀ main extra, records cfg parent node = main :: extra →
      (extra.map (·.key)).Nodup ∧
      (∀ r ∈ extra, ∃ i, 1 ≤ i ∧ r.key = cfg.subKey parent i) ∧
      (∀ r ∈ main :: extra, ∀ s ∈ r.deps,
        (∃ k ∈ nodeRefs node, s = cfg.render k) ∨ ∃ r' ∈ extra, r'.key = s) :=
  records_complete hsd hinj node

/-- the Python instance of `sorted(set(·))` satisfies `hsd` -/
theorem C21_sorted_set_mem (l : List String) (x : String) : x ∈ pyCfg.sortDedup l ↔ x ∈ l :=
  mem_sortDedupBy _ l x

/-- SHARED `seen`.  Walking several roots one after the other with one `seen` set (starting
empty; nodes deduplicated by NAME) emits at most one node per name, reaches the name of every
root, every dependency of an emitted node has the name of an emitted node, and — given per-layer
completeness (a layer's records reference only its own keys or the block grid of a dependency's
name) and that every node produces the grid of its name — every dependency of every emitted record
is produced by an emitted layer (`_check_complete` holds for the union). -/
theorem C21_walk_shared_seen {α β σ : Type} [DecidableEq β] (nm : α → β) (deps : α → List α)
    (fuel : Nat) (roots : List α) (seen' : List β) (out' : List α)
    (h : walkAll nm deps fuel roots [] [] = some (seen', out'))
    (keysOf depsOf : α → List σ) (gridOf : β → List σ)
    (hlayer : ∀ e, ∀ s ∈ depsOf e, s ∈ keysOf e ∨ ∃ d ∈ deps e, s ∈ gridOf (nm d))
    (hprod : ∀ e, ∀ s ∈ gridOf (nm e), s ∈ keysOf e) :
    (out'.map nm).Nodup ∧ (∀ b, b ∈ seen' ↔ b ∈ out'.map nm) ∧ (∀ r ∈ roots, nm r ∈ out'.map nm) ∧
    (∀ e ∈ out', ∀ d ∈ deps e, nm d ∈ out'.map nm) ∧
    ∀ e ∈ out', ∀ s ∈ depsOf e, ∃ e' ∈ out', s ∈ keysOf e' := by
  obtain ⟨hc, hr, new, h1, h2, _, h4⟩ := walkAll_spec nm deps fuel roots [] [] seen' out' h
    (fun e he => by cases he)
  have hout : out' = new := by simpa using h1
  have hiff : ∀ b, b ∈ seen' ↔ b ∈ out'.map nm := fun b => by rw [h4 b, hout]; simp
  have hc' : ∀ e ∈ out', ∀ d ∈ deps e, nm d ∈ out'.map nm :=
    fun e he d hd => (hiff _).mp (hc e he d hd)
  exact ⟨hout ▸ h2, hiff, fun r hr' => (hiff _).mp (hr r hr'), hc',
    union_complete nm deps keysOf depsOf gridOf hlayer hprod hc'⟩

/-- a later collection walked with a non-empty shared `seen` contributes only nodes whose names
were not seen before, one per name -/
theorem C21_walk_increment {α β : Type} [DecidableEq β] (nm : α → β) (deps : α → List α) (fuel : Nat)
    (roots : List α) (seen : List β) (out : List α) (seen' : List β) (out' : List α)
    (h : walkAll nm deps fuel roots seen out = some (seen', out'))
    (hc : NameClosed nm deps out seen) :
    NameClosed nm deps out' seen' ∧ (∀ r ∈ roots, nm r ∈ seen') ∧
    ∃ new, out' = out ++ new ∧ (new.map nm).Nodup ∧ (∀ e ∈ new, nm e ∉ seen) ∧
      (∀ b, b ∈ seen' ↔ b ∈ seen ∨ b ∈ new.map nm) :=
  walkAll_spec nm deps fuel roots seen out seen' out' h hc

/-! ### non-vacuity: a concrete nested task -/

/-- keys and key strings are numbers here; sub-key `n` of parent `p` is `1000·(p+1)+n` -/
def cfgN : FlatCfg Nat Nat :=
  { render := id, subKey := fun p n => 1000 * (p + 1) + n, sortDedup := sortDedupBy (fun a b => decide (a < b)) }

def interp : Interp Nat Int Int :=
  { ofLit := id, mkList := fun vs => vs.foldl (· + ·) 0, mkTuple := fun vs => vs.foldl (· + ·) 0,
    apply := fun f _ vs => (f : Int) * vs.foldl (· + ·) 0 }

/-- `Task(f2, TaskRef 10, List(Task(f3, TaskRef 11, 7), TaskRef 10), Task(f5, DataNode 1))` -/
def nested : Node Nat Nat Int :=
  .task 2 [] (.cons (.taskRef 10) (.cons (.list (.cons (.task 3 [] (.cons (.taskRef 11) (.cons (.lit 7) .nil)))
    (.cons (.taskRef 10) .nil))) (.cons (.task 5 ["kw"] (.cons (.data 1) .nil)) .nil)))

def envN : Nat → Option Int := fun k => if k = 10 then some 100 else if k = 11 then some 4 else none

/-- record keys and dependency lists: the counter is pre-order, the records are appended post-order -/
example : (records cfgN 0 nested).map (fun r => (r.key, r.deps))
    = [(0, [10, 1001, 1002]), (1001, [11]), (1002, [])] := by decide
/-- evaluation of the node and of its flat records agree: 2·(100 + (3·(4+7) + 100) + 5·1) = 476 -/
example : evalNode interp envN nested = some 476 := by decide
example : (match records cfgN 0 nested with
           | main :: extra => runRecs interp (extra ++ [main]) envN 0
           | [] => none) = some 476 := by decide
/-- a record evaluated WITHOUT one of its collected dependencies fails (so dropping a dependency
in `_Flattener` is observable) -/
example : evalRec interp envN ⟨0, .fn 2, [], [.ref 10, .ref 11], [10]⟩ = none := by decide

/-- two collections sharing the subtree `{2, 3}`: `0 → 2 → 3`, `1 → 2`; node 12 is a pin carrying
the NAME of node 2 (as a `RootAlias` does) over a differently optimized subtree `12 → 13` -/
def depsW : Nat → List Nat := fun n =>
  if n = 0 then [2] else if n = 1 then [2] else if n = 2 then [3] else if n = 12 then [13] else []
def nmW : Nat → Nat := fun n => n % 10
example : walkAll nmW depsW 10 [0, 1] [] [] = some ([1, 3, 2, 0], [0, 2, 3, 1]) := by decide
/-- the pin 12 is skipped (its name 2 was emitted by the first collection), so is its subtree -/
example : walkAll nmW depsW 10 [0, 12] [] [] = some ([3, 2, 0], [0, 2, 3]) := by decide

end Dask.Props.C21
