/-
C02 — Every optimization phase and every fired rewrite preserves values.
ONLY property theorems (restated; proofs are one-liners from Lemmas/Rules*) and non-vacuity examples.

Scope.  `Expr` (Model/Expr.lean) is the mini-language of phase 1; `den env e` is its NumPy meaning,
`WF e` = what the real API accepts.  Model/Rules.lean has the rewrite rules as functions
`Expr → Option Expr`.  For EVERY rule, every well-formed `e`, every data / function environment:
if the rule fires, its product is well-formed, has the same NumPy shape and denotes the same array
(`C02_rule_sound_<rule>`).  The same holds for one optimizer step anywhere in the tree
(`C02_step_sound`), for every SEQUENCE of single-rule steps (`C02_any_sequence` — so sharing /
culling gates of the real optimizer, which only decline rewrites, cannot matter) and for the
fixpoint `optimize` (`C02_optimize_sound`); with phase 1 (`compute_eq_den`) the blocks computed by
the optimized expression assemble to the NumPy meaning of the ORIGINAL (`C02_optimize_compute`).

`.chunks` may legitimately change under a rewrite (C03 is about each expression's own `.chunks`).
It is preserved (theorems `C02_chunks_*`) by: slice through map / zip, rechunk∘rechunk, no-op
rechunk, rechunk through map / zip, rechunk into a source / into a region read; under a grid-sensitive parent `step`
accepts a rewritten child only when `.chunks` is unchanged (`keepGrid`).

Rules in `optimize` (17): sliceIdentityDrop, sliceSliceFuse, sliceThroughMap, sliceThroughZip,
sliceThroughTranspose, sliceThroughExpandDims, sliceThroughSqueeze, sliceThroughReduce,
sliceThroughConcat, rechunkNoop, rechunkRechunk, rechunkThroughMap, rechunkThroughZip,
rechunkThroughTranspose, rechunkThroughExpandDims, rechunkIntoSrc, rechunkIntoRegion.  Sound but outside
`optimize`:
sliceIntoSrcKeep (a region is kept as `slice (src …)`), sliceSplitInts.
Proved in the extension files (same check, same audit): slice through `broadcast_to`, rechunk through
concatenate, rechunk∘slice composition (Props/C02Ext.lean; rules in Model/Rules2.lean) and
blockwise fusion's block-id assignment (Props/C02Fusion.lean).
NOT modelled (covered by the end-to-end search only): the generic `Blockwise._accept_slice` (no
`BlockLocal` guard in the code), pushing integers through transpose / expand_dims / reductions
directly (recognised via `sliceSplitInts`), lowering (`_lower`) other than the chunk-preserving cases.
-/
import DaskArrayModel.Lemmas.RulesSound
namespace Dask.Props.C02
open Dask.Py Dask.ND

/-- what a sound rewrite guarantees -/
def Preserves (env : Env) (e' e : Expr) : Prop :=
  WF e' ∧ shape e' = shape e ∧ Arr.Equiv (den env e') (den env e)

theorem preserves_of {env : Env} {e' e : Expr} (h : Refines env e' e) : Preserves env e' e :=
  ⟨h.isWF, h.shapeEq, h.equiv⟩

/-! ### every rule -/

theorem C02_rule_sound_sliceSliceFuse (env : Env) (e e' : Expr) (hw : WF e)
    (h : sliceSliceFuse e = some e') : Preserves env e' e :=
  preserves_of (sliceSliceFuse_sound env e e' hw h)

theorem C02_rule_sound_sliceIdentityDrop (env : Env) (e e' : Expr) (hw : WF e)
    (h : sliceIdentityDrop e = some e') : Preserves env e' e :=
  preserves_of (sliceIdentityDrop_sound env e e' hw h)

theorem C02_rule_sound_sliceThroughMap (env : Env) (e e' : Expr) (hw : WF e)
    (h : sliceThroughMap e = some e') : Preserves env e' e :=
  preserves_of (sliceThroughMap_sound env e e' hw h)

theorem C02_rule_sound_sliceThroughZip (env : Env) (e e' : Expr) (hw : WF e)
    (h : sliceThroughZip e = some e') : Preserves env e' e :=
  preserves_of (sliceThroughZip_sound env e e' hw h)

theorem C02_rule_sound_sliceThroughTranspose (env : Env) (e e' : Expr) (hw : WF e)
    (h : sliceThroughTranspose e = some e') : Preserves env e' e :=
  preserves_of (sliceThroughTranspose_sound env e e' hw h)

theorem C02_rule_sound_sliceThroughExpandDims (env : Env) (e e' : Expr) (hw : WF e)
    (h : sliceThroughExpandDims e = some e') : Preserves env e' e :=
  preserves_of (sliceThroughExpandDims_sound env e e' hw h)

theorem C02_rule_sound_sliceThroughSqueeze (env : Env) (e e' : Expr) (hw : WF e)
    (h : sliceThroughSqueeze e = some e') : Preserves env e' e :=
  preserves_of (sliceThroughSqueeze_sound env e e' hw h)

theorem C02_rule_sound_sliceThroughReduce (env : Env) (e e' : Expr) (hw : WF e)
    (h : sliceThroughReduce e = some e') : Preserves env e' e :=
  preserves_of (sliceThroughReduce_sound env e e' hw h)

theorem C02_rule_sound_sliceThroughConcat (env : Env) (e e' : Expr) (hw : WF e)
    (h : sliceThroughConcat e = some e') : Preserves env e' e :=
  preserves_of (sliceThroughConcat_sound env e e' hw h)

theorem C02_rule_sound_sliceIntoSrcKeep (env : Env) (e e' : Expr) (hw : WF e)
    (h : sliceIntoSrcKeep e = some e') : Preserves env e' e :=
  preserves_of (sliceIntoSrcKeep_sound env e e' hw h)

theorem C02_rule_sound_sliceSplitInts (env : Env) (e e' : Expr) (hw : WF e)
    (h : sliceSplitInts e = some e') : Preserves env e' e :=
  preserves_of (sliceSplitInts_sound env e e' hw h)

theorem C02_rule_sound_rechunkNoop (env : Env) (e e' : Expr) (hw : WF e)
    (h : rechunkNoop e = some e') : Preserves env e' e :=
  preserves_of (rechunkNoop_sound env e e' hw h)

theorem C02_rule_sound_rechunkRechunk (env : Env) (e e' : Expr) (hw : WF e)
    (h : rechunkRechunk e = some e') : Preserves env e' e :=
  preserves_of (rechunkRechunk_sound env e e' hw h)

theorem C02_rule_sound_rechunkThroughMap (env : Env) (e e' : Expr) (hw : WF e)
    (h : rechunkThroughMap e = some e') : Preserves env e' e :=
  preserves_of (rechunkThroughMap_sound env e e' hw h)

theorem C02_rule_sound_rechunkThroughZip (env : Env) (e e' : Expr) (hw : WF e)
    (h : rechunkThroughZip e = some e') : Preserves env e' e :=
  preserves_of (rechunkThroughZip_sound env e e' hw h)

theorem C02_rule_sound_rechunkThroughTranspose (env : Env) (e e' : Expr) (hw : WF e)
    (h : rechunkThroughTranspose e = some e') : Preserves env e' e :=
  preserves_of (rechunkThroughTranspose_sound env e e' hw h)

theorem C02_rule_sound_rechunkThroughExpandDims (env : Env) (e e' : Expr) (hw : WF e)
    (h : rechunkThroughExpandDims e = some e') : Preserves env e' e :=
  preserves_of (rechunkThroughExpandDims_sound env e e' hw h)

theorem C02_rule_sound_rechunkIntoSrc (env : Env) (e e' : Expr) (hw : WF e)
    (h : rechunkIntoSrc e = some e') : Preserves env e' e :=
  preserves_of (rechunkIntoSrc_sound env e e' hw h)

theorem C02_rule_sound_rechunkIntoRegion (env : Env) (e e' : Expr) (hw : WF e)
    (h : rechunkIntoRegion e = some e') : Preserves env e' e :=
  preserves_of (rechunkIntoRegion_sound env e e' hw h)

/-- … and it delivers exactly the requested chunks -/
theorem C02_chunks_rechunkIntoRegion (e e' : Expr) (h : rechunkIntoRegion e = some e') :
    chunks e' = chunks e := by
  unfold rechunkIntoRegion at h; split at h
  · split at h
    · dsimp only at h
      split at h
      · rename_i hc; injection h with h; subst h; exact hc.2
      · exact absurd h (by simp)
    · exact absurd h (by simp)
  · exact absurd h (by simp)

/-- the index walk of slice∘slice fusion (`fuse_slice` + `normalize_slice`), stated on indices:
the fused index is accepted, selects the same shape, and reads the same input positions -/
theorem C02_fuseIx_sound (sh : List Nat) (a b f : List Ix) (ha : wfIx sh a = true)
    (hb : wfIx (sliceShape sh a) b = true) (h : fuseIx sh a b = some f) :
    wfIx sh f = true ∧ sliceShape sh f = sliceShape (sliceShape sh a) b ∧
      ∀ i, InB i (sliceShape sh f) → sliceIdx sh f i = sliceIdx sh a (sliceIdx (sliceShape sh a) b i) :=
  fuseIx_sound sh a b f ha hb h

/-! ### steps, sequences, the fixpoint -/

/-- one optimizer step (first applicable rule at the root, else in a child), anywhere in the tree -/
theorem C02_step_sound (env : Env) (henv : EnvOK env) (e e' : Expr) (hw : WF e)
    (h : step e = some e') : Preserves env e' e :=
  preserves_of (step_refines env henv e e' hw h)

/-- every sequence of single-rule steps (any rules of the model, in any order) -/
theorem C02_any_sequence (env : Env) (henv : EnvOK env) (e e' : Expr) (hw : WF e)
    (h : Rewrites e e') : Preserves env e' e :=
  preserves_of (rewrites_refines env henv h hw)

/-- the optimizer preserves values and shape -/
theorem C02_optimize_sound (env : Env) (henv : EnvOK env) (e : Expr) (hw : WF e) :
    Arr.Equiv (den env (optimize e)) (den env e) ∧ shape (optimize e) = shape e :=
  let r := optimize_refines rules_sound env henv e hw
  ⟨r.equiv, r.shapeEq⟩

/-- … and with phase 1: the blocks computed by the optimized expression assemble to the NumPy
meaning of the original expression -/
theorem C02_optimize_compute (env : Env) (henv : EnvOK env) (e : Expr) (hw : WF e) :
    Arr.Equiv (compute env (optimize e)) (den env e) :=
  let r := optimize_refines rules_sound env henv e hw
  (compute_eq_den env henv (optimize e) r.isWF).trans r.equiv

/-- … same flat data -/
theorem C02_optimize_data (env : Env) (henv : EnvOK env) (e : Expr) (hw : WF e) :
    (compute env (optimize e)).toList = (den env e).toList :=
  (C02_optimize_compute env henv e hw).toList_eq

/-! ### rules that keep `.chunks` -/

theorem C02_chunks_sliceThroughMap (e e' : Expr) (h : sliceThroughMap e = some e') :
    chunks e' = chunks e := by
  unfold sliceThroughMap at h; split at h
  · injection h with h; subst h; rfl
  · exact absurd h (by simp)

theorem C02_chunks_sliceThroughZip (e e' : Expr) (h : sliceThroughZip e = some e') :
    chunks e' = chunks e := by
  unfold sliceThroughZip at h; split at h
  · injection h with h; subst h; rfl
  · exact absurd h (by simp)

theorem C02_chunks_rechunk (e e' : Expr)
    (h : rechunkRechunk e = some e' ∨ rechunkThroughMap e = some e' ∨ rechunkThroughZip e = some e' ∨
      rechunkIntoSrc e = some e' ∨ rechunkNoop e = some e') : chunks e' = chunks e := by
  rcases h with h | h | h | h | h
  · unfold rechunkRechunk at h; split at h
    · injection h with h; subst h; rfl
    · exact absurd h (by simp)
  · unfold rechunkThroughMap at h; split at h
    · injection h with h; subst h; rfl
    · exact absurd h (by simp)
  · unfold rechunkThroughZip at h; split at h
    · injection h with h; subst h; rfl
    · exact absurd h (by simp)
  · unfold rechunkIntoSrc at h; split at h
    · injection h with h; subst h; rfl
    · exact absurd h (by simp)
  · unfold rechunkNoop at h; split at h
    · split at h
      · rename_i hl; injection h with h; subst h; exact hl.symm
      · exact absurd h (by simp)
    · exact absurd h (by simp)

/-! ### non-vacuity: every rule fires on a concrete well-formed tree and CHANGES it -/

def xEnv : Env :=
  { src := fun _ => ⟨[4, 5], fun i => (flatIndex [4, 5] i : Int)⟩
    un := fun _ x => -x
    bin := fun _ x y => x + y }
def xSrc : Expr := .src 0 [4, 5] [[2, 2], [3, 2]]
def sl (a b c : Option Int) : Ix := .slc ⟨a, b, c⟩

example : WF xSrc := by decide
-- slice∘slice: x[1:4, ::2][1:, 1] ↦ x[2:, 2]   (`fuse_slice`, then `normalize_slice`)
example : sliceSliceFuse (.slice (.slice xSrc [sl (some 1) (some 4) none, sl none none (some 2)])
      [sl (some 1) none none, .int 1])
    = some (.slice xSrc [sl (some 2) none none, .int 2]) := by decide
-- … declined for a negative step (NotImplementedError in `fuse_slice`)
example : sliceSliceFuse (.slice (.slice xSrc [sl none none (some (-1)), colonIx]) [colonIx, colonIx]) = none := by
  decide
example : sliceIdentityDrop (.slice (.map 0 xSrc) [colonIx, colonIx]) = some (.map 0 xSrc) := by decide
example : sliceThroughMap (.slice (.map 0 xSrc) [.int 1, colonIx]) = some (.map 0 (.slice xSrc [.int 1, colonIx])) := by
  decide
example : sliceThroughZip (.slice (.zip 0 xSrc xSrc) [.int 1, colonIx])
    = some (.zip 0 (.slice xSrc [.int 1, colonIx]) (.slice xSrc [.int 1, colonIx])) := by decide
-- the index is permuted: output axis 0 is input axis 1
example : sliceThroughTranspose (.slice (.transpose xSrc [1, 0]) [sl (some 1) (some 4) (some 2), sl none (some 3) none])
    = some (.transpose (.slice xSrc [sl none (some 3) none, sl (some 1) (some 4) (some 2)]) [1, 0]) := by decide
example : sliceThroughExpandDims (.slice (.expandDims xSrc 1) [sl (some 1) none none, colonIx, sl none none (some 2)])
    = some (.expandDims (.slice xSrc [sl (some 1) none none, sl none none (some 2)]) 1) := by decide
example : sliceThroughSqueeze (.slice (.squeeze (.reduce .sum xSrc 1 4) 1) [sl (some 1) (some 3) none])
    = some (.squeeze (.slice (.reduce .sum xSrc 1 4) [sl (some 1) (some 3) none, .slc Dask.Slicing.colon]) 1) := by decide
example : sliceThroughReduce (.slice (.reduce .sum xSrc 1 4) [sl (some 1) (some 3) none, colonIx])
    = some (.reduce .sum (.slice xSrc [sl (some 1) (some 3) none, colonIx]) 1 4) := by decide
-- … declined when the reduced axis is indexed (its index must not reach the input)
example : sliceThroughReduce (.slice (.reduce .sum xSrc 1 4) [colonIx, sl (some 0) (some 1) none]) = none := by decide
-- concat: rows 1..5 of a 4-row and a 2-row array: rows 1..4 of the first, row 0 of the second
example : sliceThroughConcat (.slice (.concat xSrc (.src 1 [2, 5] [[2], [3, 2]]) 0) [sl (some 1) (some 5) none, colonIx])
    = some (.concat (.slice xSrc [sl (some 1) (some 4) none, colonIx])
        (.slice (.src 1 [2, 5] [[2], [3, 2]]) [sl (some 0) (some 1) none, colonIx]) 0) := by decide
-- … an operand the slice misses is dropped
example : sliceThroughConcat (.slice (.concat xSrc (.src 1 [2, 5] [[2], [3, 2]]) 0) [sl (some 4) none none, colonIx])
    = some (.slice (.src 1 [2, 5] [[2], [3, 2]]) [sl (some 0) (some 2) none, colonIx]) := by decide
example : sliceSplitInts (.slice xSrc [.int (-1), sl (some 1) none none])
    = some (.slice (.slice xSrc [sl (some 3) (some 4) none, sl (some 1) none none]) [.int 0, colonIx]) := by decide
example : rechunkNoop (.rechunk xSrc [[2, 2], [3, 2]]) = some xSrc := by decide
example : rechunkRechunk (.rechunk (.rechunk xSrc [[4], [5]]) [[1, 3], [5]]) = some (.rechunk xSrc [[1, 3], [5]]) := by
  decide
example : rechunkThroughMap (.rechunk (.map 0 xSrc) [[4], [5]]) = some (.map 0 (.rechunk xSrc [[4], [5]])) := by decide
example : rechunkThroughZip (.rechunk (.zip 0 xSrc xSrc) [[4], [5]])
    = some (.zip 0 (.rechunk xSrc [[4], [5]]) (.rechunk xSrc [[4], [5]])) := by decide
example : rechunkThroughTranspose (.rechunk (.transpose xSrc [1, 0]) [[5], [1, 3]])
    = some (.transpose (.rechunk xSrc [[1, 3], [5]]) [1, 0]) := by decide
example : rechunkThroughExpandDims (.rechunk (.expandDims xSrc 0) [[1], [4], [5]])
    = some (.expandDims (.rechunk xSrc [[4], [5]]) 0) := by decide
example : rechunkIntoSrc (.rechunk xSrc [[4], [5]]) = some (.src 0 [4, 5] [[4], [5]]) := by decide
-- a region read x[1:4, :3] rechunked to ((2,1),(3,)): the source is read in chunks ((1,2,1),(3,2))
example : rechunkIntoRegion (.rechunk (.slice xSrc [sl (some 1) (some 4) none, sl none (some 3) none]) [[2, 1], [3]])
    = some (.slice (.src 0 [4, 5] [[1, 2, 1], [3, 2]]) [sl (some 1) (some 4) none, sl none (some 3) none]) := by decide

/-- the hypotheses are jointly satisfiable and the conclusion is about real data: the transposed
slice and its pushed-down form have the same non-trivial values -/
def xT : Expr := .slice (.transpose xSrc [1, 0]) [sl (some 1) (some 4) (some 2), sl none (some 3) none]
def xT' : Expr := .transpose (.slice xSrc [sl none (some 3) none, sl (some 1) (some 4) (some 2)]) [1, 0]
example : WF xT ∧ sliceThroughTranspose xT = some xT' := by decide
example : (den xEnv xT).toList = [1, 6, 11, 3, 8, 13] ∧ (den xEnv xT').toList = [1, 6, 11, 3, 8, 13] := by decide

/-- the statements have teeth: the UNSOUND variant of slice-through-transpose that forgets to
permute the index is well-formed on a square array but denotes a different array -/
def sqSrc : Expr := .src 0 [4, 4] [[2, 2], [2, 2]]
def sqEnv : Env :=
  { src := fun _ => ⟨[4, 4], fun i => (flatIndex [4, 4] i : Int)⟩, un := fun _ x => x, bin := fun _ x _ => x }
def sqT : Expr := .slice (.transpose sqSrc [1, 0]) [sl (some 1) (some 3) none, colonIx]
def sqBad : Expr := .transpose (.slice sqSrc [sl (some 1) (some 3) none, colonIx]) [1, 0]
example : WF sqT ∧ WF sqBad := by decide
example : (den sqEnv sqT).toList = [1, 5, 9, 13, 2, 6, 10, 14] := by decide
example : (den sqEnv sqBad).toList = [4, 8, 5, 9, 6, 10, 7, 11] := by decide
example : ¬ Arr.Equiv (den sqEnv sqBad) (den sqEnv sqT) := by
  intro h; have := h.1; revert this; decide
/-- … and fusing slices without the `min(a.stop, …)` clamp is unsound: x[0:2][0:3] is x[0:2], not x[0:3] -/
example : (den xEnv (.slice (.slice xSrc [sl none (some 2) none, colonIx]) [sl none (some 3) none, colonIx])).shape = [2, 5] ∧
    (den xEnv (.slice xSrc [sl none (some 3) none, colonIx])).shape = [3, 5] := by decide

end Dask.Props.C02
