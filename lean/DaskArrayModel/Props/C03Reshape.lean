/-
C03 (reshape) — "the block at every block index has exactly the size given by `.chunks`": corollaries of the
reshape plan theorems (Props/C01Reshape.lean; model Model/Reshape.lean, `ReshapeLowered._layer`).
ONLY property theorems (one-liners from Lemmas/ReshapeCorrect.lean) and non-vacuity examples.
Hypotheses as in Props/C01Reshape.lean (`WFIn`, `Pos`, equal sizes, the planner accepted).
-/
import DaskArrayModel.Lemmas.ReshapeCorrect
namespace Dask.Props.C03Reshape
open Dask.ND Dask.Reshape

/-- the advertised output chunks are a chunking of the requested shape (and the rechunk target a chunking
of the input shape) -/
theorem C03r_chunks_layout (inshape outshape : List Nat) (inchunks ic oc : List Chunks)
    (hwf : WFIn inshape inchunks) (hpos : Pos inshape) (hprod : prodL inshape = prodL outshape)
    (h : plan inshape outshape inchunks = .ok (ic, oc)) :
    IsLayout oc outshape ∧ IsLayout ic inshape :=
  ⟨(plan_valid hwf hpos hprod h).2, (plan_valid hwf hpos hprod h).1⟩

/-- the task of output block `bid` produces a block of exactly the advertised shape `chunks[k][bid[k]]` … -/
theorem C03r_block_shape {α : Type} (a : Arr α) (ic oc : List Chunks) (bid : List Nat) :
    (planBlock a ic oc bid).shape = blockShape oc bid := rfl

/-- … and its `M.reshape(in_block, shape)` is legal: the paired input block exists and has exactly as many
elements as the advertised shape (so NumPy cannot raise "cannot reshape array of size …") -/
theorem C03r_block_legal {α : Type} (inshape outshape : List Nat) (inchunks ic oc : List Chunks)
    (hwf : WFIn inshape inchunks) (hpos : Pos inshape) (hprod : prodL inshape = prodL outshape)
    (h : plan inshape outshape inchunks = .ok (ic, oc)) (a : Arr α) (bid : List Nat) (hb : validBid oc bid) :
    validBid ic (unflat (numblocks ic) (flatIndex (numblocks oc) bid)) ∧
      prodL (blocksOf a ic (unflat (numblocks ic) (flatIndex (numblocks oc) bid))).shape =
        prodL (planBlock a ic oc bid).shape :=
  ⟨((plan_blocks hwf hpos hprod h).2 bid hb).1, plan_block_legal hwf hpos hprod h a bid hb⟩

/-- the assembled result has the requested shape -/
theorem C03r_compute_shape {α : Type} (inshape outshape : List Nat) (inchunks ic oc : List Chunks)
    (hwf : WFIn inshape inchunks) (hpos : Pos inshape) (hprod : prodL inshape = prodL outshape)
    (h : plan inshape outshape inchunks = .ok (ic, oc)) (a : Arr α) (ha : a.shape = inshape) :
    (planArr a ic oc).shape = outshape :=
  plan_shape hwf hpos hprod h a ha

/-! ### non-vacuity -/

example : WFIn [6, 5, 4] [[3, 3], [2, 3], [2, 2]] ∧ Pos [6, 5, 4] ∧ prodL [6, 5, 4] = prodL [3, 2, 5, 4] ∧
    plan [6, 5, 4] [3, 2, 5, 4] [[3, 3], [2, 3], [2, 2]] =
      .ok ([[2, 2, 2], [2, 3], [2, 2]], [[1, 1, 1], [2], [2, 3], [2, 2]]) ∧
    validBid [[1, 1, 1], [2], [2, 3], [2, 2]] [2, 0, 1, 1] ∧
    blockShape [[1, 1, 1], [2], [2, 3], [2, 2]] [2, 0, 1, 1] = [1, 2, 3, 2] ∧
    blockShape [[2, 2, 2], [2, 3], [2, 2]]
      (unflat (numblocks [[2, 2, 2], [2, 3], [2, 2]])
        (flatIndex (numblocks [[1, 1, 1], [2], [2, 3], [2, 2]]) [2, 0, 1, 1])) = [2, 3, 2] :=
  ⟨by decide, by decide, by rfl, by rfl, by decide, by rfl, by rfl⟩

end Dask.Props.C03Reshape
