/-
C02 (extension) — the COARSE slice pushdown through a `Blockwise` with `adjust_chunks`
(`Blockwise._accept_slice_coarse`, dask_array/_blockwise.py) preserves values.
Model: Model/CoarseSlice.lean (see its header for the Python ↔ Lean table); proofs: Lemmas/CoarseSlice*.lean.
ONLY property theorems (restated, one-line proofs) and non-vacuity examples.
-/
import DaskArrayModel.Lemmas.CoarseSliceAlign
namespace Dask.Props.C02Coarse
open Dask.Py Dask.Py.PySlice Dask.Slicing Dask.Coarse Dask.Lemmas.Coarse

/-- **Soundness, n-d, every block-to-block function.**  For every `F` (what a task computes from the blocks it
receives — dask assumes nothing else about `func`), every operand (arbitrary contents, arbitrary chunks `≥ 0`, any
labels incl. contracted ones and literals), every advertised output chunking `oc`, every index on which the rule fires
(`acceptCoarse … = some r`): at every result coordinate inside the selection, indexing the original node gives what
the rewritten expression (new `Blockwise` over whole-block slices of the operands, kept `adjust_chunks` entries,
adjustment on top) gives.  Hypotheses (all decidable well-formedness): chunks `≥ 0`, one chunk tuple per output label,
NumPy-valid index.  Nothing is assumed about what slicing an operand keeps: the fired rule passed
`0 in arg.chunks[dim_idx]` on every sliced operand axis (commit 978baf4), and positive chunks give it
(`C02c_keeps_of_pos`). -/
theorem C02c_accept_sound {α β : Type} (F : List (List Nat → Blk α) → List Int → β) (outInd : List Nat)
    (ops : List (Operand α)) (adjust : List (Nat × AdjKind)) (newAxes : List (Nat × List Int))
    (oc : List (List Int)) (idx : List Idx) (r : Result)
    (h : acceptCoarse ⟨outInd, ops.map Operand.toOpd, adjust, newAxes⟩ oc idx = some r)
    (hoc : ∀ cs ∈ oc, ∀ c ∈ cs, 0 ≤ c) (hlen : oc.length = outInd.length) (hil : idx.length ≤ outInd.length)
    (hok : idxsOK oc (fullIndex idx outInd.length) = true)
    (hnn : ∀ q ∈ chunkPairs (ops.map Operand.toOpd), ∀ c ∈ q.2, 0 ≤ c)
    (q : List Nat) (hql : q.length = outInd.length) (hq : inSels oc (fullIndex idx outInd.length) q = true) :
    indexDen (bwDen F outInd ops oc) (oc.map isum) (fullIndex idx outInd.length) q
      = rewrittenDen F outInd ops (keptOut oc r.plans) r q :=
  accept_sound_fired F outInd ops adjust newAxes oc idx r (acceptCoarse_le _ oc idx r h) hoc hlen hil hok hnn q hql hq

/-- The statement the proof goes through, for ANY plans and operand slices that satisfy `keepsAll` (slicing an operand
to whole blocks keeps exactly those blocks) — it does not use the zero-width gate and is what made the gate's absence
visible (`C02c_zero_width_operand_witness`). -/
theorem C02c_accept_sound_keeps {α β : Type} (F : List (List Nat → Blk α) → List Int → β) (outInd : List Nat)
    (ops : List (Operand α)) (adjust : List (Nat × AdjKind)) (newAxes : List (Nat × List Int))
    (oc : List (List Int)) (idx : List Idx) (r : Result)
    (h : acceptCoarse ⟨outInd, ops.map Operand.toOpd, adjust, newAxes⟩ oc idx = some r)
    (hoc : ∀ cs ∈ oc, ∀ c ∈ cs, 0 ≤ c) (hlen : oc.length = outInd.length) (hil : idx.length ≤ outInd.length)
    (hok : idxsOK oc (fullIndex idx outInd.length) = true)
    (hkeep : keepsAll outInd r.plans (ops.map Operand.toOpd) = true)
    (q : List Nat) (hql : q.length = outInd.length) (hq : inSels oc (fullIndex idx outInd.length) q = true) :
    indexDen (bwDen F outInd ops oc) (oc.map isum) (fullIndex idx outInd.length) q
      = rewrittenDen F outInd ops (keptOut oc r.plans) r q :=
  accept_sound F outInd ops adjust newAxes oc idx r (acceptCoarse_le _ oc idx r h) hoc hlen hil hok hkeep q hql hq

/-- Slicing an axis with positive chunks to the whole blocks `first..last` (`normalize_slice` + `new_blockdim`) keeps
exactly those blocks. -/
theorem C02c_keeps_of_pos (ic : List Int) (hpos : ∀ c ∈ ic, 0 < c) (f l : Nat) (hfl : f ≤ l) (hl : l < ic.length) :
    sliceKeeps ic f l = true :=
  sliceKeeps_of_pos ic hpos f l hfl hl

/-- Why the position-wise meaning `bwDen` is "assemble (F blocks)": in 1-d, reading position `p` of the concatenation
of the blocks is reading, in the block `k` that `_slice_1d` finds for `p` on the chunks `len(block_k)`, the offset it
finds. -/
theorem C02c_den_is_assemble_1d {β : Type} (blocks : List (List β)) (p : Int) (h0 : 0 ≤ p)
    (h1 : p < isum (lens blocks)) :
    (blocks.flatten)[p.toNat]?
      = (blocks.getD (slice1dInt (lens blocks) p).1 [])[(slice1dInt (lens blocks) p).2.toNat]? :=
  assemble_get blocks p h0 h1

/-- One axis of it, in terms of positions: the source position `p` of result coordinate `q` lies in block `k` of the
output at offset `o`; the position the top adjustment reads lies in block `k - first` of the kept blocks at the same
offset `o`; and `first ≤ k ≤ last`. -/
theorem C02c_axis_sound (oc : List Int) (hoc : ∀ c ∈ oc, 0 ≤ c) (idx : Idx) (hidx : idxOK (isum oc) idx = true)
    (pl : AxisPlan) (h : acceptAxis oc idx = some pl) (q : Nat) (hq : inSel (isum oc) idx q = true) :
    brOK oc.length pl ∧
    (slice1dInt oc (srcPos1 (isum oc) idx q)).1
      = (slice1dInt (keptOut1 oc pl) (srcPos1 (isum (keptOut1 oc pl)) pl.adj.toIdx q)).1 + first1 pl ∧
    (slice1dInt oc (srcPos1 (isum oc) idx q)).2
      = (slice1dInt (keptOut1 oc pl) (srcPos1 (isum (keptOut1 oc pl)) pl.adj.toIdx q)).2 ∧
    (∀ f l, pl.br = some (f, l) →
      (slice1dInt (keptOut1 oc pl) (srcPos1 (isum (keptOut1 oc pl)) pl.adj.toIdx q)).1 ≤ l - f) :=
  acceptAxis_sound oc hoc idx hidx pl h q hq

/-- `find_block_range` (the `searchsorted` arithmetic), all answers: out of bounds (`(None, None)`) exactly when `start`
is at or beyond the end; the *empty* answer `last = first - 1` for `stop ≤ start` inside the axis; otherwise
`first..last` is exactly the set of blocks that meet `[start, stop)` (zero-width blocks at the edges are skipped). -/
theorem C02c_findBlockRange_spec (cs : List Int) (h : ∀ c ∈ cs, 0 ≤ c) (start stop : Int) (h0 : 0 ≤ start) :
    (findBlockRange (cum0 cs) start stop = none ↔ isum cs ≤ start) ∧
    (start < isum cs → stop ≤ start →
      ∃ f : Nat, findBlockRange (cum0 cs) start stop = some (f, (f : Int) - 1) ∧ f < cs.length) ∧
    (start < stop → stop ≤ isum cs →
      ∃ f l : Nat, findBlockRange (cum0 cs) start stop = some (f, (l : Int)) ∧ f ≤ l ∧ l < cs.length ∧
        ∀ k, (f ≤ k ∧ k ≤ l) ↔ (blockStart cs k < stop ∧ start < blockStart cs (k + 1))) :=
  findBlockRange_spec cs h start stop h0

/-- What firing on a sliced axis means: unit step, non-empty selection, kept range = the blocks of `start` and
`stop - 1`, adjustment relative to the first kept block (`slice(None)` iff the selection is the whole kept range). -/
theorem C02c_axis_fires (oc : List Int) (hoc : ∀ c ∈ oc, 0 ≤ c) (s : PySlice) (hc : s ≠ colon) (pl : AxisPlan)
    (h : acceptAxis oc (.slc s) = some pl) :
    s.stp = 1 ∧ s.istart (isum oc) < s.istop (isum oc) ∧
    ∃ f l : Nat, pl.br = some (f, l) ∧ f ≤ l ∧ l < oc.length ∧
      blockStart oc f ≤ s.istart (isum oc) ∧ s.istart (isum oc) < blockStart oc (f + 1) ∧
      blockStart oc l ≤ s.istop (isum oc) - 1 ∧ s.istop (isum oc) - 1 < blockStart oc (l + 1) ∧
      pl.adj = (if s.istart (isum oc) - blockStart oc f = 0 ∧
                   s.istop (isum oc) - blockStart oc f = blockStart oc (l + 1) - blockStart oc f
                then Adj.colon
                else Adj.rng (s.istart (isum oc) - blockStart oc f) (s.istop (isum oc) - blockStart oc f)) :=
  acceptAxis_slc oc hoc s hc pl h

/-- The per-axis declines: a step other than 1, and every empty selection (inside, at the end of, or beyond the axis). -/
theorem C02c_axis_declines (oc : List Int) (hoc : ∀ c ∈ oc, 0 ≤ c) (s : PySlice) (hc : s ≠ colon) :
    (s.stp ≠ 1 → acceptAxis oc (.slc s) = none) ∧
    (s.istop (isum oc) ≤ s.istart (isum oc) → acceptAxis oc (.slc s) = none) :=
  acceptAxis_declines oc hoc s hc

/-- The operand-level declines: an operand without `_meta` that carries labels (`ArraySliceDep`, `block_info`'s
`ArrayValuesDep`), and any operand on which the loop over `arg_ind` bails out on its own (broadcast axis or zero-width
chunk, `opAxisSlice`); the third gate, which depends on the operands seen before, is in `C02c_operand_axis_gates`. -/
theorem C02c_operand_declines (n : Node) (oc : List (List Int)) (idx : List Idx) (o : Opd) (ho : o ∈ n.ops) :
    (o.ind.isSome = true → o.isArr = false → acceptCoarse n oc idx = none) ∧
    (∀ plans ind, axisPlans oc (fullIndex idx n.outInd.length) = some plans → o.ind = some ind →
      opAxesSlices n.outInd plans (oc.map List.length) ind o.chunks = none → acceptCoarse n oc idx = none) :=
  ⟨fun h1 h2 => acceptCoarse_none_of_0 n oc idx ((operand_declines n oc idx o ho).1 h1 h2),
   fun plans ind hp hi hsl => acceptCoarse_none_of_0 n oc idx ((operand_declines n oc idx o ho).2 plans ind hp hi hsl)⟩

/-- The three gates of one operand axis (with the running `label_chunks` `lc`), as an equivalence: the label is sliced
to a block range and the axis has another block count than the output (broadcast), or a zero-width chunk, or other
chunks than the first sliced operand axis seen for this label. -/
theorem C02c_operand_axis_gates (outInd : List Nat) (plans : List AxisPlan) (nb : List Nat) (lc : LabelChunks)
    (lab : Nat) (ic : List Int) :
    opAxisSliceS outInd plans nb lc lab ic = none ↔
      (outInd.contains lab = true ∧ (plans.getD (outInd.idxOf lab) ⟨none, .colon⟩).br ≠ none ∧
        (ic.length ≠ nb.getD (outInd.idxOf lab) 0 ∨ ic.contains 0 = true ∨
          ∃ ref, lc.lookup lab = some ref ∧ ref ≠ ic)) :=
  opAxisSliceS_none_iff outInd plans nb lc lab ic

/-- The cross-operand gate (c36af38) only declines: where the rule fires, the rule without the gate fires with the same
result (so everything proved from the per-operand gates carries over). -/
theorem C02c_aligned_gate_only_declines (n : Node) (oc : List (List Int)) (idx : List Idx) (r : Result)
    (h : acceptCoarse n oc idx = some r) : acceptCoarse0 n oc idx = some r :=
  acceptCoarse_le n oc idx r h

/-- What it guarantees: when the rule fires, any two sliced operand axes carrying the same label have EQUAL chunks — one
block range selects the same positions of each. -/
theorem C02c_fired_aligned (n : Node) (oc : List (List Int)) (idx : List Idx) (r : Result)
    (h : acceptCoarse n oc idx = some r) :
    ∀ q ∈ chunkPairs n.ops, ∀ q' ∈ chunkPairs n.ops, q.1 = q'.1 → Sliced n.outInd r.plans q.1 → q.2 = q'.2 :=
  fired_aligned n oc idx r h

/-- **Witness: the empty-range declines are necessary** (defects before c4c92dd / 5c4b759).  For `z[1:1]` on chunks
`(2, 2)` `find_block_range` gives the empty answer `(0, -1)`, the rule now declines; the node it used to build (operands
sliced to `slice(0, 0)`, `adjust_chunks` kept) is ill-formed for a tuple value (`Blockwise.chunks` raises) and for
`adjust_chunks = 1` advertises one element where the selection is empty. -/
theorem C02c_empty_range_witness :
    findBlockRange (cum0 [2, 2]) 1 1 = some (0, -1) ∧
    (acceptCoarse wTuple [[2, 2]] [.slc ⟨some 1, some 1, none⟩]).isNone = true ∧
    nodeChunks wTuple = some [[2, 2]] ∧ nodeChunks (preFixEmptyNode wTuple) = none ∧
    (acceptCoarse wConst [[1, 1]] [.slc ⟨some 1, some 1, none⟩]).isNone = true ∧
    nodeChunks (preFixEmptyNode wConst) = some [[1]] ∧ (sel ⟨some 1, some 1, none⟩ 2).length = 0 := by
  decide

/-- **Witness: the broadcast decline is necessary** (defect before 5146f35).  An operand axis with ONE block against an
output label with two blocks: the rule declines; the slice it used to take, `slice(in_cum[1], in_cum[2])`, selects nothing
of the operand although block 1 of the output is computed from the operand's only block. -/
theorem C02c_broadcast_witness :
    opAxisSlice [0] [⟨some (1, 1), .colon⟩] [2] 0 [1] = none ∧
    (acceptCoarse ⟨[0], [⟨true, some [0], [[1, 1]]⟩, ⟨true, some [0], [[1]]⟩], [(0, .const 1)], []⟩ [[1, 1]]
      [.slc ⟨some 1, some 2, none⟩]).isNone = true ∧
    sel ⟨some ((cum0 [1]).getD 1 0), some ((cum0 [1]).getD 2 0), none⟩ 1 = [] := by
  decide

/-- **Witness: the zero-width decline is necessary** (defect before 978baf4).  An operand with a zero-width chunk
inside the kept range (`x.chunks = (1, 2, 0, 3)`, `map_blocks(f, x, chunks=((1, 1, 1, 1),))[1:3]`): the rule now declines
(also when the empty block lies outside the kept range: `[0:1]`).  The node it used to build — output blocks 1..2, two
`adjust_chunks` entries, operand `x[1:3]` — is ill-formed: `x[1:3]` has ONE block (`new_blockdim` drops the empty block),
`keepsAll` fails and `Blockwise.chunks` raises "adjust_chunks specified with 2 blocks". -/
theorem C02c_zero_width_operand_witness :
    (acceptCoarse wZero [[1, 1, 1, 1]] [.slc ⟨some 1, some 3, none⟩]).isNone = true ∧
    (acceptCoarse wZero [[1, 1, 1, 1]] [.slc ⟨some 0, some 1, none⟩]).isNone = true ∧
    (axisPlans [[1, 1, 1, 1]] [.slc ⟨some 1, some 3, none⟩]).any (fun ps => ps.map (·.br) == [some (1, 2)]) = true ∧
    keepsAll wZero.outInd [⟨some (1, 2), .colon⟩] wZero.ops = false ∧
    nodeChunks (rewritten wZero ⟨[⟨some (1, 2), .colon⟩], [some [some (1, 3)]], [(0, .tuple [1, 1])]⟩) = none ∧
    opChunksAfter [1, 2, 0, 3] (some (1, 3)) = [2] ∧ keptChunks [1, 2, 0, 3] 1 2 = [2, 0] := by
  decide

/-- **Witness: the aligned-operands decline is necessary** (defect before c36af38).  Two operands with equal block
counts and other boundaries on the sliced label, chunks `(2, 2, 3)` and `(3, 3, 1)` (`align_arrays=True` has not aligned
them yet), `adjust_chunks = 1`, `z[1:3]`: the rule declines; without the gate it kept blocks 1..2 of both, the slices
`[2:7]` and `[3:7]` — operands of lengths 5 and 4 under one label. -/
theorem C02c_unaligned_operands_witness :
    (acceptCoarse wUnaligned [[1, 1, 1]] [.slc ⟨some 1, some 3, none⟩]).isNone = true ∧
    (acceptCoarse0 wUnaligned [[1, 1, 1]] [.slc ⟨some 1, some 3, none⟩]).any
      (fun r => r.plans.map (·.br) == [some (1, 2)] &&
        r.opSlices == [some [some (2, 7)], some [some (3, 7)]]) = true ∧
    isum (opChunksAfter [2, 2, 3] (some (2, 7))) = 5 ∧ isum (opChunksAfter [3, 3, 1] (some (3, 7))) = 4 ∧
    -- equal chunks: fires
    (acceptCoarse ⟨[0], [⟨true, some [0], [[2, 2, 3]]⟩, ⟨true, some [0], [[2, 2, 3]]⟩], [(0, .const 1)], []⟩ [[1, 1, 1]]
      [.slc ⟨some 1, some 3, none⟩]).isSome = true := by
  decide

/-! non-vacuity: a 2-d node with two operands (one carrying a contracted label), ragged chunks, tuple and int
`adjust_chunks`; an index with a slice and a negative integer: the rule fires and every hypothesis of
`C02c_accept_sound` holds. -/
def exOps : List Opd :=
  [⟨true, some [0, 1], [[2, 3, 1], [4, 2]]⟩, ⟨true, some [1, 7], [[4, 2], [5]]⟩, ⟨true, none, []⟩]
def exNode : Node := ⟨[0, 1], exOps, [(0, .tuple [1, 2, 2]), (1, .const 3)], []⟩
def exIdx : List Idx := [.slc ⟨some 2, some 4, none⟩, .int (-2)]

example : nodeChunks exNode = some [[1, 2, 2], [3, 3]] := by decide
example : (acceptCoarse exNode [[1, 2, 2], [3, 3]] exIdx).any (fun r =>
    r.plans == [⟨some (1, 2), .rng 1 3⟩, ⟨some (1, 1), .int 1⟩]
    && r.opSlices == [some [some (2, 6), some (4, 6)], some [some (4, 6), none], none]
    && keepsAll exNode.outInd r.plans exOps
    && nodeChunks (rewritten exNode r) == some [[2, 2], [3]]) = true := by decide
example : idxsOK [[1, 2, 2], [3, 3]] (fullIndex exIdx 2) = true ∧ inSels [[1, 2, 2], [3, 3]] (fullIndex exIdx 2) [1, 0] = true := by
  decide
example : ∀ q ∈ chunkPairs exOps, ∀ c ∈ q.2, (0 : Int) ≤ c := by decide
example : findBlockRange (cum0 [0, 2, 0, 3]) 0 3 = some (1, 3) ∧ findBlockRange (cum0 [2, 3]) 5 6 = none := by decide

end Dask.Props.C02Coarse
