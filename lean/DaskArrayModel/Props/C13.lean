/-
C13 — Slice algebra helpers are exact.  ONLY property theorems (restated; proofs are
one-liners from Lemmas/*) and non-vacuity examples.  Every statement is for ALL axis
lengths, ALL chunkings (zero-length chunks included) and ALL slices.
-/
import DaskArrayModel.Lemmas.Slice1dPos
import DaskArrayModel.Lemmas.Slice1dNeg
import DaskArrayModel.Lemmas.SliceAlgebra
namespace Dask.Props.C13
open Dask.Py Dask.Py.PySlice Dask.Slicing

/-- The per-block plan of `_slice_1d` partitions exactly the selected positions, in order
(positive step: ascending block order). -/
theorem slice1d_partition_pos (lengths : List Int) (s : PySlice)
    (hl : ∀ c ∈ lengths, 0 ≤ c) (hs : 0 < s.stp) :
    planPositions lengths (sortByKey (slice1d (isum lengths) lengths (normalizeSlice s (isum lengths))))
      = sel s (isum lengths) :=
  Dask.Lemmas.Slice1dPos.slice1d_partition_pos lengths s hl hs

/-- … negative step: descending block order (as `SliceSlicesIntegers._layer` numbers the outputs). -/
theorem slice1d_partition_neg (lengths : List Int) (s : PySlice)
    (hl : ∀ c ∈ lengths, 0 ≤ c) (hs : s.stp < 0) :
    planPositions lengths (sortByKey (slice1d (isum lengths) lengths (normalizeSlice s (isum lengths)))).reverse
      = sel s (isum lengths) :=
  Dask.Lemmas.Slice1dNeg.slice1d_partition_neg lengths s hl hs

/-- both signs at once, in output-block order -/
theorem slice1d_partition (lengths : List Int) (s : PySlice)
    (hl : ∀ c ∈ lengths, 0 ≤ c) (hs : s.stp ≠ 0) :
    planPositions lengths (orderedPlan s.stp (slice1d (isum lengths) lengths (normalizeSlice s (isum lengths))))
      = sel s (isum lengths) := by
  unfold orderedPlan
  by_cases h : s.stp < 0
  · simp only [h, ↓reduceIte]; exact slice1d_partition_neg lengths s hl h
  · simp only [h, ↓reduceIte]; exact slice1d_partition_pos lengths s hl (by omega)

/-- block numbers of the plan are distinct and name existing blocks -/
theorem slice1d_keys_pos (lengths : List Int) (s : PySlice)
    (hl : ∀ c ∈ lengths, 0 ≤ c) (hs : 0 < s.stp) :
    let plan := slice1d (isum lengths) lengths (normalizeSlice s (isum lengths))
    List.Pairwise (· < ·) (plan.map (·.1)) ∧ ∀ p ∈ plan, p.1 < max 1 lengths.length :=
  Dask.Lemmas.Slice1dPos.slice1d_keys_pos lengths s hl hs

theorem slice1d_keys_neg (lengths : List Int) (s : PySlice)
    (hl : ∀ c ∈ lengths, 0 ≤ c) (hs : s.stp < 0) :
    let plan := slice1d (isum lengths) lengths (normalizeSlice s (isum lengths))
    List.Pairwise (· > ·) (plan.map (·.1)) ∧ ∀ p ∈ plan, p.1 < max 1 lengths.length :=
  Dask.Lemmas.Slice1dNeg.slice1d_keys_neg lengths s hl hs

/-- `new_blockdim` sums to the selection length and equals the per-block piece lengths -/
theorem newBlockdim_pos (lengths : List Int) (s : PySlice)
    (hl : ∀ c ∈ lengths, 0 ≤ c) (hs : 0 < s.stp) :
    let dim := isum lengths
    let idx := normalizeSlice s dim
    isum (newBlockdim dim lengths idx) = ((sel s dim).length : Int) ∧
    ((sel s dim) ≠ [] → newBlockdim dim lengths idx = planLengths lengths (sortByKey (slice1d dim lengths idx))) :=
  Dask.Lemmas.Slice1dPos.newBlockdim_pos lengths s hl hs

theorem newBlockdim_neg (lengths : List Int) (s : PySlice)
    (hl : ∀ c ∈ lengths, 0 ≤ c) (hs : s.stp < 0) :
    let dim := isum lengths
    let idx := normalizeSlice s dim
    isum (newBlockdim dim lengths idx) = ((sel s dim).length : Int) ∧
    ((sel s dim) ≠ [] → newBlockdim dim lengths idx = planLengths lengths (sortByKey (slice1d dim lengths idx)).reverse) :=
  Dask.Lemmas.Slice1dNeg.newBlockdim_neg lengths s hl hs

/-! non-vacuity: concrete, non-trivial instances of the hypotheses and both sides -/
example : planPositions [15,14,13] (sortByKey (slice1d 42 [15,14,13] (normalizeSlice ⟨some 10, some 41, some 3⟩ 42)))
    = [10,13,16,19,22,25,28,31,34,37,40] := by decide
example : planPositions [2,0,1] (sortByKey (slice1d 3 [2,0,1] (normalizeSlice ⟨none, none, some (-1)⟩ 3))).reverse
    = [2,1,0] := by decide
example : newBlockdim 100 [20,10,20,10,40] (normalizeSlice ⟨some 90, some 10, some (-2)⟩ 100) = [16,5,10,5,4] := by decide

/-- `normalize_slice` preserves the selected positions, for every slice and axis length. -/
theorem sel_normalizeSlice (s : PySlice) (n : Int) (hn : 0 ≤ n) (hs : s.stp ≠ 0) :
    sel (normalizeSlice s n) n = sel s n :=
  Dask.Lemmas.SliceAlgebra.sel_normalizeSlice s n hn hs

/-- every selected position is in bounds -/
theorem sel_bounds (s : PySlice) (n : Int) (hn : 0 ≤ n) (hs : s.stp ≠ 0) :
    ∀ p ∈ sel s n, 0 ≤ p ∧ p < n :=
  Dask.Lemmas.SliceAlgebra.sel_bounds s n hn hs

/-- `fuse_slice(a, b)` selects what applying `a` then `b` selects (two slices). -/
theorem fuseSliceSlice_sel (a b f : PySlice) (n : Int) (hn : 0 ≤ n)
    (h : fuseSliceSlice a b = .ok f) :
    sel f n = (sel b ((sel a n).length : Int)).filterMap (fun i => (sel a n)[i.toNat]?) :=
  Dask.Lemmas.SliceAlgebra.fuseSliceSlice_sel a b f n hn h

/-- `fuse_slice(a, b)` for an in-range integer `b`. -/
theorem fuseSliceInt_sel (a : PySlice) (b r : Int) (n : Int) (hn : 0 ≤ n)
    (h : fuseSliceInt a b = .ok r) (hb : b < ((sel a n).length : Int)) :
    (sel a n)[b.toNat]? = some r :=
  Dask.Lemmas.SliceAlgebra.fuseSliceInt_sel a b r n hn h hb

/-- `fuse_slice` refuses (NotImplementedError) exactly when some start/stop/step is negative. -/
theorem fuseSliceSlice_error_iff (a b : PySlice) :
    (∃ f, fuseSliceSlice a b = .ok f) ↔
      (0 ≤ a.start.getD 0 ∧ 0 ≤ a.step.getD 1 ∧ 0 ≤ a.stop.getD 0 ∧
       0 ≤ b.start.getD 0 ∧ 0 ≤ b.step.getD 1 ∧ 0 ≤ b.stop.getD 0) :=
  Dask.Lemmas.SliceAlgebra.fuseSliceSlice_error_iff a b

/-- `_compose_slices` for positive steps selects what outer-then-inner selects. -/
theorem composeSlices_sel (outer inner : PySlice) (n : Int) (hn : 0 ≤ n)
    (ho : 0 < outer.stp) (hi : 0 < inner.stp) :
    sel (composeSlices outer inner n) n =
      (sel inner ((sel outer n).length : Int)).filterMap (fun i => (sel outer n)[i.toNat]?) :=
  Dask.Lemmas.SliceAlgebra.composeSlices_sel outer inner n hn ho hi

example : fuseSliceSlice ⟨some 1, some 20, some 2⟩ ⟨some 1, none, some 3⟩ = .ok ⟨some 3, some 20, some 6⟩ := by rfl
example : sel (normalizeSlice ⟨some (-3), none, some (-1)⟩ 1) 1 = [] ∧ sel ⟨some (-3), none, some (-1)⟩ 1 = [] := by decide
/-- the positivity hypothesis of `composeSlices_sel` is needed: a negative outer step breaks the formula
(`FromArray._accept_slice` only composes unit steps; checked by correspondence in C24). -/
example : sel (composeSlices ⟨none, none, some (-1)⟩ ⟨none, none, none⟩ 3) 3 ≠ [2, 1, 0] := by decide

end Dask.Props.C13
