import DaskArrayModel.Model.Slicing
namespace Dask.Props.C13
end Dask.Props.C13
