/-
C02 (lowering of elemwise nodes) — the rewrite that `Elemwise._lower` performs when the operands of an
elemwise node are chunked differently (`unify_chunks_expr` + one `rechunk` per operand that is not yet in its
target layout) replaces the node by one denoting the same array.

Model: Model/LowerUnify.lean (`unifyTargets`, `lowerZip` for operands of equal shape in the phase-1 language,
`lowerZipB` for NumPy broadcasting in the second-layer language, `ExprU` / `lowerAll` for whole trees); the
unified layout is computed by the EXISTING model of C17 (Model/Unify.lean; the float cost pass of policy "auto"
is its oracle `pre`, refused with `LErr.oracle` when outside the oracle relation).  Proofs: Lemmas/LowerUnify.lean.
ONLY property theorems (restated, one-liners) and non-vacuity examples.

Every theorem holds for ALL inputs: any rank, shape, chunking (zero-length chunks included in the soundness
theorems), policy, limit, oracle value and itemsizes.  Hypotheses are the decidable predicates `WF` / `WF2`
(phases 1 / 3), `posLayout` (no zero-length chunk), `bcCompat` (NumPy broadcast compatibility), `wfU` / `regularU`.
Soundness (`…_wf`, `…_den`, `…_compute`) needs NO hypothesis on the chunks beyond well-formedness: whenever the
model's lowering returns, the result is well-formed and means NumPy's elemwise.  Totality (`…_total`) is where
C17's validity theorems enter: on broadcast-compatible operands with positive chunks the unified layout sums to
the axis length on every axis, so no `rechunk` is refused and nothing raises.
NOT modelled: unknown (nan) chunk sizes, scalar / `where=` / `out=` arguments, more than two operands at
expression level (the layouts of n operands are `unifyTargets`, tied to the code by the `lwu.targets`
correspondence).
-/
import DaskArrayModel.Lemmas.LowerUnify
namespace Dask.Props.C02Lower
open Dask.Py Dask.ND Dask.LowerUnify

/-- Equal shapes, any chunkings: whenever the lowering returns an expression, it is well-formed (both operands
carry the same layout, which sums to the shape on every axis). -/
theorem C02l_lowerZip_wf (p : Params) (pre : List ULayout) (ia ib : Int) (f : Nat) (a b e : Expr)
    (ha : WF a) (hb : WF b) (hs : shape a = shape b) (h : lowerZip p pre ia ib f a b = .ok e) : WF e :=
  lowerZip_wf ha hb hs h

/-- … and its NumPy meaning is the pointwise `f` of the operands' meanings, for every environment. -/
theorem C02l_lowerZip_den (p : Params) (pre : List ULayout) (ia ib : Int) (f : Nat) (a b e : Expr)
    (ha : WF a) (hb : WF b) (h : lowerZip p pre ia ib f a b = .ok e) (env : Env) :
    den env e = ⟨shape a, fun i => env.bin f ((den env a).get i) ((den env b).get i)⟩ :=
  lowerZip_den ha hb h env

/-- … hence (phase 1, `C01_compute_eq_den`) the blocks computed after lowering assemble to it. -/
theorem C02l_lowerZip_compute (p : Params) (pre : List ULayout) (ia ib : Int) (f : Nat) (a b e : Expr)
    (ha : WF a) (hb : WF b) (hs : shape a = shape b) (h : lowerZip p pre ia ib f a b = .ok e)
    (env : Env) (henv : EnvOK env) :
    Arr.Equiv (compute env e) ⟨shape a, fun i => env.bin f ((den env a).get i) ((den env b).get i)⟩ :=
  lowerZip_compute ha hb hs h env henv

/-- On operands with positive chunks the lowering never raises: it returns an expression, or — under policy
"auto" only — the model refuses an oracle value outside the oracle relation. -/
theorem C02l_lowerZip_total (p : Params) (pre : List ULayout) (ia ib : Int) (f : Nat) (a b : Expr)
    (ha : WF a) (hb : WF b) (hs : shape a = shape b) (hia : 0 ≤ ia) (hib : 0 ≤ ib)
    (pa : posLayout (chunks a) = true) (pb : posLayout (chunks b) = true) :
    (∃ e, lowerZip p pre ia ib f a b = .ok e) ∨
    (p.policy = .auto ∧ lowerZip p pre ia ib f a b = .error .oracle) :=
  lowerZip_total p pre f ha hb hs hia hib pa pb

/-- NumPy broadcasting (lower rank, length-1 axes): whenever the lowering returns, the result is well-formed:
each operand is `(1,)` on an axis or carries the layout of the result. -/
theorem C02l_lowerZipB_wf (p : Params) (pre : List ULayout) (ia ib : Int) (f : Nat) (a b e : Expr2)
    (ha : WF2 a) (hb : WF2 b) (h : lowerZipB p pre ia ib f a b = .ok e) : WF2 e :=
  lowerZipB_wf2 ha hb h

/-- … and its meaning is NumPy's broadcasting elemwise (`bcDen`) of the operands' meanings. -/
theorem C02l_lowerZipB_den (p : Params) (pre : List ULayout) (ia ib : Int) (f : Nat) (a b e : Expr2)
    (ha : WF2 a) (hb : WF2 b) (h : lowerZipB p pre ia ib f a b = .ok e) (env : Env) :
    den2 env e = bcDen (env.bin f) (den2 env a) (den2 env b) ∧ shape2 e = bcShape (shape2 a) (shape2 b) :=
  ⟨lowerZipB_den2 ha hb h env, lowerZipB_shape2 ha hb h⟩

/-- … hence (phase 3, `C01x_compute2_eq_den2`) the blocks computed after lowering assemble to it. -/
theorem C02l_lowerZipB_compute (p : Params) (pre : List ULayout) (ia ib : Int) (f : Nat) (a b e : Expr2)
    (ha : WF2 a) (hb : WF2 b) (h : lowerZipB p pre ia ib f a b = .ok e) (env : Env) (henv : EnvOK env) :
    Arr.Equiv (compute2 env e) (bcDen (env.bin f) (den2 env a) (den2 env b)) :=
  lowerZipB_compute2 ha hb h env henv

/-- On broadcast-compatible operands with positive chunks the lowering never raises. -/
theorem C02l_lowerZipB_total (p : Params) (pre : List ULayout) (ia ib : Int) (f : Nat) (a b : Expr2)
    (ha : WF2 a) (hb : WF2 b) (hc : bcCompat (shape2 a) (shape2 b) = true) (hia : 0 ≤ ia) (hib : 0 ≤ ib)
    (pa : posLayout (chunks2 a) = true) (pb : posLayout (chunks2 b) = true) :
    (∃ e, lowerZipB p pre ia ib f a b = .ok e) ∨
    (p.policy = .auto ∧ lowerZipB p pre ia ib f a b = .error .oracle) :=
  lowerZipB_total p pre f ha hb hc hia hib pa pb

/-- Whole trees: lowering every un-unified elemwise node of a well-formed tree succeeds, the result is
well-formed, has NumPy's broadcast shape and the NumPy meaning of the un-lowered tree, in every environment. -/
theorem C02l_lowerAll_sound (p : Params) (t : ExprU) (h : wfU p t = true) :
    ∃ e2, lowerAll p t = .ok e2 ∧ WF2 e2 ∧ shape2 e2 = shapeU t ∧ ∀ env, den2 env e2 = denU env t :=
  lowerAll_sound p t h

/-- … and the blocks computed from the lowered tree assemble to that meaning. -/
theorem C02l_lowerAll_compute (p : Params) (t : ExprU) (h : wfU p t = true) (env : Env) (henv : EnvOK env) :
    ∃ e2, lowerAll p t = .ok e2 ∧ Arr.Equiv (compute2 env e2) (denU env t) :=
  lowerAll_compute p t h env henv

/-- Under the policies `coarse` and `refine` the plain input conditions (`regularU`: positive chunks,
broadcast-compatible shapes, non-negative itemsizes at every elemwise node) imply `wfU`: lowering a tree is
never refused. -/
theorem C02l_lowerAll_regular (p : Params) (hp : p.policy ≠ .auto) (t : ExprU) (h : regularU p t = true) :
    wfU p t = true :=
  wfU_of_regular p hp t h

/-- the embedding is conservative: a phase-1 expression is lowered to itself -/
theorem C02l_lowerAll_base (p : Params) (e : Expr) (env : Env) :
    lowerAll p (.base e) = .ok (.base e) ∧ (wfU p (.base e) = true ↔ WF e) ∧ denU env (.base e) = den env e :=
  ⟨rfl, Iff.rfl, rfl⟩

/-! ### non-vacuity -/

def exEnv : Env :=
  { src := fun id =>
      if id = 0 then ⟨[4, 6], fun i => (flatIndex [4, 6] i : Int)⟩
      else if id = 1 then ⟨[4, 6], fun i => (100 * flatIndex [4, 6] i : Int)⟩
      else if id = 2 then ⟨[6], fun i => (1000 * flatIndex [6] i : Int)⟩
      else ⟨[4, 1], fun i => (7 * flatIndex [4, 1] i : Int)⟩
    un := fun _ x => -x
    bin := fun _ x y => x + y }

/-- two 4×6 operands whose chunks interleave on axis 1 and nest on axis 0 -/
def a : Expr := .src 0 [4, 6] [[2, 2], [3, 3]]
def b : Expr := .src 1 [4, 6] [[4], [2, 2, 2]]
/-- a finer operand (every boundary of `a` is one of its boundaries) -/
def b' : Expr := .src 1 [4, 6] [[1, 1, 1, 1], [1, 2, 1, 2]]
/-- a vector (lower rank) and a column (length-1 axis) -/
def v : Expr := .src 2 [6] [[4, 2]]
def c : Expr := .src 3 [4, 1] [[1, 3], [1]]

example : WF a ∧ WF b ∧ WF b' ∧ shape a = shape b := by decide
example : posLayout (chunks a) = true ∧ posLayout (chunks b) = true := by decide
-- refine: both operands are rechunked to the common refinement
example : lowerZip ⟨.refine, none⟩ [] 8 8 0 a b
    = .ok (.zip 0 (.rechunk a [[2, 2], [2, 1, 1, 2]]) (.rechunk b [[2, 2], [2, 1, 1, 2]])) := rfl
-- coarse: the finer operand is merged up to `a`'s layout; `a` itself gets NO rechunk node
example : lowerZip ⟨.coarse, none⟩ [] 8 8 0 a b' = .ok (.zip 0 a (.rechunk b' [[2, 2], [3, 3]])) := rfl
-- … unless the size guard fires (limit 40 B < 8·2·3 B): fall back to the refinement
example : lowerZip ⟨.coarse, some 40⟩ [] 8 8 0 a b' = .ok (.zip 0 (.rechunk a [[1, 1, 1, 1], [1, 2, 1, 2]]) b') := rfl
-- equal chunks: the node stays as it is
example : lowerZip ⟨.coarse, some 1⟩ [] 8 8 0 a a = .ok (.zip 0 a a) := rfl
-- auto: an admissible oracle value (realign to `a`'s grid) is followed, an inadmissible one is refused
example : lowerZip ⟨.auto, none⟩ [[3, 3], [2, 2]] 8 8 0 a b = .ok (.zip 0 a (.rechunk b [[2, 2], [3, 3]])) := rfl
example : lowerZip ⟨.auto, none⟩ [[6], [2, 2]] 8 8 0 a b = .error .oracle := rfl
-- the lowered node computes NumPy's `a + b`
#guard (lowerZip ⟨.refine, none⟩ [] 8 8 0 a b).toOption.map (fun e => (compute exEnv e).toList.take 4) == some [0, 101, 202, 303]
-- zero-length chunks are inside the soundness theorems
example : WF (.src 0 [3] [[2, 0, 1]]) ∧ lowerZip ⟨.refine, none⟩ [] 8 8 0 (.src 0 [3] [[2, 0, 1]]) (.src 1 [3] [[1, 2]])
    = .ok (.zip 0 (.rechunk (.src 0 [3] [[2, 0, 1]]) [[1, 1, 0, 1]]) (.rechunk (.src 1 [3] [[1, 2]]) [[1, 1, 0, 1]])) :=
  ⟨by decide, rfl⟩

-- broadcasting: the vector is rechunked on the shared axis only; a length-1 axis is left alone
example : WF2 (.base a) ∧ WF2 (.base v) ∧ WF2 (.base c) := by decide
example : bcCompat (shape2 (.base a)) (shape2 (.base v)) = true ∧ bcCompat (shape2 (.base c)) (shape2 (.base v)) = true := by
  decide
example : lowerZipB ⟨.refine, none⟩ [] 8 8 0 (.base a) (.base v)
    = .ok (.zipB 0 (.base (.rechunk a [[2, 2], [3, 1, 2]])) (.base (.rechunk v [[3, 1, 2]]))) := rfl
example : lowerZipB ⟨.refine, none⟩ [] 8 8 0 (.base c) (.base v) = .ok (.zipB 0 (.base c) (.base v)) := rfl
example : bcShape [4, 1] [6] = [4, 6] ∧ bcShape [4, 6] [6] = [4, 6] := by decide
-- shapes that do not broadcast are outside the totality theorem (and the model raises, as the code does)
example : bcCompat [4, 6] [5] = false := by decide
example : lowerZipB ⟨.refine, none⟩ [] 8 8 0 (.base a) (.base (.src 2 [5] [[2, 3]])) = .error (.unify .valueError) := rfl
#guard (lowerZipB ⟨.refine, none⟩ [] 8 8 0 (.base c) (.base v)).toOption.map (fun e => (compute2 exEnv e).toList.take 7)
  == some [0, 1000, 2000, 3000, 4000, 5000, 7]

/-- a tree: `(x - w).T + v` where `x` is 6×4, `w` a vector of 4 chunked differently, `v` a vector of 6 -/
def t : ExprU :=
  .zipU 0 8 8 []
    (.node (.transpose (.src holeA [6, 4] [[2, 2, 2], [1, 3]]) [1, 0])
      (.zipU 1 8 8 [] (.base (.src 0 [6, 4] [[2, 2, 2], [4]])) (.base (.src 3 [4] [[1, 3]])))
      (.base (.src 3 [4] [[1, 3]])))
    (.base v)
example : wfU ⟨.refine, none⟩ t = true ∧ regularU ⟨.refine, none⟩ t = true ∧ shapeU t = [4, 6] := by decide
example : (lowerAll ⟨.refine, none⟩ t).toOption.map chunks2 = some [[1, 3], [2, 2, 2]] := rfl
-- a context whose hole is declared with the chunks BEFORE lowering is refused
example : wfU ⟨.refine, none⟩
    (.node (.transpose (.src holeA [6, 4] [[2, 2, 2], [4]]) [1, 0])
      (.zipU 1 8 8 [] (.base (.src 0 [6, 4] [[2, 2, 2], [4]])) (.base (.src 3 [4] [[1, 3]])))
      (.base (.src 3 [4] [[1, 3]]))) = false := by decide

end Dask.Props.C02Lower
