/-
C05 — every compute / persist / optimize entry point agrees.

Model (Model/Entry.lean, namespace Dask.Entry): a collection is (rawName, chunks, dtype, expr); its
materialized graph `g` defines `rawName × grid(chunks)` (the RootAlias pin, `pin`); the entry points are
compositions of `eval` (scheduler), `schedule` (persist), `rebuild` (= `from_graph(layer, meta, chunks, [],
name)` from `__dask_postpersist__`) and `FromGraph._layer` with the three-way `_find_layer_key` lookup
(`findLayerKey`: expected key from `keys` / own key / single name covering the grid / ValueError).

What is proved here is the NAME / KEY bookkeeping for every grid, every layer and every naming: all entry
points hand back the same block values; persisted / dask-optimized collections keep name, chunks, dtype and
keys; the lookup's failure branch is characterised exactly; a layout changed behind the collection's back
(known finding `from_graph:missing-output-block`) is the ValueError branch; the pin is what makes the root
keys exist.  NOT covered (search only, harness/props/C05.py): the glue inside `dask.base` (which graph it
asks for — e.g. `dask.optimize` walks the RAW expression tree on this tree, see known findings).
-/
import DaskArrayModel.Lemmas.Entry
namespace Dask.Props.C05
open Dask.Entry Dask.Lemmas.Entry

variable {V E : Type}

/-- All entry points yield the same assembled block values, PROVIDED the materialized graph defines
`rawName × grid(chunks)` (premise `hroot`: C04 root keys + block refinement; `pin_root_keys` below shows the
RootAlias pin establishes it).  `dask.persist` is stated for every optimized form `lo` of the expression whose
root (whatever its name) produces the same blocks over the advertised grid. -/
theorem C05_entry_points_agree (c : Coll E) (g : Layer V) (vals : BlockId → V)
    (hroot : RootKeys g c.rawName c.numblocks vals) :
    epCompute c g = some ((grid c.numblocks).map vals) ∧
    epToDelayed c g = some ((grid c.numblocks).map vals) ∧
    (∃ p, epPersist c g = some p ∧ computeFG p = .ok (some ((grid c.numblocks).map vals))) ∧
    computeFG (epDaskOptimize c g) = .ok (some ((grid c.numblocks).map vals)) ∧
    (∀ lo : Lowered V, RootKeys lo.graph lo.name c.numblocks vals →
      ∃ p, epDaskPersist c lo c.numblocks = some p ∧ computeFG p = .ok (some ((grid c.numblocks).map vals))) := by
  refine ⟨computeKeys_eq hroot, ?_, ?_, computeFG_passthrough c hroot, ?_⟩
  · unfold epToDelayed Coll.keys
    rw [List.map_map]
    exact mapM_id_some _ _ _ (fun b hb => hroot b hb)
  · refine ⟨rebuild c (dataLayer c.rawName (grid c.numblocks) vals), ?_, ?_⟩
    · unfold epPersist Coll.keys
      rw [schedule_eq hroot]; rfl
    · exact computeFG_passthrough c (rootKeys_dataLayer _ _ _)
  · intro lo hlo
    refine ⟨rebuild c (dataLayer lo.name (grid c.numblocks) vals), ?_, ?_⟩
    · unfold epDaskPersist
      rw [schedule_eq hlo]; rfl
    · by_cases hn : lo.name = c.rawName
      · rw [hn]; exact computeFG_passthrough c (rootKeys_dataLayer _ _ _)
      · exact computeFG_byBlockId c hn

/-- The persisted and dask-optimized collections keep x's name, chunks, dtype and keys. -/
theorem C05_persist_preserves_meta (c : Coll E) (g : Layer V) (lo : Lowered V) (nbLow : List Nat)
    (p : Coll (FromGraph V))
    (hp : epPersist c g = some p ∨ epDaskPersist c lo nbLow = some p ∨ p = epDaskOptimize c g) :
    p.rawName = c.rawName ∧ p.chunks = c.chunks ∧ p.dtype = c.dtype ∧ p.keys = c.keys ∧
      p.expr.name = c.rawName := by
  have key : ∀ layer : Layer V, (rebuild c layer).rawName = c.rawName ∧ (rebuild c layer).chunks = c.chunks ∧
      (rebuild c layer).dtype = c.dtype ∧ (rebuild c layer).keys = c.keys ∧
      (rebuild c layer).expr.name = c.rawName := fun _ => ⟨rfl, rfl, rfl, rfl, rfl⟩
  rcases hp with hp | hp | hp
  · unfold epPersist at hp
    cases hs : schedule g c.keys with
    | none => simp [hs] at hp
    | some l => simp [hs] at hp; subst hp; exact key l
  · unfold epDaskPersist at hp
    cases hs : schedule lo.graph ((grid nbLow).map (fun b => (⟨lo.name, b⟩ : Key))) with
    | none => simp [hs] at hp
    | some l => simp [hs] at hp; subst hp; exact key l
  · subst hp; exact key g

/-- An operation applied to a persisted / optimized collection computes the same as applied to x: the
rebuilt collection denotes the same blocks, so every function of the blocks agrees. -/
theorem C05_followon {W : Type} (op : List V → W) (c : Coll E) (g : Layer V) (vals : BlockId → V)
    (hroot : RootKeys g c.rawName c.numblocks vals) (p : Coll (FromGraph V))
    (hp : (epPersist c g = some p) ∨ p = epDaskOptimize c g ∨
      ∃ lo : Lowered V, RootKeys lo.graph lo.name c.numblocks vals ∧ epDaskPersist c lo c.numblocks = some p) :
    (computeFG p).map (Option.map op) = .ok ((epCompute c g).map op) := by
  obtain ⟨h1, _, ⟨p1, hp1, hv1⟩, h4, h5⟩ := C05_entry_points_agree c g vals hroot
  have : computeFG p = .ok (some ((grid c.numblocks).map vals)) := by
    rcases hp with hp | hp | ⟨lo, hlo, hp⟩
    · rw [hp1] at hp; cases hp; exact hv1
    · subst hp; exact h4
    · obtain ⟨p5, hp5, hv5⟩ := h5 lo hlo
      rw [hp5] at hp; cases hp; exact hv5
  rw [this, h1]; rfl

/-- FAILURE BRANCH of `_find_layer_key`, exactly: `_layer()` raises ValueError iff for some block of the
grid (1) no expected key from `keys` is in the layer, (2) our own key is not in the layer and (3) no single
name covers exactly our grid. -/
theorem C05_lookup_error_iff (fg : FromGraph V) (kb : List (BlockId × Key))
    (hkb : keysByBlockId fg.keys [] = .ok kb) :
    layerOf fg = .error .valueError ↔
      ∃ b ∈ grid fg.numblocks, (∀ e, kb.lookup b = some e → has fg.layer e = false) ∧
        has fg.layer ⟨fg.name, b⟩ = false ∧ inferredLayerName fg = none := by
  rw [layerOf_error_iff]
  constructor
  · rintro ⟨b, hb, h⟩; exact ⟨b, hb, (find0_error_iff hkb b).mp h⟩
  · rintro ⟨b, hb, h⟩; exact ⟨b, hb, (find0_error_iff hkb b).mpr h⟩

/-- … and it never fails in any other way (no KeyError on `dsk[layer_key]`). -/
theorem C05_lookup_only_valueError (fg : FromGraph V) (e : Err) (h : layerOf fg = .error e) : e = .valueError :=
  layerOf_error_kind h

/-- The lookup SUCCEEDS whenever the layer defines `name × grid(chunks)` (what C04 gives for a pinned graph). -/
theorem C05_lookup_succeeds_of_root_keys (fg : FromGraph V) (kb : List (BlockId × Key))
    (hkb : keysByBlockId fg.keys [] = .ok kb)
    (h : ∀ b ∈ grid fg.numblocks, has fg.layer ⟨fg.name, b⟩ = true) : ∃ l, layerOf fg = .ok l := by
  apply (layerOf_ok_iff fg).mpr
  intro b hb
  have hb' := h b hb
  unfold find0 findLayerKey
  simp only [hkb, hb', if_true]
  cases kb.lookup b with
  | none => exact ⟨_, rfl⟩
  | some e =>
    cases he : has fg.layer e
    · exact ⟨⟨fg.name, b⟩, by simp [he]⟩
    · exact ⟨e, by simp [he]⟩

/-- Every block the rebuilt layer hands out is the block the documented lookup order selects. -/
theorem C05_rebuilt_block_value (fg : FromGraph V) (l : Layer V) (h : layerOf fg = .ok l) (b : BlockId)
    (hb : b ∈ grid fg.numblocks) (k : Key) (hk : find0 fg b = .ok k) (v : V)
    (hv : get? fg.layer k = some (.data v) ∨ get? fg.layer k = some (.task v)) :
    eval l ⟨fg.name, b⟩ = some v :=
  layerOf_value h hb hk hv

/-- Known finding `from_graph:missing-output-block` in the model: `dask.persist` hands back the blocks of an
optimized form whose GRID differs from the advertised one under a foreign name: the rebuild raises. -/
theorem C05_dask_persist_layout_drift (c : Coll E) (ℓ : String) (nbLow : List Nat) (vals : BlockId → V)
    (hne : ℓ ≠ c.rawName) (hr : nbLow.length = c.numblocks.length)
    (hd : sameSet (grid nbLow) (grid c.numblocks) = false) (hg : grid c.numblocks ≠ []) :
    computeFG (rebuild c (dataLayer ℓ (grid nbLow) vals)) = .error .valueError :=
  computeFG_drift c hne hr hd hg

/-- The RootAlias pin establishes the premise of `C05_entry_points_agree` … -/
theorem C05_pin_root_keys (raw : String) (nb : List Nat) (lo : Lowered V) (g : Layer V) (vals : BlockId → V)
    (hlo : RootKeys lo.graph lo.name nb vals) (hp : pin raw nb lo = .ok g) : RootKeys g raw nb vals :=
  pin_rootKeys hlo hp

/-- … and without it a renamed root leaves every advertised key undefined. -/
theorem C05_unpinned_undefined (raw : String) (lo : Lowered V)
    (hany : lo.graph.any (fun p => p.1.name == raw) = false) (b : BlockId) : eval lo.graph ⟨raw, b⟩ = none :=
  unpinned_undefined hany b

/-! ### non-vacuity -/

/-- by-block-id rebuild: data is rekeyed, a task gets an alias; the collection computes [7, 8] -/
example :
    (match layerOf (⟨[(⟨"L", [0]⟩, .data 7), (⟨"L", [1]⟩, .task 8)], [2], [], "N"⟩ : FromGraph Nat) with
      | .ok l => computeKeys l "N" [2]
      | .error _ => none) = some [7, 8] := by decide

/-- the expected key from `keys` wins over the inferred name -/
example :
    (match layerOf (⟨[(⟨"L", [0]⟩, .data 7), (⟨"K", [0]⟩, .data 9)], [1], [⟨"K", [0]⟩], "N"⟩ : FromGraph Nat) with
      | .ok l => computeKeys l "N" [1]
      | .error _ => none) = some [9] := by decide

/-- failure branch: block (1,) is absent in all three ways -/
example :
    (match layerOf (⟨[(⟨"L", [0]⟩, .data 7)], [2], [], "N"⟩ : FromGraph Nat) with
      | .ok _ => false
      | .error e => e == .valueError) = true := by decide

/-- the pin: a renamed root gets alias keys; an embedded root is refused -/
example : (match pin "N" [2] (⟨"L", [(⟨"L", [0]⟩, .task 1), (⟨"L", [1]⟩, .task 2)]⟩ : Lowered Nat) with
      | .ok g => computeKeys g "N" [2]
      | .error _ => none) = some [1, 2] := by decide

example : (match pin "N" [1] (⟨"L", [(⟨"L", [0]⟩, .task 1), (⟨"N", [0]⟩, .task 2)]⟩ : Lowered Nat) with
      | .ok _ => false
      | .error e => e == .runtimeError) = true := by decide

/-- the hypotheses of the drift theorem are satisfiable: advertised grid [2], lowered grid [1] -/
example : sameSet (grid [1]) (grid [2]) = false ∧ grid [2] ≠ [] := by decide

end Dask.Props.C05
