/-
C08 — Optimization terminates and is idempotent; it never turns a computable program into one that
raises.  ONLY property theorems (restated; proofs are one-liners) and non-vacuity examples.

Termination is not a separate theorem: `optimize` (Model/Rules.lean) is DEFINED by well-founded
recursion on the explicit measure `mu`, and Lean accepted the definition only with the proof that
every step decreases `mu` (`C08_rule_decreases` for each rule at the root, `C08_step_decreases`
for a step anywhere in the tree — `mu` is strictly monotone in every argument).
`mu`: a `slice` / `rechunk` doubles the weight of what is below it, every other node adds one.

`C08_optimize_normal`: the result is a normal form (no rule of the model applies anywhere, under
the grid guard); `C08_optimize_idempotent`: optimizing an optimized expression returns it unchanged;
`C08_no_new_errors`: the model's only error source is ill-formedness (`WF` = what the real API
accepts: chunk/shape agreement of operands, index bounds, `(1,)` chunks under squeeze, positive
chunks under max/min), and `optimize` never produces an ill-formed expression from a well-formed
one — hence (`C08_optimized_computes`, with phase 1) the optimized expression computes.

Partial: rules outside the model (see Props/C02.lean) are covered by the end-to-end search only
(watchdog, re-optimization, optimized vs unoptimized compute).
-/
import DaskArrayModel.Lemmas.RulesSound
namespace Dask.Props.C08
open Dask.Py Dask.ND

/-- every rule of `optimize`, applied at the root, strictly decreases the measure -/
theorem C08_rule_decreases (r : String × (Expr → Option Expr)) (hr : r ∈ rules) (e e' : Expr)
    (h : r.2 e = some e') : mu e' < mu e :=
  rules_dec r hr e e' h

/-- one optimizer step anywhere in the tree strictly decreases the measure -/
theorem C08_step_decreases (e e' : Expr) (h : step e = some e') : mu e' < mu e :=
  step_dec e e' h

/-- … for any list of measure-decreasing root rules (the measure is monotone in every argument) -/
theorem C08_stepWith_decreases (rs : List (String × (Expr → Option Expr)))
    (hrs : ∀ r ∈ rs, ∀ e e', r.2 e = some e' → mu e' < mu e) (e : Expr) (p : String × Expr)
    (h : stepWith rs e = some p) : mu p.2 < mu e :=
  stepWith_dec rs hrs e p h

/-- the defining equation of the fixpoint (accepted by Lean with `C08_step_decreases` as its
termination proof): `optimize` applies `step` until no rule applies -/
theorem C08_optimize_unfold (e : Expr) :
    optimize e = match step e with
      | none => e
      | some e' => optimize e' :=
  optimize_eq e

/-- the result is a normal form -/
theorem C08_optimize_normal (e : Expr) : step (optimize e) = none := step_optimize e

/-- normal forms are fixpoints -/
theorem C08_optimize_fixpoint (e : Expr) (h : step e = none) : optimize e = e :=
  optimize_of_step_none h

/-- idempotence -/
theorem C08_optimize_idempotent (e : Expr) : optimize (optimize e) = optimize e :=
  optimize_idempotent e

/-- optimization never makes a well-formed expression ill-formed -/
theorem C08_no_new_errors (e : Expr) (hw : WF e) : WF (optimize e) :=
  (optimize_refines rules_sound trivialEnv trivialEnv_ok e hw).isWF

/-- … nor does a single step -/
theorem C08_step_no_new_errors (e e' : Expr) (hw : WF e) (h : step e = some e') : WF e' :=
  (step_refines trivialEnv trivialEnv_ok e e' hw h).isWF

/-- hence the optimized expression computes (every block has the advertised shape and the blocks
assemble to the NumPy meaning of the optimized — and so of the original — expression) -/
theorem C08_optimized_computes (env : Env) (henv : EnvOK env) (e : Expr) (hw : WF e) :
    Arr.Equiv (compute env (optimize e)) (den env (optimize e)) ∧
      ∀ bid, validBid (chunks (optimize e)) bid →
        (blockDen env (optimize e) bid).shape = blockShape (chunks (optimize e)) bid :=
  ⟨compute_eq_den env henv _ (C08_no_new_errors e hw),
    fun bid hb => block_shape env henv _ (C08_no_new_errors e hw) bid hb⟩

/-! ### non-vacuity -/

def ySrc : Expr := .src 0 [4, 5] [[2, 2], [3, 2]]
def ySl (a b c : Option Int) : Ix := .slc ⟨a, b, c⟩
/-- `(-x.T)[1:4:2, :3].rechunk(...)`: slice and rechunk sink through `map` and `transpose` -/
def yProg : Expr :=
  .rechunk (.slice (.map 0 (.transpose ySrc [1, 0])) [ySl (some 1) (some 4) (some 2), ySl none (some 3) none])
    [[1, 1], [3]]
def yOpt : Expr :=
  .map 0 (.transpose (.rechunk (.slice ySrc [ySl none (some 3) none, ySl (some 1) (some 4) (some 2)]) [[3], [1, 1]]) [1, 0])

example : WF yProg := by decide
example : mu yProg = 12 ∧ mu yOpt = 6 := by decide
-- the first step and the measure before / after
example : stepNamed yProg = some ("sliceThroughMap",
    .rechunk (.map 0 (.slice (.transpose ySrc [1, 0]) [ySl (some 1) (some 4) (some 2), ySl none (some 3) none]))
      [[1, 1], [3]]) := by decide
example : step yOpt = none := by decide
example : optimize yOpt = yOpt := C08_optimize_fixpoint yOpt (by decide)
#guard optimize yProg == yOpt
#guard optimize (optimize yProg) == optimize yProg
#guard wf (optimize yProg)
/-- `sliceSplitInts` is sound but is NOT part of `optimize`: it increases the measure -/
example : (sliceSplitInts (.slice ySrc [.int 1, colonIx])).map mu = some 4 ∧ mu (.slice ySrc [.int 1, colonIx]) = 2 := by
  decide
/-- the grid guard: under `zip`, a child rewrite that would change `.chunks` is declined, so the
result stays well-formed (here the inner no-op-looking rechunk chain must keep chunks ((4,),(5,))) -/
def yZip : Expr := .zip 0 (.rechunk (.rechunk ySrc [[1, 3], [5]]) [[4], [5]]) (.rechunk ySrc [[4], [5]])
example : WF yZip := by decide
#guard wf (optimize yZip) && optimize yZip == .zip 0 (.src 0 [4, 5] [[4], [5]]) (.src 0 [4, 5] [[4], [5]])

end Dask.Props.C08
