/-
C01 (phase 3, second-layer language) — Array programs compute what NumPy computes, for programs that
ALSO contain binary elementwise ops with NumPy broadcasting (`zipB`: lower rank, length-1 axes; the
block-id rule `coord % numblocks`), integer-list indexing along one axis (`take`: negative indices,
repeats, any order; chunked as `_compute_indexer` + `Shuffle._new_chunks`) and sliding-window
reductions under the OVERLAP plan (`swvReduce`), freely nested with every op of phase 1
(`Expr2.node`: a phase-1 context whose hole sources stand for `Expr2` sub-expressions; its tasks read the
COMPUTED blocks of the sub-expressions).  ONLY property theorems (restated; proofs in Lemmas/Expr2*.lean)
and non-vacuity examples.  Every theorem holds for EVERY well-formed `Expr2` (any depth, rank, shape,
chunking), every data / function environment, every block.  The base case is `C01_blockDen_correct`.

NOT covered (say-so): the NATIVE sliding-window plan (`SlidingWindowReduction`; its block plan is C19's
`slidingPlan_correct`), the choice of the intermediate chunking that `sliding_window_view` rechunks to
(float heuristics; an explicit `rechunk` in the program), the result of implicit chunk unification
(C17; explicit `rechunk`s in the program), n-d fancy indexing.
-/
import DaskArrayModel.Lemmas.Expr2Correct
namespace Dask.Props.C01Ext
open Dask.Py Dask.ND

/-- Refinement: the value the task for output block `bid` computes is exactly the block of the
NumPy meaning on the extent that `.chunks` advertises for `bid`. -/
theorem C01x_blockDen2_correct (env : Env) (henv : EnvOK env) (e : Expr2) (bid : List Nat)
    (hwf : WF2 e) (hbid : validBid (chunks2 e) bid) :
    Arr.Equiv (blockDen2 env e bid) (restrict (den2 env e) (extent (chunks2 e) bid)) :=
  blockDen2_correct env henv e hwf bid hbid

/-- `compute()` (assembling all computed blocks along `.chunks`) gives the NumPy meaning. -/
theorem C01x_compute2_eq_den2 (env : Env) (henv : EnvOK env) (e : Expr2) (hwf : WF2 e) :
    Arr.Equiv (compute2 env e) (den2 env e) :=
  compute2_eq_den2 env henv e hwf

/-- … hence the same flat data (C order), for every chunking of the same program. -/
theorem C01x_compute2_data (env : Env) (henv : EnvOK env) (e : Expr2) (hwf : WF2 e) :
    (compute2 env e).toList = (den2 env e).toList :=
  (compute2_eq_den2 env henv e hwf).toList_eq

/-- the block computed for `bid` has exactly the advertised size on every axis -/
theorem C03x_block_shape2 (env : Env) (henv : EnvOK env) (e : Expr2) (bid : List Nat)
    (hwf : WF2 e) (hbid : validBid (chunks2 e) bid) :
    (blockDen2 env e bid).shape = blockShape (chunks2 e) bid :=
  block_shape2 env henv e hwf bid hbid

/-- `.chunks` sums to `.shape` on every axis and every axis has at least one block -/
theorem C03x_chunks2_sum (e : Expr2) (hwf : WF2 e) :
    (chunks2 e).map List.sum = shape2 e ∧ ∀ cs ∈ chunks2 e, cs ≠ [] :=
  meta2_ok e hwf

/-- the embedding is conservative: on `base` everything is phase 1 -/
theorem C01x_base (env : Env) (e : Expr) (bid : List Nat) :
    (WF2 (.base e) ↔ WF e) ∧ chunks2 (.base e) = chunks e ∧ den2 env (.base e) = den env e ∧
      blockDen2 env (.base e) bid = blockDen env e bid :=
  ⟨Iff.rfl, rfl, rfl, rfl⟩

/-- the groups of positions that make the output blocks of `take` concatenate to the posified index
list (NumPy semantics of negative indices), and there is at least one block -/
theorem C01x_takeGroups (n : Nat) (cs : List Nat) (idx : List Int) (hn : cs.sum = n) (hcs : cs ≠ [])
    (hidx : ∀ k ∈ idx, -(n : Int) ≤ k ∧ k < (n : Int)) :
    (takeGroups n cs idx).flatten = idx.map (Dask.Slicing.posifyInt n) ∧ takeGroups n cs idx ≠ [] :=
  takeGroups_spec n cs idx hn hcs hidx

/-- the block-id rule of the broadcasting binary: a VALID block of the operand -/
theorem C01x_bcBid_valid (cl : Layout) (bid : List Nat) (hne : ∀ cs ∈ cl, cs ≠ []) (h : cl.length ≤ bid.length) :
    validBid cl (bcBid (numblocks cl) bid) :=
  validBid_bcBid cl bid hne h

/-! non-vacuity: 4×5 source `x` with chunks ((2,2),(3,2)), a vector `v` of length 5 chunked (3,2), a
column `c` of shape 4×1 -/

def exEnv : Env :=
  { src := fun id =>
      if id = 0 then ⟨[4, 5], fun i => (flatIndex [4, 5] i : Int)⟩
      else if id = 1 then ⟨[5], fun i => (10 * flatIndex [5] i : Int)⟩
      else ⟨[4, 1], fun i => (100 * flatIndex [4, 1] i : Int)⟩
    un := fun _ x => -x
    bin := fun _ x y => x + y }
def x : Expr2 := .base (.src 0 [4, 5] [[2, 2], [3, 2]])
def v : Expr2 := .base (.src 1 [5] [[3, 2]])
def c : Expr2 := .base (.src 2 [4, 1] [[2, 2], [1]])

-- x + v (lower rank) and c + v (both broadcast: 4×1 with 5 → 4×5)
def xv : Expr2 := .zipB 0 x v
def cv : Expr2 := .zipB 0 c v
example : WF2 xv ∧ WF2 cv := by decide
example : shape2 xv = [4, 5] ∧ chunks2 xv = [[2, 2], [3, 2]] ∧ chunks2 cv = [[2, 2], [3, 2]] := by decide
example : bcBid (numblocks (chunks2 v)) [1, 1] = [1] ∧ bcBid (numblocks (chunks2 c)) [1, 1] = [1, 0] := by decide
#guard (den2 exEnv xv).toList.take 6 == [0, 11, 22, 33, 44, 5]
#guard (blockDen2 exEnv xv [1, 1]).shape == [2, 2] && (blockDen2 exEnv xv [1, 1]).toList == [43, 54, 48, 59]
#guard (compute2 exEnv cv).toList == (den2 exEnv cv).toList
#guard (den2 exEnv cv).toList.drop 15 == [300, 310, 320, 330, 340]
-- chunks that do not line up are refused (the real API rechunks first: an explicit `rechunk`)
example : ¬ WF2 (.zipB 0 x (.base (.src 1 [5] [[2, 3]]))) := by decide

-- take with negative and repeated indices: the groups follow the input chunks, merged up to the largest
def t : Expr2 := .take x 1 [-1, 0, 0, 3, 1, 2]
example : WF2 t ∧ shape2 t = [4, 6] := by decide
#guard takeGroups 5 [3, 2] [-1, 0, 0, 3, 1, 2] == [[4, 0, 0], [3, 1, 2]]
#guard chunks2 t == [[2, 2], [3, 3]]
#guard (den2 exEnv t).toList.take 6 == [4, 0, 0, 3, 1, 2]
#guard (blockDen2 exEnv t [1, 1]).toList == [13, 11, 12, 18, 16, 17]
#guard (compute2 exEnv t).toList == (den2 exEnv t).toList
-- `take(x, arange(n))` keeps the chunks; an out-of-range index is refused
#guard chunks2 (.take x 0 [0, 1, 2, 3]) == [[2, 2], [3, 2]]
example : ¬ WF2 (.take x 1 [5]) := by decide

-- sliding-window sum, window 2 along axis 1: needs chunks ≥ 2 on the axis; output chunks (3, 2-1)
def s : Expr2 := .swvReduce .sum x 2 1
example : WF2 s ∧ shape2 s = [4, 4] ∧ chunks2 s = [[2, 2], [3, 1]] := by decide
#guard (den2 exEnv s).toList.take 4 == [1, 3, 5, 7]
#guard (blockDen2 exEnv s [0, 0]).toList == [1, 3, 5, 11, 13, 15]   -- position 2 reads block 1
#guard (compute2 exEnv s).toList == (den2 exEnv s).toList
example : ¬ WF2 (.swvReduce .sum x 3 1) := by decide   -- chunk 2 < window 3: rechunk first

-- phase-1 ops ABOVE the new ops: transpose of (x + v), then take on it, then a window maximum
def nd : Expr2 := .node (.transpose (.src holeA [4, 5] [[2, 2], [3, 2]]) [1, 0]) xv xv
def tt : Expr2 := .take nd 0 [4, 0, -2]
def deep : Expr2 := .swvReduce .max (.node (.rechunk (.src holeA [3, 4] [[3], [2, 2]]) [[3], [4]]) tt tt) 3 1
example : WF2 nd ∧ WF2 tt ∧ WF2 deep := by decide
#guard chunks2 tt == [[3], [2, 2]] && shape2 deep == [3, 2]
#guard (compute2 exEnv deep).toList == (den2 exEnv deep).toList
#guard (den2 exEnv deep).toList == [54, 59, 10, 15, 43, 48]
-- a context whose hole is declared with the wrong chunks is refused
example : ¬ WF2 (.node (.transpose (.src holeA [4, 5] [[4], [5]]) [1, 0]) xv xv) := by decide

end Dask.Props.C01Ext
