/-
C12 extension (take / shuffle / vindex pipeline): the graph `Shuffle._layer` emits computes `x[index]`.
Vocabulary: Model/Shuffle.lean (`planChunk`, `evalPlan`, `shuffleEval`, `takeEval`, `IsArgsort`, `readBlock`,
`ChunksOK`, `InBounds`), Model/Vindex.lean, existing Model/Indexing.lean (`computeIndexer`, `newChunks`,
`shuffleIsIdentity`, `posifyInt`).  `argsort` stands for `np.argsort` (unstable): ANY function that returns a
sorting permutation (`IsArgsort`); `argsortStable_isArgsort` shows there is one.  `x : Int → α` is the input
along the axis; a task that reads outside its block makes the result `.outside`, so `= .ok …` includes
"no read outside a block".
-/
import DaskArrayModel.Lemmas.ShuffleTop
import DaskArrayModel.Lemmas.VindexTop
namespace Dask.Props.C12Shuffle
open Dask.Py Dask.Slicing Dask.Indexing Dask.Shuffle Dask.Vindex Dask.Lemmas.Shuffle Dask.Lemmas.Vindex

/-- `_shuffle(x, indexer, axis)`: for every chunking (`ChunksOK`: chunks `≥ 0`, zero-length chunks allowed),
every indexer whose positions are on the axis (unsorted, repeated, empty groups, groups longer than the
largest chunk): every task stays inside its block, the concatenation of the output chunks is
`x[indexer.flatten]`, and every output chunk has the advertised length. -/
theorem C12s_shuffle_correct {α} (argsort : List Int → List Nat) (hA : ∀ l, IsArgsort l (argsort l))
    (cs : List Int) (hcs : ChunksOK cs) (indexer : List (List Int)) (hin : InBounds (isum cs) indexer)
    (x : Int → α) :
    ∃ out, shuffleEval argsort cs indexer x = .ok out ∧ out.flatten = indexer.flatten.map x ∧
      out.map (fun c => (c.length : Int)) = shuffleChunks cs indexer :=
  shuffle_correct argsort hA cs hcs indexer hin x

/-- one output chunk of `Shuffle._layer` (any non-empty `taker` of in-bounds positions, not longer than the
largest input chunk — what `_new_chunks` produces, `C12.newChunks_bounded`): the plan exists and evaluates to
`x[taker]` in the order of `taker`. -/
theorem C12s_chunk_correct {α} (argsort : List Int → List Nat) (hA : ∀ l, IsArgsort l (argsort l))
    (cs : List Int) (hcs : ChunksOK cs) (taker : List Int) (hne : taker ≠ [])
    (hin : ∀ p ∈ taker, 0 ≤ p ∧ p < isum cs) (hlen : (taker.length : Int) ≤ maxChunk cs) (x : Int → α) :
    ∃ p, planChunk argsort cs taker = .ok p ∧ evalPlan argsort cs x p = some (taker.map x) :=
  planChunk_correct argsort hA cs hcs taker hne hin hlen x

/-- `x[list]` / `da.take` on one axis (`normalize_index` → `slice_wrap_lists` → `take` → `_compute_indexer` →
`_shuffle`): `IndexError` exactly when some entry is outside `[-n, n)`; otherwise the result is
`[x[i] for i in index]` with negatives counted from the end — repeated, unsorted, empty, identity included —
in chunks of the advertised lengths. -/
theorem C12s_take_correct {α} (argsort : List Int → List Nat) (hA : ∀ l, IsArgsort l (argsort l))
    (cs : List Int) (hcs : ChunksOK cs) (index : List Int) (x : Int → α) :
    (takeEval argsort cs index x = .err .indexError ↔ ¬ (∀ i ∈ index, -(isum cs) ≤ i ∧ i < isum cs)) ∧
    ((∀ i ∈ index, -(isum cs) ≤ i ∧ i < isum cs) →
      ∃ out, takeEval argsort cs index x = .ok out ∧
        out.flatten = index.map (fun i => x (posifyInt (isum cs) i)) ∧
        out.map (fun c => (c.length : Int)) = takeChunksS cs index) := by
  have h := take_correct argsort hA cs hcs index x
  refine ⟨⟨fun he hb => ?_, h.1⟩, h.2⟩
  rcases h.2 hb with ⟨out, ho, _⟩
  rw [ho] at he
  cases he

/-- every per-block take offset of an output chunk lies inside its source block. -/
theorem C12s_pieces_in_block (argsort : List Int → List Nat) (hA : ∀ l, IsArgsort l (argsort l))
    (cs : List Int) (hcs : ChunksOK cs) (taker : List Int) (hne : taker ≠ [])
    (hin : ∀ p ∈ taker, 0 ≤ p ∧ p < isum cs) (hlen : (taker.length : Int) ≤ maxChunk cs)
    (p : Plan) (hp : planChunk argsort cs taker = .ok p) :
    ∀ q ∈ p.pieces, ∀ o ∈ q.2, q.1 < cs.length ∧ 0 ≤ o ∧ o < cs.getD q.1 0 :=
  pieces_in_block argsort hA cs hcs taker hne hin hlen p hp

/-- the final reordering (`np.argsort(sorter)` in `concatenate_arrays` and in the one-block special case) is
the inverse of the sort the grouping applied: `sorter[inv] = range(n)`, hence `taker[sorter][inv] = taker`. -/
theorem C12s_perm_inverse (argsort : List Int → List Nat) (hA : ∀ l, IsArgsort l (argsort l))
    (taker : List Int) :
    (invOf argsort ((argsort taker).map Int.ofNat)).map (fun i => (argsort taker).getD i 0)
      = List.range taker.length ∧
    (invOf argsort ((argsort taker).map Int.ofNat)).map
      (fun i => ((argsort taker).map (fun j => taker.getD j 0)).getD i 0) = taker :=
  ⟨inv_map_eq_range (hA taker).1 (hA _), unsort argsort hA taker⟩

/-- there is an `argsort` (the model's stable one, used by the driver). -/
theorem C12s_argsort_exists (l : List Int) : IsArgsort l (argsortStable l) := argsortStable_isArgsort l

/-- `x.vindex[i0, …, ik]` (`_vindex` → `_vindex_array` → `_shuffle` for one index array, `VIndexArray._layer` +
`_vindex_slice_and_transpose` + `_vindex_merge` for several; the index arrays already broadcast to `P` points;
`WF`: one array per indexed axis, chunks `≥ 0`): when every entry is inside `[-size, size)` of its axis the
call succeeds (no task reads outside its block, no advertised output key is missing), the concatenated output
chunks hold `x[p]` for the points `p` in the ORIGINAL order, negatives counted from the end, every cell written
(`some`), and for two or more index arrays the chunks have the advertised lengths (`VIndexArray.chunks`). -/
theorem C12s_vindex_correct {α} (argsort : List Int → List Nat) (hA : ∀ l, IsArgsort l (argsort l))
    (css inds : List (List Int)) (P : Nat) (hne : css ≠ []) (hwf : WF css inds P) (x : List Int → α)
    (h : InRangeAll (css.map isum) inds) :
    ∃ out, vindexEval argsort css inds x = .ok out ∧
      out.flatten = (List.range P).map (fun j => some (x (normPoint css inds j))) ∧
      (2 ≤ css.length → 0 < P → out.map (fun c => (c.length : Int)) = vChunks css P) :=
  vindex_ok argsort hA css inds P hne hwf x h

/-- `vindex` raises `IndexError` exactly when some entry of some index array is outside `[-size, size)`. -/
theorem C12s_vindex_error_iff {α} (argsort : List Int → List Nat) (hA : ∀ l, IsArgsort l (argsort l))
    (css inds : List (List Int)) (P : Nat) (hne : css ≠ []) (hwf : WF css inds P) (x : List Int → α) :
    vindexEval argsort css inds x = .err .indexError ↔ ¬ InRangeAll (css.map isum) inds := by
  constructor
  · intro he hr
    rcases vindex_ok argsort hA css inds P hne hwf x hr with ⟨out, ho, _⟩
    rw [ho] at he
    cases he
  · exact vindex_error argsort css inds P hwf x

/-- one slice task of the `VIndexArray` layer stays inside its block: the read of point `j` through the block
and in-block offset the layer computes for it returns `x[p_j]`. -/
theorem C12s_vindex_point_in_block {α} (css inds : List (List Int)) (P j : Nat) (x : List Int → α)
    (hok : PointsOK css inds P) (hj : j < P) :
    readBlockN css x
      ((List.zipWith (fun cs ind => ind.map (blockIdx cs)) css inds).map (fun b => b.getD j 0))
      (pointAt (List.zipWith (fun cs ind => ind.map (inblockOff cs)) css inds) j) = some (x (pointAt inds j)) :=
  readBlockN_point css inds P j x hok hj

/-! non-vacuity -/

-- n-D vindex with negatives on a 2-D array chunked ((2,3),(1,0,3)), a zero-length chunk: 5 points, one output chunk (m = 9)
example : WF [[2, 3], [1, 0, 3]] [[0, -1, 2, 4, 1], [3, 0, 0, -3, 2]] 5 := by
  simp only [WF]; refine ⟨?_, rfl, ?_, rfl, trivial⟩ <;> (unfold ChunksOK; decide)
example : InRangeAll ([[2, 3], [1, 0, 3]].map isum) [[0, -1, 2, 4, 1], [3, 0, 0, -3, 2]] := by
  simp only [InRangeAll, List.map]; decide
example : (match vindexEval argsortStable [[2, 3], [1, 0, 3]] [[0, -1, 2, 4, 1], [3, 0, 0, -3, 2]]
      (fun t => t.foldl (fun a p => a * 10 + p) 0) with
    | .ok out => out | _ => []) = [[some 3, some 40, some 20, some 41, some 12]] := by decide +kernel
-- several output chunks (max_chunk_point_dimensions = 1 * 2 = 2, 5 points → chunks 2, 2, 1)
example : vChunks [[1, 1], [2, 1]] 5 = [2, 2, 1] := by decide +kernel
example : (match vindexEval argsortStable [[1, 1], [2, 1]] [[1, 0, -1, 0, 1], [2, -3, 1, 2, 0]]
      (fun t => t.foldl (fun a p => a * 10 + p) 0) with
    | .ok out => out | _ => []) = [[some 12, some 0], [some 11, some 2], [some 10]] := by decide +kernel
-- out of bounds on the second axis
example : ¬ InRangeAll ([[2, 3], [1, 0, 3]].map isum) [[0, 1], [4, 0]] := by
  simp only [InRangeAll, List.map]; decide
example : (match vindexEval argsortStable [[2, 3], [1, 0, 3]] [[0, 1], [4, 0]] (fun _ => 0) with
    | .err .indexError => true | _ => false) = true := by decide +kernel
-- one index array goes through the shuffle; no points at all
example : (match vindexEval argsortStable [[3, 0, 4, 3]] [[7, -9, 1, 9]] (fun t => t.headD 0) with
    | .ok out => out | _ => []) = [[some 7, some 1, some 1, some 9]] := by decide +kernel
example : (match vindexEval argsortStable [[2, 3], [4]] [[], []] (fun _ => 0) with
    | .ok out => out | _ => [[none]]) = [[]] := by decide +kernel


-- unsorted + repeated positions across 3 blocks (one of them zero-length in between)
example : planChunk argsortStable [3, 0, 4, 3] [7, 1, 1, 9] =
    .ok ⟨[1, 2, 0, 3], [(0, [1, 1]), (3, [0, 2])], true⟩ := by rfl
example : ChunksOK [3, 0, 4, 3] := by unfold ChunksOK; decide
example : InBounds (isum [3, 0, 4, 3]) [[7, 1, 1, 9], [0, 5, 5, 2], []] := by unfold InBounds; decide
example : (match shuffleEval argsortStable [3, 0, 4, 3] [[7, 1, 1, 9], [0, 5, 5, 2], []] (fun p => p * 10) with
    | .ok out => out | _ => []) = [[70, 10, 10, 90], [0, 50, 50, 20]] := by decide +kernel
-- three source blocks in one output chunk
example : planChunk argsortStable [2, 2, 2] [5, 0, 3, 0] =
    .ok ⟨[1, 3, 2, 0], [(0, [0, 0]), (1, [1]), (2, [1])], true⟩ := by rfl
-- one source block: the un-sorting is folded into the offsets, no merge
example : planChunk argsortStable [3, 4] [6, 3, 5] = .ok ⟨[1, 2, 0], [(1, [3, 0, 2])], false⟩ := by rfl
-- a group longer than the largest chunk is split
example : shuffleChunks [2, 1] [[2, 0, 1, 1, 0]] = [2, 2, 1] := by decide +kernel
-- identity indexer
example : shuffleChunks [2, 0, 1] [[0, 1], [], [2]] = [2, 0, 1] := by decide +kernel
-- take: negatives, the empty index, out of bounds
example : (match takeEval argsortStable [3, 0, 4, 3] [-1, 2, -10, 2] (fun p => p) with
    | .ok out => out | _ => []) = [[9, 2, 0, 2]] := by decide +kernel
example : (match takeEval argsortStable [3, 0, 4, 3] [] (fun p => p) with
    | .ok out => out | _ => [[1]]) = [[]] := by decide +kernel
example : (match takeEval argsortStable [3, 0, 4, 3] [10] (fun p => p) with
    | .err .indexError => true | _ => false) = true := by decide +kernel
example : (match takeEval argsortStable [3, 0, 4, 3] [-11] (fun p => p) with
    | .err .indexError => true | _ => false) = true := by decide +kernel

end Dask.Props.C12Shuffle
