/-
C09 — results do not depend on materialization history or planner configuration.

Model (Model/Entry.lean, namespace Dask.Memo): expressions with names and meanings; EVERY planner decision
(`_lower` of each node: rechunk plan / method, unified layout, tree depth; simplify; fuse; optimize on/off) is
an ORACLE of the configuration in force when it runs; `lowerOnce` is `Expr.lower_once` over the shared
name-keyed `_LOWER_CACHE` (lookup, `_lower`, children left to right, `setdefault`), with the opt-out overrides
(RootAlias, FromGraph, exact-name FromArray return `self` and never touch the cache); `materialize` is
`_materialize` (simplify when optimizing, lower to a name fixpoint, fuse, pin); a history is any list of
(config change | build | lower | compute | weak-value eviction).

Proved for ALL systems, configurations, histories, fuel bounds: the cache invariant is preserved by every
step, hence the meaning of what `materialize` returns is the meaning of the expression whatever was built or
computed before and whatever the configuration was or is.  Premises, explicit: `RuleSound` (each rewrite /
planner answer preserves the meaning FOR EVERY configuration value — C02's per-rule statements) and `NameInj`
(C06, for nodes with content-derived names).  LAYOUTS are not claimed equal (they are not: a warm cache
keeps the plan chosen under an earlier configuration — `example` below, DESIGN §8.7).
The generated table `Generated/ConfigReads.lean` records which configuration keys lowering can read.
-/
import DaskArrayModel.Lemmas.Entry
import DaskArrayModel.Generated.ConfigReads
namespace Dask.Props.C09
open Dask.Memo Dask.Lemmas.Memo

variable {E N D Cfg : Type} [DecidableEq N]

/-- The cache invariant "every entry n ↦ e' satisfies den e' = den e for every (non-opt-out) e named n" is
preserved by EVERY step of ANY history, for ALL configuration values. -/
theorem C09_memo_sound (S : Sys E N D Cfg) (hs : RuleSound S) (hinj : NameInj S) (depth rounds : Nat)
    (st : State E N Cfg) (step : Step E N Cfg) (hc : Inv S st.cache) :
    Inv S (exec S depth rounds st step).cache ∧ EveryEntrySound S (exec S depth rounds st step).cache :=
  have h := exec_sound hs hinj depth rounds st step hc
  ⟨h, Inv_iff_everyEntrySound hinj h⟩

/-- … so it holds after any history started from the empty cache (any starting configuration). -/
theorem C09_memo_sound_history (S : Sys E N D Cfg) (hs : RuleSound S) (hinj : NameInj S) (depth rounds : Nat)
    (h : List (Step E N Cfg)) (cfg0 : Cfg) :
    EveryEntrySound S (runHist S depth rounds ⟨cfg0, []⟩ h).cache :=
  Inv_iff_everyEntrySound hinj (runHist_sound hs hinj depth rounds h ⟨cfg0, []⟩ (Inv_nil S))

/-- The values of a collection are the same whatever was built / lowered / computed before, in whatever
order, and under whatever configuration — at any earlier step and at materialization time. -/
theorem C09_history_config_independent (S : Sys E N D Cfg) (hs : RuleSound S) (hinj : NameInj S)
    (depth rounds : Nat) (h : List (Step E N Cfg)) (cfg0 cfg : Cfg) (e : E) :
    S.den (materialize S cfg depth rounds (runHist S depth rounds ⟨cfg0, []⟩ h).cache e).1 = S.den e :=
  (materialize_sound hs hinj cfg depth rounds _ e
    (runHist_sound hs hinj depth rounds h ⟨cfg0, []⟩ (Inv_nil S))).2

/-- Configuration in effect at CONSTRUCTION: if building a program under any configuration yields an
expression that means the program (layout choices — auto chunks, unify policy, normalised split_every — are
oracles of `cfgBuild`), then the computed values equal the program's meaning for every pair
(construction configuration, materialization configuration) and every history. -/
theorem C09_construction_config_independent {P : Type} (S : Sys E N D Cfg) (hs : RuleSound S) (hinj : NameInj S)
    (construct : Cfg → P → E) (sem : P → D) (hcons : ∀ cfg p, S.den (construct cfg p) = sem p)
    (depth rounds : Nat) (h : List (Step E N Cfg)) (cfg0 cfgBuild cfgRun : Cfg) (p : P) :
    S.den (materialize S cfgRun depth rounds (runHist S depth rounds ⟨cfg0, []⟩ h).cache (construct cfgBuild p)).1
      = sem p := by
  rw [C09_history_config_independent S hs hinj depth rounds h cfg0 cfgRun]
  exact hcons cfgBuild p

/-- Two computes of the same collection with the configuration CHANGED in between agree. -/
theorem C09_recompute_after_config_change (S : Sys E N D Cfg) (hs : RuleSound S) (hinj : NameInj S)
    (depth rounds : Nat) (h : List (Step E N Cfg)) (cfg0 cfg1 cfg2 : Cfg) (e : E) :
    let st1 := runHist S depth rounds ⟨cfg0, []⟩ (h ++ [.setCfg cfg1, .compute e, .setCfg cfg2])
    S.den (materialize S cfg2 depth rounds st1.cache e).1 =
      S.den (materialize S cfg1 depth rounds (runHist S depth rounds ⟨cfg0, []⟩ h).cache e).1 := by
  intro st1
  rw [C09_history_config_independent S hs hinj depth rounds _ cfg0 cfg2,
    C09_history_config_independent S hs hinj depth rounds h cfg0 cfg1]

/-- Nodes that opt out (RootAlias, FromGraph, exact-name FromArray) never enter the cache: lowering or
materializing one returns the node itself and leaves the cache untouched; and every entry of every reachable
cache was stored on behalf of a node that does NOT opt out. -/
theorem C09_optout_never_enters (S : Sys E N D Cfg) (hs : RuleSound S) (hinj : NameInj S)
    (depth rounds : Nat) (h : List (Step E N Cfg)) (cfg0 cfg : Cfg) (e : E) (ho : S.optsOut e = true) :
    (∀ fuel c, lowerOnce S cfg fuel c e = (e, c)) ∧
    (∀ c, materialize S cfg depth rounds c e = (e, c)) ∧
    (∀ n e', (runHist S depth rounds ⟨cfg0, []⟩ h).cache.get? n = some e' →
        ∃ w, S.optsOut w = false ∧ S.name w = n ∧ S.den e' = S.den w) :=
  ⟨fun fuel c => lowerOnce_optsOut cfg fuel c e ho, fun c => materialize_optsOut cfg depth rounds c e ho,
    runHist_sound hs hinj depth rounds h ⟨cfg0, []⟩ (Inv_nil S)⟩

/-- The generic step behind every `lowered.setdefault(self._name, out)` (also `ChunksFreeze.lower_once`):
storing a same-meaning expression under the name of a node that does not opt out keeps the invariant. -/
theorem C09_setdefault_sound (S : Sys E N D Cfg) (c : Cache E N) (e out : E) (hc : Inv S c)
    (ho : S.optsOut e = false) (hd : S.den out = S.den e) : Inv S ((S.name e, out) :: c) :=
  Inv_insert hc ho hd

/-! ### which configuration keys can lowering read (generated table) -/

open Dask.Generated.ConfigReads

/-- keys the planner is documented to read while lowering on this tree: the property's list
(optimize-graph, rechunk method, chunk-size, unify-chunks policy and limit, split_every) plus
`array.chunk-size-tolerance` (read by `auto_chunks` next to `array.chunk-size`).
`array.rechunk.threshold` / `array.rechunk.degree-limit` are read at GRAPH BUILD (`plan_rechunk` under
`TasksRechunk._layer`), listed in `documentedPlannerKeys`. -/
def documentedLoweringKeys : List String :=
  ["array.optimize-graph", "array.rechunk.method", "array.chunk-size", "array.chunk-size-tolerance",
   "array.unify-chunks-policy", "array.unify-chunks-limit", "split_every"]

def documentedPlannerKeys : List String :=
  documentedLoweringKeys ++ ["array.rechunk.threshold", "array.rechunk.degree-limit", "distributed.p2p.storage.disk"]

/-- every configuration read reachable from `_lower` / `lower_once` is a documented one: a NEW read in lowering
breaks this obligation (and the check then varies exactly that key). -/
theorem C09_lowering_config_reads_documented :
    ∀ r ∈ configReads, r.2.2 = "lower" → r.2.1 ∈ documentedLoweringKeys := by decide

/-- the same over all planner phases (lower, simplify, advertised chunks, graph build) -/
theorem C09_planner_config_reads_documented :
    ∀ r ∈ configReads, r.2.2 ≠ "other" → r.2.1 ∈ documentedPlannerKeys := by decide

/-- the code comment "`_lower` must not read config" is FALSE on this tree: lowering reaches the rechunk
method choice and the unify policy (the theorems above are why values survive it) -/
theorem C09_lowering_reads_config :
    "array.rechunk.method" ∈ loweringKeys ∧ "array.unify-chunks-policy" ∈ loweringKeys := by decide

/-! ### non-vacuity -/

/-- toy system: names are the nodes themselves (injective), the meaning is `e % 10`; the planner lowers a raw
node `e < 10` to `e + 10` under `cfg = true` and to `e + 20` under `cfg = false`; nodes `≥ 100` opt out. -/
def toy : Sys Nat Nat Nat Bool where
  name := id
  den := fun e => e % 10
  children := fun _ => []
  withChildren := fun e _ => e
  optsOut := fun e => decide (100 ≤ e)
  rule := fun cfg e => if e < 10 then some (e + (if cfg then 10 else 20)) else none
  simplify := fun _ e => e
  fuse := fun _ e => e
  optimizeOn := fun cfg => cfg
  pinned := fun e _ => e + 100

/-- LAYOUT depends on history (not claimed otherwise): cold under `false` the plan is 23; after a compute under
`true` the warm cache serves plan 13 under `false` — both mean 3 -/
example : (materialize toy false 2 3 [] 3).1 = 123 ∧
    (materialize toy false 2 3 (runHist toy 2 3 ⟨true, []⟩ [.compute 3]).cache 3).1 = 113 ∧
    toy.den 123 = toy.den 3 ∧ toy.den 113 = toy.den 3 := by decide

/-- the cache really is populated and hit -/
example : (runHist toy 2 3 ⟨true, []⟩ [.compute 3]).cache.get? 3 = some 13 := by decide

/-- WHY opting out matters: node 77 is a `FromGraph` whose caller-chosen name is "3" but whose blocks mean 7.
If nobody opts out (`optsOut := false` — the mutated code), lowering it stores `3 ↦ 77`, an entry that does
NOT mean what the raw node named 3 means: the cache invariant of the property is broken (and `NameInj`
fails for that system, as it must). -/
def toyNoOptOut : Sys Nat Nat Nat Bool :=
  { toy with name := fun e => if e = 77 then 3 else e, optsOut := fun _ => false }

example : (runHist toyNoOptOut 2 3 ⟨true, []⟩ [.lower 77]).cache.get? 3 = some 77 := by decide

example : ¬ EveryEntrySound toyNoOptOut (runHist toyNoOptOut 2 3 ⟨true, []⟩ [.lower 77]).cache := by
  intro h
  have := h 3 77 (by decide) 3 rfl rfl
  revert this; decide

/-- with the opt-out in place the same history leaves the cache empty -/
def toyOptOut : Sys Nat Nat Nat Bool :=
  { toy with name := fun e => if e = 77 then 3 else e, optsOut := fun e => decide (e = 77 ∨ 100 ≤ e) }

example : (runHist toyOptOut 2 3 ⟨true, []⟩ [.lower 77]).cache = [] := by decide

/-- a planner whose VALUES depend on the configuration violates `RuleSound` (the premise is not vacuous) -/
example : ¬ RuleSound ({ toy with rule := fun cfg e => if cfg then some (e + 1) else none } : Sys Nat Nat Nat Bool) := by
  intro h
  have := h.rule true 3 4 (by decide)
  revert this; decide

end Dask.Props.C09
