/-
C03 (phase 3, second-layer language) — Advertised shape and chunks are what the graph produces, for
programs that also contain broadcasting binaries, integer-list `take` and sliding-window reductions
(overlap plan), nested with every op of phase 1 (`Expr2`, Model/Expr2.lean; see Props/C01Ext.lean).
ONLY property theorems (restated) and non-vacuity examples.
-/
import DaskArrayModel.Lemmas.Expr2Correct
namespace Dask.Props.C03Ext
open Dask.Py Dask.ND

/-- the block computed for `bid` has exactly the advertised size on every axis -/
theorem C03x_block_shape2 (env : Env) (henv : EnvOK env) (e : Expr2) (bid : List Nat)
    (hwf : WF2 e) (hbid : validBid (chunks2 e) bid) :
    (blockDen2 env e bid).shape = blockShape (chunks2 e) bid :=
  block_shape2 env henv e hwf bid hbid

/-- `.chunks` sums to `.shape` on every axis -/
theorem C03x_chunks2_sum (e : Expr2) (hwf : WF2 e) : (chunks2 e).map List.sum = shape2 e :=
  (meta2_ok e hwf).1

/-- every axis has at least one block -/
theorem C03x_chunks2_nonempty (e : Expr2) (hwf : WF2 e) : ∀ cs ∈ chunks2 e, cs ≠ [] :=
  (meta2_ok e hwf).2

/-- the assembled result has the advertised shape -/
theorem C03x_compute2_shape (env : Env) (e : Expr2) (hwf : WF2 e) : (compute2 env e).shape = shape2 e :=
  (meta2_ok e hwf).1

/-- the output chunks of the overlap plan of a sliding-window reduction: `c[:-1] + (c[-1] - (W-1),)`
has as many blocks as the input axis and sums to `n - W + 1` -/
theorem C03x_swvChunks (cs : List Nat) (w : Nat) (h : cs ≠ []) (hw : 1 ≤ w) (hall : ∀ c ∈ cs, w ≤ c) :
    (swvChunks cs w).length = cs.length ∧ (swvChunks cs w).sum = cs.sum + 1 - w :=
  ⟨swvChunks_length cs w h, swvChunks_sum cs w h hw hall⟩

/-- the chunks of a broadcasting binary have the rank of the longer operand -/
theorem C03x_zipBLayout_length (ca cb : Layout) : (zipBLayout ca cb).length = max ca.length cb.length :=
  zipBLayout_length ca cb

/-! non-vacuity -/
def exEnv : Env := { src := fun _ => ⟨[4, 5], fun _ => 0⟩, un := fun _ x => x, bin := fun _ x _ => x }
def x : Expr2 := .base (.src 0 [4, 5] [[2, 2], [3, 2]])
def e1 : Expr2 := .swvReduce .sum (.take (.zipB 0 x (.base (.src 1 [1, 5] [[1], [3, 2]]))) 0 [3, 3, 0, -1, 1]) 2 1
example : WF2 e1 := by decide
#guard chunks2 e1 == [[2, 2, 1], [3, 1]] && shape2 e1 == [5, 4]
#guard (blockDen2 exEnv e1 [2, 1]).shape == [1, 1] && (blockDen2 exEnv e1 [0, 0]).shape == [2, 3]
example : swvChunks [4, 3, 5] 3 = [4, 3, 3] := by decide

end Dask.Props.C03Ext
