/-
C20 (extension) — the payload a FUSED map_blocks call looks up is the block's own.  ONLY property
theorems (restated; one-liners from Lemmas/BlockInfoFused.lean) and non-vacuity examples.
-/
import DaskArrayModel.Lemmas.BlockInfoFused
namespace Dask.Props.C20Fused
open Dask.BlockInfo Dask.Lemmas.BlockInfoFused

/-- On the per-block task path (`Blockwise._task`, taken when the call is fused with a neighbour) the
`block_info` / `block_id` payload for output block `bid` is read at grid position `bid` itself,
provided no label of the Blockwise's own `new_axes` is an output label of the payload (the
payload-injecting Blockwise that `map_blocks` builds carries no `new_axes` at all). -/
theorem C20_task_lookup (outInd newAxes : List Nat) (outChunks : Layout) (bid : List Nat)
    (hn : outInd.Nodup) (hl : outInd.length = bid.length) (hv : validBid outChunks bid = true)
    (hd : ∀ l ∈ newAxes, l ∉ outInd) :
    taskPayloadId outInd newAxes outChunks bid = some bid :=
  taskPayloadId_id outInd newAxes outChunks bid hn hl hv hd

/-- … hence the `block_info[None]` a fused call receives names its own chunk-location, and with
`C20_block_info` its own array-location and chunk-shape. -/
theorem C20_task_output_info (outInd : List Nat) (outChunks : Layout) (bid : List Nat)
    (hn : outInd.Nodup) (hl : outInd.length = bid.length) (hv : validBid outChunks bid = true) :
    taskOutputInfo outInd [] outChunks bid = some (outputInfo outChunks bid) ∧
    (outputInfo outChunks bid).chunkLocation = bid := by
  refine ⟨?_, rfl⟩
  simp [taskOutputInfo, taskPayloadId_id outInd [] outChunks bid hn hl hv (by simp)]

/-! non-vacuity -/
example : taskPayloadId [1, 0] [] [[2, 2], [3, 3]] [1, 1] = some [1, 1] := by decide
/-- the broken variant "the payload-injecting Blockwise also carries new_axes": every block along the
created axis reads the payload of block 0 -/
example : taskPayloadId [1, 0] [1] [[2, 2], [3, 3]] [1, 1] = some [0, 1] := by decide
example : (taskOutputInfo [1, 0] [1] [[2, 2], [3, 3]] [1, 1]).map (·.chunkLocation) ≠ some [1, 1] := by decide

end Dask.Props.C20Fused
