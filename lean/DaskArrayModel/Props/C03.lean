/-
C03 — Advertised shape and chunks are what the graph produces: the block at every block index
has exactly the size given by `.chunks` along each axis, and `.chunks` sums to the shape.
ONLY property theorems (restated) and non-vacuity examples.  Every well-formed `Expr`
(all constructors, see Props/C01.lean; `EnvOK` only constrains `map_blocks` functions).
(dtype is not modelled: element type is `Int`.)
-/
import DaskArrayModel.Lemmas.ExprCorrect
namespace Dask.Props.C03
open Dask.Py Dask.ND

/-- the block computed for `bid` has exactly the advertised size on every axis -/
theorem C03_block_shape (env : Env) (henv : EnvOK env) (e : Expr) (bid : List Nat)
    (hwf : WF e) (hbid : validBid (chunks e) bid) :
    (blockDen env e bid).shape = blockShape (chunks e) bid :=
  block_shape env henv e hwf bid hbid

/-- `.chunks` sums to `.shape` on every axis -/
theorem C03_chunks_sum (e : Expr) (hwf : WF e) : (chunks e).map List.sum = shape e :=
  (meta_ok e hwf).1

/-- every axis has at least one block (so the block grid is never empty) -/
theorem C03_chunks_nonempty (e : Expr) (hwf : WF e) : ∀ cs ∈ chunks e, cs ≠ [] :=
  (meta_ok e hwf).2

/-- the assembled result has the advertised shape -/
theorem C03_compute_shape (env : Env) (e : Expr) (hwf : WF e) : (compute env e).shape = shape e :=
  (meta_ok e hwf).1

/-! non-vacuity -/
def exSrc : Expr := .src 0 [4, 5] [[2, 2], [3, 2]]
def exE : Expr :=
  .rechunk (.transpose (.slice exSrc [.slc ⟨some 1, some 4, some 2⟩, .slc ⟨none, none, some (-1)⟩]) [1, 0])
    [[1, 4], [2]]
def exEnv : Env := { src := fun _ => ⟨[4, 5], fun _ => 0⟩, un := fun _ x => x, bin := fun _ x _ => x }

example : WF exE := by decide
example : chunks exE = [[1, 4], [2]] ∧ shape exE = [5, 2] := by decide
#guard (blockDen exEnv exE [1, 0]).shape == [4, 2]
example : (blockDen exEnv (.transpose exSrc [1, 0]) [1, 0]).shape = [2, 2] := by decide
example : chunks (.slice exSrc [.slc ⟨some 3, some 0, some (-2)⟩, .int 4]) = [[1, 1]] := by decide
example : chunks (.concat exSrc exSrc 1) = [[2, 2], [3, 2, 3, 2]] := by decide
example : chunks (.reduce .sum exSrc 0 2) = [[1], [3, 2]] ∧
    chunks (.expandDims exSrc 1) = [[2, 2], [1], [3, 2]] := by decide
#guard (blockDen exEnv (.reduce .sum exSrc 0 2) [0, 1]).shape == [1, 2]

end Dask.Props.C03
