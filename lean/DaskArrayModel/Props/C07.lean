/-
C07 — Names are deterministic and survive serialization.

Model (Model/Names.lean, C07 part): a node = class + operands (literals flagged stable/unstable, children)
+ an optional CARRIED token (`_determ_token`).  `nameEnv e n` is the name in process `e`; an unstable literal
(`id(obj)`, fresh `uuid`) tokenizes to `PTok.env e v`, different in every process.
`roundtrip e₁ n` = `Expr._reconstruct(*ArrayExpr.__reduce__(n))` performed on a node living in process `e₁`
(the payload carries `deterministic_token`; children are pickled by their own `__reduce__`).

Over the generated table: `__reduce__` really carries the token, `_reconstruct` really passes it,
`Array.__getstate__` drops only derived caches, and the naming code reads hidden state only at the
documented sites.
-/
import DaskArrayModel.Lemmas.Names
import DaskArrayModel.Generated.NameTables
import DaskArrayModel.Lemmas.KernelDecide
namespace Dask.Props.C07
open Dask.KernelDecide
open Dask.Names Dask.Lemmas.Names
open Dask.Generated.NameTables

/-- pickle round trip: in ANY process `e₂` the rebuilt node has the name it had in the pickling process `e₁` -/
theorem C07_reduce_roundtrip (e₁ e₂ : Nat) (n : PNode) :
    nameEnv e₂ (roundtrip e₁ n) = nameEnv e₁ n :=
  reduce_roundtrip e₁ e₂ n

/-- … and so does every node of its tree, hence every graph key derived from those names -/
theorem C07_reduce_roundtrip_tree (e₁ e₂ : Nat) (n : PNode) :
    treeNames e₂ (roundtrip e₁ n) = treeNames e₁ n :=
  reduce_roundtrip_tree e₁ e₂ n

/-- the round trip changes neither class nor arity, and the rebuilt node carries exactly the old token -/
theorem C07_roundtrip_shape (e₁ : Nat) (n : PNode) :
    (roundtrip e₁ n).cls = n.cls ∧ (roundtrip e₁ n).arity = n.arity ∧
    (roundtrip e₁ n).carried = some (detToken e₁ n) :=
  ⟨cls_roundtripWith _ _ n, arity_roundtripWith _ _ n, carried_roundtripWith _ _ n⟩

/-- determinism: the name depends on the process only through unstable operands not shielded by a carried token -/
theorem C07_name_env_indep (e₁ e₂ : Nat) (n : PNode)
    (h : n.carried.isSome = true ∨ stable n = true) : nameEnv e₁ n = nameEnv e₂ n :=
  nameEnv_env_indep e₁ e₂ n h

/-- `Array.__getstate__/__setstate__`: same expression, same captured configuration; the dropped caches are
    recomputable (cache invariant), so nothing observable changes -/
theorem C07_getstate_drops_only_caches {ε γ κ : Type} (materialize : ε → Bool → γ) (keysOf : ε → κ) (dflt : Bool)
    (s : CollState ε γ κ) :
    (setstate (getstate s)).expr = s.expr ∧
    (setstate (getstate s)).optimizeFlag = s.optimizeFlag ∧
    CacheInv materialize keysOf dflt (setstate (getstate s)) ∧
    (CacheInv materialize keysOf dflt s →
      observe materialize keysOf dflt (setstate (getstate s)) = observe materialize keysOf dflt s) :=
  getstate_drops_only_caches materialize keysOf dflt s

/-! ### tie to the source tree (generated table) -/

/-- derived caches of `Array` that `__getstate__` may drop: both are `cached_property`s recomputed from `_expr`
    (`_lowered_expr` = `_materialize(expr, flag)`, `_cached_dask_keys` = keys from the raw name and chunks) -/
def derivedCaches : List String := ["_lowered_expr", "_cached_dask_keys"]

theorem C07_pickle_protocol :
    reduceDropsToken = [] ∧ reconstructPassesToken = true ∧
    (∀ k, k ∈ getstateDropped → k ∈ derivedCaches) ∧ ¬ ("_expr" ∈ getstateDropped) := by
  kernel_decide

/-- Every place where naming code can read something that is not a function of the operands (see
    harness/translate/names.py), with why it is acceptable.  Anything else breaks this theorem. -/
def documentedExceptions : List String := [
  -- Blockwise: a `lock` kwarg that is a real (non-serializable) lock is identified by `id`: locks are identity objects
  "dask_array/_blockwise.py::Blockwise.__dask_tokenize__::id(v)",
  -- Blockwise: `token_or_identity` — an argument / kwarg with no deterministic tokenization (raises TokenizationError)
  -- falls back to (type, id): per-instance stable, documented as not reproducible across processes
  "dask_array/_blockwise.py::Blockwise.__dask_tokenize__::id(value)",
  -- Elemwise: the same `token_or_identity` fallback, reached only after the strict tokenization failed
  "dask_array/_blockwise.py::Elemwise.__dask_tokenize__::id(value)",
  -- P2PRechunk: non-strict tokenize of (child expr [via its name], chunk tuples, numbers)
  "dask_array/_rechunk.py::P2PRechunk._name::nonstrict tokenize(*self.operands)",
  -- Rechunk: fallback only if pickling the (name string, chunk ints, flags) payload fails
  "dask_array/_rechunk.py::Rechunk._name::nonstrict tokenize(*self.operands)",
  -- from_array(name=False): documented request for a unique name; from_array(name="x"): exact user name with a
  -- unique token so that two user-named sources never share registry entries
  "dask_array/core/_conversion.py::from_array::uuid.uuid1()",
  -- FromArray: a real lock object is identified by `id`
  "dask_array/io/_from_array.py::FromArray.__dask_tokenize__::id(lock)",
  -- FromArray: source with no deterministic tokenization (h5py dataset …): ONE random token per instance, cached in
  -- `_determ_token` and pickled with the node (per-instance and pickle stability are what C07 requires there)
  "dask_array/io/_from_array.py::FromArray.__dask_tokenize__::uuid.uuid4()",
  -- hand-built region name: tokenize of slices / ints only
  "dask_array/io/_from_array.py::FromArray._accept_slice::nonstrict tokenize(old_region, region_index, new_region)",
  -- integer extraction above a region read of a user-named source: tokenize of the hand-built name string and the
  -- read's cached token (for from_array(name="x") that token carries the documented per-call uuid above; it is cached
  -- in `_determ_token` and pickled with the node)
  "dask_array/io/_from_array.py::FromArray._accept_slice::nonstrict tokenize(extract_determ, self.deterministic_token)",
  -- hand-built rechunk name: tokenize of chunk tuples only
  "dask_array/io/_from_array.py::FromArray._with_chunks::nonstrict tokenize(self.chunks, chunks)",
  -- Random: tokenize of the spawned seeds / sizes / chunks / distribution args
  "dask_array/random/_expr.py::Random._info::nonstrict tokenize(bitgen_token, self.size, self.chunks, self.args, self.kwargs)",
  "dask_array/random/_expr.py::Random._info::nonstrict tokenize(bitgens)",
  -- Random (RandomState): SeedSequence seeded from the root RNG state: a pure function of the `rng` operand
  "dask_array/random/_expr.py::Random._info::np.random.SeedSequence(root_entropy)"
]

theorem C07_unstable_sites : ∀ s, s ∈ unstableSites → s ∈ documentedExceptions := by
  kernel_decide

/-! ### non-vacuity and witnesses -/

/-- a node with an unstable operand and no carried token: its name really differs between processes … -/
example : nameEnv 0 (PNode.lit false 7 (PNode.nil 3 none)) ≠ nameEnv 1 (PNode.lit false 7 (PNode.nil 3 none)) := by
  simp [nameEnv, detToken, ptokAll, PNode.cls, PNode.carried]

/-- … the round trip fixes it (instance of the theorem) … -/
example : nameEnv 1 (roundtrip 0 (PNode.lit false 7 (PNode.nil 3 none))) = nameEnv 0 (PNode.lit false 7 (PNode.nil 3 none)) :=
  C07_reduce_roundtrip 0 1 _

/-- … and a `__reduce__` that DROPS the carried token breaks it -/
example : nameEnv 1 (roundtripDropToken 0 (PNode.lit false 7 (PNode.nil 3 none)))
    ≠ nameEnv 0 (PNode.lit false 7 (PNode.nil 3 none)) := by
  simp [nameEnv, detToken, ptokAll, roundtripDropToken, roundtripWith, PNode.cls, PNode.carried]

/-- dropping the token of a CHILD is visible in the parent's name as well -/
example :
    let c := PNode.lit false 7 (PNode.nil 3 none)
    nameEnv 1 (PNode.child (roundtripDropToken 0 c) (PNode.nil 4 none)) ≠ nameEnv 0 (PNode.child c (PNode.nil 4 none)) := by
  simp [nameEnv, detToken, ptokAll, roundtripDropToken, roundtripWith, PNode.cls, PNode.carried]

/-- stable nodes exist and the determinism theorem applies to them -/
example : stable (PNode.child (PNode.lit true 1 (PNode.nil 2 none)) (PNode.lit true 5 (PNode.nil 3 none))) = true := by decide

/-- getstate really drops something and the cache invariant is satisfiable with populated caches -/
example :
    let s : CollState Nat Nat Nat := { expr := 4, lowered := some 5, keys := some 8, optimizeFlag := some true }
    CacheInv (fun e _ => e + 1) (fun e => 2 * e) true s ∧ (getstate s).lowered = none ∧ (getstate s).expr = 4 := by
  refine ⟨⟨?_, ?_⟩, rfl, rfl⟩
  · intro g h; injection h with h; exact h.symm
  · intro k h; injection h with h; exact h.symm

/-- the site table is not empty (the scan sees the documented fallbacks) -/
example : unstableSites.length > 0 ∧ reduceOwners.contains "ArrayExpr" = true := by kernel_decide

end Dask.Props.C07
