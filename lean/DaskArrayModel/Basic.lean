def hello := "world"
