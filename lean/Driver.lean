/-
Line-protocol driver: one request per line on stdin (`<cmd> <arg>…`), one canonical
line per request on stdout (`ok …` / `err <Class>` / `bad-op`).  Imports model files
only (no Mathlib) so it links natively.
-/
import DaskArrayModel.Drv.Slicing
import DaskArrayModel.Drv.Rechunk

def handlers : List (String → List String → Option String) :=
  [Dask.Drv.Slicing.handle, Dask.Drv.Rechunk.handle]

def dispatch (cmd : String) (args : List String) : String :=
  match handlers.findSome? (fun h => h cmd args) with
  | some r => r
  | none => "bad-op"

partial def loop (h : IO.FS.Stream) (out : IO.FS.Stream) : IO Unit := do
  let line ← h.getLine
  if line.isEmpty then return ()
  let toks := (line.trimAscii.toString.splitOn " ").filter (· ≠ "")
  match toks with
  | [] => out.putStrLn "bad-op"
  | cmd :: args => out.putStrLn (dispatch cmd args)
  loop h out

def main : IO Unit := do
  let stdin ← IO.getStdin
  let stdout ← IO.getStdout
  loop stdin stdout
